(* C07 lemmas: the translated tree_util functions on finite inputs compute the
   weighted mean of Common/WMean.v; clipping; ownership frame properties. *)
From Coq Require Import ZArith QArith Qminmax Qabs List Permutation Bool Lia Lqa Setoid Morphisms.
From FV Require Import Common.ListX Common.Batch Common.CMonoid Common.NanQ Common.QVec Common.WMean
  gen.Gen_tree_util gen.Gen_aggregator Model.C07_Model.
Import ListNotations.
Local Open Scope Q_scope.

(* l * w, the operand order of tree_weight *)
Definition rscale (w : Q) (p : list Q) : list Q := map (fun l => l * w) p.
Definition swap (c : list Q * Q) : Q * list Q := (snd c, fst c).
Definition wfc (n : nat) (cl : list (list Q * Q)) : Prop := Forall (fun c => length (fst c) = n) cl.

Lemma rscale_vscale w p : rscale w p =v= vscale w p.
Proof. induction p as [|x p IH]; cbn; constructor; [ring|exact IH]. Qed.

Lemma rscale_length w p : length (rscale w p) = length p.
Proof. apply map_length. Qed.

(* ---- the translated functions on finite data ---- *)
Lemma tree_weight_lift p w : tree_weight (vlift p) (Some w) = vlift (rscale w p).
Proof. unfold tree_weight, vlift, rscale. rewrite !map_map. reflexivity. Qed.

Lemma tree_add_lift a b : tree_add (vlift a) (vlift b) = vlift (vadd a b).
Proof. apply nq_vadd_lift. Qed.

Lemma inverse_weight_expr w :
  NanQ.where_ (NanQ.gtb (Some w) (NanQ.of_Q (0 # 1))) (NanQ.div (NanQ.of_Q (1 # 1)) (Some w)) (NanQ.of_Q (0 # 1))
  = Some (inv_weight w).
Proof. exact (nq_inv_weight_Some w). Qed.

Lemma tree_inverse_weight_eq_lift p w :
  tree_inverse_weight_eq (vlift p) (Some w) = vlift (rscale (inv_weight w) p).
Proof.
  unfold tree_inverse_weight_eq. rewrite inverse_weight_expr. unfold tree_weight_eq. apply tree_weight_lift.
Qed.

Lemma tree_inverse_weight_lift p w :
  tree_inverse_weight (vlift p) (Some w) = vlift (rscale (inv_weight w) p).
Proof. unfold tree_inverse_weight. rewrite inverse_weight_expr. apply tree_weight_lift. Qed.

(* T: the translated guard is WMean.inv_weight *)
Lemma gen_inverse_weight_spec p w :
  tree_inverse_weight (vlift p) (Some w) = vlift (rscale (inv_weight w) p) /\
  tree_inverse_weight_eq (vlift p) (Some w) = vlift (rscale (inv_weight w) p).
Proof. split; [apply tree_inverse_weight_lift|apply tree_inverse_weight_eq_lift]. Qed.

(* ---- tree_sum ---- *)
Definition q_tree_sum (ts : list (list Q)) : option (list Q) :=
  match ts with [] => None | t :: rest => Some (fold_left vadd rest t) end.

Lemma tree_sum_fold rest : forall s0,
  fold_left tree_sum_step (map vlift rest) (Some (vlift s0)) = Some (vlift (fold_left vadd rest s0)).
Proof.
  induction rest as [|t rest IH]; intros s0; cbn [map fold_left]; [reflexivity|].
  unfold tree_sum_step at 2. unfold tree_add_eq. rewrite tree_add_lift. apply IH.
Qed.

Lemma tree_sum_lift ts : tree_sum (map vlift ts) = option_map vlift (q_tree_sum ts).
Proof.
  destruct ts as [|t rest]; [reflexivity|]. unfold tree_sum, tree_sum_init. cbn [map fold_left].
  unfold tree_sum_step at 2, copy_tree. apply tree_sum_fold.
Qed.

Lemma q_tree_sum_is_sum n ts : ts <> [] -> Forall (fun t => length t = n) ts ->
  exists v, q_tree_sum ts = Some v /\ v =v= vsum n ts.
Proof.
  intros Hne H. destruct ts as [|t rest]; [congruence|]. eexists; split; [reflexivity|].
  apply vsum_first; [exact (Forall_inv H)|exact (Forall_inv_tail H)].
Qed.

(* ---- tree_mean ---- *)
Definition q_tree_mean (cl : list (list Q * Q)) : option (list Q) :=
  match cl with
  | [] => None
  | c :: rest =>
      Some (rscale (inv_weight (fold_left Qplus (map snd rest) (0 + snd c)))
                   (fold_left vadd (map (fun c => rscale (snd c) (fst c)) rest) (rscale (snd c) (fst c))))
  end.

Lemma tree_mean_fold rest : forall s0 t0,
  fold_left tree_mean_step (map lift_client rest) (Some (vlift s0), Some t0) =
  (Some (vlift (fold_left vadd (map (fun c => rscale (snd c) (fst c)) rest) s0)),
   Some (fold_left Qplus (map snd rest) t0)).
Proof.
  induction rest as [|c rest IH]; intros s0 t0; cbn [map fold_left]; [reflexivity|].
  unfold tree_mean_step at 2. unfold lift_client at 2. rewrite tree_weight_lift.
  unfold tree_add_eq. rewrite tree_add_lift. cbn [NanQ.add NanQ.lift2]. apply IH.
Qed.

Lemma tree_mean_lift cl : tree_mean (map lift_client cl) = option_map vlift (q_tree_mean cl).
Proof.
  destruct cl as [|c rest]; [reflexivity|]. unfold tree_mean, tree_mean_init. cbn [map fold_left].
  unfold tree_mean_step at 2. unfold lift_client at 2. rewrite tree_weight_lift.
  cbn [NanQ.add NanQ.lift2 NanQ.of_Q]. rewrite tree_mean_fold. cbn [option_map q_tree_mean].
  rewrite tree_inverse_weight_eq_lift. reflexivity.
Qed.

Lemma wf_swap n cl : wfc n cl -> wf_clients n (map swap cl).
Proof. intros H. apply Forall_map. exact H. Qed.

Lemma q_tree_mean_is_wmean n cl : cl <> [] -> wfc n cl ->
  exists v, q_tree_mean cl = Some v /\ v =v= wmean_batch n (map swap cl).
Proof.
  intros Hne Hwf. destruct cl as [|c rest]; [congruence|]. eexists; split; [reflexivity|].
  pose proof (Forall_inv Hwf) as Hc. pose proof (Forall_inv_tail Hwf) as Hrest. cbn beta in Hc.
  rewrite rscale_vscale. unfold wmean_batch. apply vscale_proper.
  - apply inv_weight_proper. rewrite fold_left_Qplus. unfold wtot. cbn [map swap fst snd qsum].
    rewrite map_map. cbn [swap fst].
    change (map (fun x : list Q * Q => snd x) rest) with (map (@snd (list Q) Q) rest). ring.
  - unfold wsum. cbn [map].
    assert (L : Forall (fun v => length v = n) (map (fun c => rscale (snd c) (fst c)) rest)).
    { apply Forall_map. eapply Forall_impl; [|exact Hrest]. intros a Ha. rewrite rscale_length. exact Ha. }
    etransitivity; [apply (vsum_first n); [rewrite rscale_length; exact Hc|exact L]|].
    apply (mfold_Forall2 (vec_cmonoid n)); [|constructor; [rewrite rscale_length; exact Hc|exact L]].
    constructor; [apply rscale_vscale|].
    clear. induction rest as [|a rest IH]; cbn; constructor; [apply rscale_vscale|exact IH].
Qed.

Lemma tree_mean_is_wmean n cl : cl <> [] -> wfc n cl ->
  exists v, tree_mean (map lift_client cl) = Some (vlift v) /\ v =v= wmean_batch n (map swap cl).
Proof.
  intros Hne Hwf. destruct (q_tree_mean_is_wmean n cl Hne Hwf) as [v [Hv E]].
  exists v. rewrite tree_mean_lift, Hv. split; [reflexivity|exact E].
Qed.

Lemma wtot_swap cl : wtot (map swap cl) = qsum (map snd cl).
Proof. unfold wtot. rewrite map_map. reflexivity. Qed.

Lemma wcoord_swap i cl : wcoord i (map swap cl) = qsum (map (fun c => snd c * vnth i (fst c)) cl).
Proof. unfold wcoord. rewrite map_map. reflexivity. Qed.

(* property-level statements *)
Lemma mean_is_wmean n cl : cl <> [] -> wfc n cl -> 0 < qsum (map snd cl) ->
  exists v, tree_mean (map lift_client cl) = Some (vlift v) /\ length v = n /\
    forall i, (i < n)%nat ->
      vnth i v == qsum (map (fun c => snd c * vnth i (fst c)) cl) / qsum (map snd cl).
Proof.
  intros Hne Hwf Hpos. destruct (tree_mean_is_wmean n cl Hne Hwf) as [v [Hv E]].
  exists v. split; [exact Hv|]. pose proof (wf_swap n cl Hwf) as Hs.
  split; [rewrite (veq_length _ _ E); apply wmean_batch_length; exact Hs|].
  intros i Hi. apply veq_nth_iff in E. destruct E as [L E].
  rewrite E by (rewrite L, wmean_batch_length; assumption).
  rewrite <- wtot_swap in *. rewrite <- wcoord_swap. apply (proj2 (wmean_def n _ Hs Hpos)). exact Hi.
Qed.

Lemma mean_zero_total n cl : cl <> [] -> wfc n cl -> qsum (map snd cl) <= 0 ->
  exists v, tree_mean (map lift_client cl) = Some (vlift v) /\ v =v= vzero n.
Proof.
  intros Hne Hwf Hz. destruct (tree_mean_is_wmean n cl Hne Hwf) as [v [Hv E]].
  exists v. split; [exact Hv|]. rewrite E. apply wmean_zero_total; [apply wf_swap; exact Hwf|].
  rewrite wtot_swap. exact Hz.
Qed.

Lemma mean_order_independent n cl cl' : cl <> [] -> wfc n cl -> Permutation cl cl' ->
  exists v v', tree_mean (map lift_client cl) = Some (vlift v) /\
               tree_mean (map lift_client cl') = Some (vlift v') /\ v =v= v'.
Proof.
  intros Hne Hwf HP.
  assert (Hne' : cl' <> []) by (intros ->; apply Permutation_sym, Permutation_nil in HP; congruence).
  assert (Hwf' : wfc n cl') by (eapply Permutation_Forall; eassumption).
  destruct (tree_mean_is_wmean n cl Hne Hwf) as [v [Hv E]].
  destruct (tree_mean_is_wmean n cl' Hne' Hwf') as [v' [Hv' E']].
  exists v, v'. split; [exact Hv|]. split; [exact Hv'|]. rewrite E, E'.
  apply wmean_perm; [apply Permutation_map; exact HP|apply wf_swap; exact Hwf].
Qed.

Lemma mean_inside_hull n c cl : wfc n (c :: cl) -> Forall (fun c => 0 <= snd c) (c :: cl) ->
  0 < qsum (map snd (c :: cl)) ->
  exists v, tree_mean (map lift_client (c :: cl)) = Some (vlift v) /\
    vle (vmins (fst c) (map fst cl)) v /\ vle v (vmaxs (fst c) (map fst cl)).
Proof.
  intros Hwf Hw Hpos. destruct (tree_mean_is_wmean n (c :: cl) ltac:(discriminate) Hwf) as [v [Hv E]].
  exists v. split; [exact Hv|].
  pose proof (wmean_hull_minmax n (swap c) (map swap cl)) as H. cbn [map] in E.
  destruct H as [H1 H2].
  - apply (wf_swap n (c :: cl)). exact Hwf.
  - change (swap c :: map swap cl) with (map swap (c :: cl)). apply Forall_map. exact Hw.
  - change (swap c :: map swap cl) with (map swap (c :: cl)). rewrite wtot_swap. exact Hpos.
  - rewrite map_map in H1, H2. cbn [swap snd] in H1, H2.
    assert (X : forall a b c', vle a b -> c' =v= b -> vle a c').
    { intros a b c' Hab Ecb. apply vle_nth_iff in Hab. apply veq_nth_iff in Ecb. apply vle_nth_iff.
      destruct Hab as [La Hab], Ecb as [Lc Ecb]. split; [lia|]. intros i Hi. rewrite Ecb by lia. apply Hab. exact Hi. }
    assert (Y : forall a b c', vle b a -> c' =v= b -> vle c' a).
    { intros a b c' Hab Ecb. apply vle_nth_iff in Hab. apply veq_nth_iff in Ecb. apply vle_nth_iff.
      destruct Hab as [La Hab], Ecb as [Lc Ecb]. split; [lia|]. intros i Hi. rewrite Ecb by lia. apply Hab. lia. }
    split; [eapply X; eassumption|eapply Y; eassumption].
Qed.

Lemma sum_is_sum n ts : ts <> [] -> Forall (fun t => length t = n) ts ->
  exists v, tree_sum (map vlift ts) = Some (vlift v) /\ v =v= vsum n ts /\
    forall i, (i < n)%nat -> vnth i v == qsum (map (vnth i) ts).
Proof.
  intros Hne H. destruct (q_tree_sum_is_sum n ts Hne H) as [v [Hv E]].
  exists v. rewrite tree_sum_lift, Hv. split; [reflexivity|]. split; [exact E|].
  intros i Hi. apply veq_nth_iff in E. destruct E as [L E]. rewrite E by (rewrite L, vsum_length; assumption).
  apply vnth_vsum; assumption.
Qed.

Lemma sum_order_independent n ts ts' : ts <> [] -> Forall (fun t => length t = n) ts -> Permutation ts ts' ->
  exists v v', tree_sum (map vlift ts) = Some (vlift v) /\ tree_sum (map vlift ts') = Some (vlift v') /\ v =v= v'.
Proof.
  intros Hne H HP.
  assert (Hne' : ts' <> []) by (intros ->; apply Permutation_sym, Permutation_nil in HP; congruence).
  assert (H' : Forall (fun t => length t = n) ts') by (eapply Permutation_Forall; eassumption).
  destruct (sum_is_sum n ts Hne H) as [v [Hv [E _]]]. destruct (sum_is_sum n ts' Hne' H') as [v' [Hv' [E' _]]].
  exists v, v'. split; [exact Hv|]. split; [exact Hv'|]. rewrite E, E'. apply vsum_perm; assumption.
Qed.

(* aggregator = tree_mean on (params, weight) *)
Lemma aggregator_is_tree_mean {S} (cl : list (Z * list Q * Q)) (st : S) :
  mean_aggregator_apply (map (fun c => (fst (fst c), vlift (snd (fst c)), Some (snd c))) cl) st =
  (tree_mean (map lift_client (map (fun c => (snd (fst c), snd c)) cl)), st).
Proof.
  unfold mean_aggregator_apply. rewrite !map_map. reflexivity.
Qed.

(* single pass: the state after a prefix is all that the rest of the input needs *)
Lemma mean_single_pass l1 l2 :
  fold_left tree_mean_step (l1 ++ l2) tree_mean_init =
  fold_left tree_mean_step l2 (fold_left tree_mean_step l1 tree_mean_init).
Proof. apply fold_left_app. Qed.
Lemma sum_single_pass l1 l2 :
  fold_left tree_sum_step (l1 ++ l2) tree_sum_init =
  fold_left tree_sum_step l2 (fold_left tree_sum_step l1 tree_sum_init).
Proof. apply fold_left_app. Qed.

(* ---- the norm: translated tree_l2_squared is the sum of squares ---- *)
Lemma l2_squared_lift x : tree_l2_squared (vlift x) = Some (qsum (map (fun t => t * t) x)).
Proof.
  unfold tree_l2_squared, vlift. rewrite map_map. cbn [NanQ.mul NanQ.lift2].
  induction x as [|t x IH]; [reflexivity|]. cbn [map NanQ.sum fold_right qsum].
  change (fold_right NanQ.add NanQ.zero (map (fun x0 : Q => Some (x0 * x0)) x)) with (NanQ.sum (map (fun x0 : Q => Some (x0 * x0)) x)).
  unfold NanQ.t in *. rewrite IH. reflexivity.
Qed.

Lemma l2_norm_spec n x : is_l2_norm n (vlift x) <-> (0 <= n /\ n * n == sumsq x).
Proof.
  unfold is_l2_norm. rewrite l2_squared_lift. cbn [NanQ.eq]. unfold sumsq.
  split; intros [H1 H2]; (split; [exact H1|]); [symmetry; exact H2|symmetry; exact H2].
Qed.

(* ---- clipping ---- *)
(* scale = where(global_norm > max_norm, max_norm / global_norm, 1) *)
Definition clip_scale (c n : Q) : Q := if Qltb c n then c / n else 1.

Lemma clip_is_scale xv c n : 0 <= c -> 0 <= n ->
  clip_model (Some n) (vlift xv) (Some c) = vlift (vscale (clip_scale c n) xv).
Proof.
  intros Hc Hn. unfold clip_model, tree_clip_by_global_norm, clip_scale.
  cbn [NanQ.gtb NanQ.ltb]. destruct (Qltb c n) eqn:E; cbn [NanQ.where_].
  - apply Qltb_lt in E. assert (N : ~ n == 0) by lra. rewrite (NanQ.div_Some c n N).
    unfold vlift, vscale. rewrite !map_map. reflexivity.
  - unfold vlift, vscale. rewrite !map_map. reflexivity.
Qed.

Lemma clip_scale_range c n : 0 <= c -> 0 <= n ->
  0 <= clip_scale c n <= 1 /\ (0 < c -> 0 < clip_scale c n) /\ clip_scale c n * n <= c.
Proof.
  intros Hc Hn. unfold clip_scale. destruct (Qltb c n) eqn:E.
  - apply Qltb_lt in E. assert (Hn' : 0 < n) by lra.
    assert (Hq : 0 <= c / n) by (apply Qle_shift_div_l; lra).
    assert (Hq1 : c / n <= 1) by (apply Qle_shift_div_r; lra).
    assert (Hm : c / n * n == c) by (field; lra).
    split; [lra|]. split; [|lra]. intros Hc'. apply Qlt_shift_div_l; lra.
  - apply Qltb_ge in E. split; [lra|]. split; [intros; lra|lra].
Qed.

Lemma clip_norm_le_bound xv c n : 0 <= c -> 0 <= n -> n * n == sumsq xv ->
  exists y, clip_model (Some n) (vlift xv) (Some c) = vlift y /\ sumsq y <= c * c.
Proof.
  intros Hc Hn Hnorm. eexists; split; [apply clip_is_scale; assumption|].
  rewrite sumsq_vscale, <- Hnorm. destruct (clip_scale_range c n Hc Hn) as [[H1 H2] [_ H3]].
  set (s := clip_scale c n) in *. assert (0 <= s * n) by nra.
  assert (E : s * s * (n * n) == (s * n) * (s * n)) by ring. rewrite E. nra.
Qed.

Lemma clip_identity_below_bound xv c n : 0 <= c -> 0 <= n -> n <= c ->
  exists y, clip_model (Some n) (vlift xv) (Some c) = vlift y /\ y =v= xv.
Proof.
  intros Hc Hn Hle. eexists; split; [apply clip_is_scale; assumption|].
  assert (E : clip_scale c n = 1). { unfold clip_scale. apply Qltb_ge in Hle. rewrite Hle. reflexivity. }
  rewrite E. apply vscale_1.
Qed.

Lemma clip_keeps_direction xv c n : 0 <= c -> 0 <= n ->
  exists y s, clip_model (Some n) (vlift xv) (Some c) = vlift y /\ 0 <= s <= 1 /\ (0 < c -> 0 < s) /\
              y =v= vscale s xv /\ (c < n -> s == c / n).
Proof.
  intros Hc Hn. exists (vscale (clip_scale c n) xv), (clip_scale c n).
  split; [apply clip_is_scale; assumption|]. destruct (clip_scale_range c n Hc Hn) as [R1 [R2 _]].
  split; [exact R1|]. split; [exact R2|]. split; [reflexivity|].
  intros Hlt. unfold clip_scale. apply Qltb_lt in Hlt. rewrite Hlt. reflexivity.
Qed.

(* ---- ownership: frame properties of the script ---- *)
(* a store is well formed when every deleted location has been allocated *)
Definition wf_store (s : store) : Prop := forall l, In l (deleted s) -> (l < next_loc s)%nat.

(* invariant of the running accumulator `acc` relative to the store s0 at call time:
   nothing that existed at call time has been deleted, and the accumulator (if any)
   was allocated by the call and is live *)
Definition own_inv (s0 : store) (st : option nat * store) : Prop :=
  let '(acc, s) := st in
  (next_loc s0 <= next_loc s)%nat /\ wf_store s /\
  (forall l, In l (deleted s) -> In l (deleted s0) \/ (next_loc s0 <= l)%nat) /\
  (forall a, acc = Some a -> (next_loc s0 <= a < next_loc s)%nat /\ ~ In a (deleted s)).

Lemma own_inv_init s0 : wf_store s0 -> own_inv s0 (None, s0).
Proof.
  intros W. unfold own_inv. split; [lia|]. split; [exact W|]. split; [intros; left; assumption|]. intros a [=].
Qed.

Lemma own_sum_step_inv s0 st p : own_inv s0 st -> own_inv s0 (own_tree_sum_step st p).
Proof.
  destruct st as [acc s]. intros [Hn [W [Hd Ha]]]. unfold own_tree_sum_step. destruct acc as [a|].
  - destruct (Ha a eq_refl) as [Ra Na].
    unfold jit_call, tree_add_eq_donates, donate, alloc, wf_store in *. cbn.
    split; [lia|]. split.
    + intros l [<-|Hl]; cbn; [lia|]. specialize (W l Hl). lia.
    + split.
      * intros l [<-|Hl]; [right; lia|apply Hd; exact Hl].
      * intros b [= <-]. split; [lia|]. intros [E|Hl]; [lia|]. specialize (W _ Hl). lia.
  - unfold alloc, wf_store in *. cbn. split; [lia|]. split.
    + intros l Hl. cbn. specialize (W l Hl). lia.
    + split; [exact Hd|]. intros b [= <-]. split; [lia|]. intros Hl. specialize (W _ Hl). lia.
Qed.

Lemma own_mean_step_inv s0 st p : own_inv s0 st -> own_inv s0 (own_tree_mean_step st p).
Proof.
  destruct st as [acc s]. intros [Hn [W [Hd Ha]]]. unfold own_tree_mean_step.
  unfold jit_call, tree_weight_donates, tree_add_eq_donates, donate, alloc, wf_store in *. cbn. destruct acc as [a|]; cbn.
  - destruct (Ha a eq_refl) as [Ra Na].
    split; [lia|]. split.
    + intros l [<-|Hl]; cbn; [lia|]. specialize (W l Hl). lia.
    + split.
      * intros l [<-|Hl]; [right; lia|apply Hd; exact Hl].
      * intros b [= <-]. split; [lia|]. intros [E|Hl]; [lia|]. specialize (W _ Hl). lia.
  - split; [lia|]. split.
    + intros l Hl. cbn. specialize (W l Hl). lia.
    + split; [exact Hd|]. intros b [= <-]. split; [lia|]. intros Hl. specialize (W _ Hl). lia.
Qed.

Lemma own_fold_inv (step : option nat * store -> nat -> option nat * store) s0 (Hstep : forall st p, own_inv s0 st -> own_inv s0 (step st p)) inputs :
  forall st, own_inv s0 st -> own_inv s0 (fold_left step inputs st).
Proof. induction inputs as [|p inputs IH]; intros st H; cbn; [exact H|]. apply IH, Hstep, H. Qed.

Lemma own_sum_some inputs : forall a s, exists a' s', fold_left own_tree_sum_step inputs (Some a, s) = (Some a', s').
Proof.
  induction inputs as [|p inputs IH]; intros a s; cbn [fold_left]; [eauto|].
  unfold own_tree_sum_step at 2. destruct (jit_call tree_add_eq_donates [a; p] s) as [l s1]. apply IH.
Qed.

Lemma own_mean_some inputs : forall a s, exists a' s', fold_left own_tree_mean_step inputs (Some a, s) = (Some a', s').
Proof.
  induction inputs as [|p inputs IH]; intros a s; cbn [fold_left]; [eauto|].
  unfold own_tree_mean_step at 2. destruct (jit_call tree_weight_donates [p] s) as [wl s1].
  destruct (jit_call tree_add_eq_donates [a; wl] s1) as [l s2]. apply IH.
Qed.

(* the frame property of a whole call *)
Definition call_ok (s0 : store) (inputs : list nat) (res : option nat * store) : Prop :=
  let '(r, s') := res in
  (* no location that existed before the call has been deleted by it *)
  (forall l, (l < next_loc s0)%nat -> In l (deleted s') -> In l (deleted s0)) /\
  (* a non-empty input gives a result; it lives in a location allocated by the call
     (so it is none of the caller's locations) and it is not deleted *)
  (inputs <> [] -> exists a, r = Some a /\ (next_loc s0 <= a)%nat /\ ~ In a (deleted s')).

Lemma own_tree_sum_ok s0 inputs : wf_store s0 -> call_ok s0 inputs (own_tree_sum inputs s0).
Proof.
  intros W. unfold own_tree_sum.
  pose proof (own_fold_inv _ s0 (own_sum_step_inv s0) inputs (None, s0) (own_inv_init s0 W)) as H.
  destruct (fold_left own_tree_sum_step inputs (None, s0)) as [r s'] eqn:E.
  destruct H as [Hn [W' [Hd Ha]]]. split.
  - intros l Hl Hin. destruct (Hd l Hin) as [H|H]; [exact H|lia].
  - intros Hne. destruct inputs as [|p inputs]; [congruence|]. cbn [fold_left] in E.
    unfold own_tree_sum_step at 2 in E. destruct (alloc s0) as [l0 s1].
    destruct (own_sum_some inputs l0 s1) as [a' [s'' E']]. rewrite E' in E. injection E as <- <-.
    exists a'. split; [reflexivity|]. destruct (Ha a' eq_refl) as [R N]. split; [lia|exact N].
Qed.

Lemma own_tree_mean_ok s0 inputs : wf_store s0 -> call_ok s0 inputs (own_tree_mean inputs s0).
Proof.
  intros W. unfold own_tree_mean.
  pose proof (own_fold_inv _ s0 (own_mean_step_inv s0) inputs (None, s0) (own_inv_init s0 W)) as H.
  destruct (fold_left own_tree_mean_step inputs (None, s0)) as [r s'] eqn:E.
  destruct H as [Hn [W' [Hd Ha]]].
  assert (Hr : inputs <> [] -> exists a, r = Some a).
  { intros Hne. destruct inputs as [|p inputs]; [congruence|]. cbn [fold_left] in E.
    unfold own_tree_mean_step at 2 in E. destruct (jit_call tree_weight_donates [p] s0) as [wl s1].
    destruct (own_mean_some inputs wl s1) as [a' [s'' E']]. rewrite E' in E. injection E as <- <-. eauto. }
  destruct r as [a|].
  - destruct (Ha a eq_refl) as [R N].
    unfold jit_call, tree_weight_eq_donates, donate, alloc, wf_store in *. cbn. split.
    + intros l Hl [<-|Hin]; [lia|]. destruct (Hd l Hin) as [H|H]; [exact H|lia].
    + intros _. exists (next_loc s'). split; [reflexivity|]. split; [lia|].
      intros [E1|Hin]; [lia|]. specialize (W' _ Hin). lia.
  - split.
    + intros l Hl Hin. destruct (Hd l Hin) as [H|H]; [exact H|lia].
    + intros Hne. destruct (Hr Hne) as [a [=]].
Qed.

Lemma single_pass : forall l1 l2 m1 m2,
  fold_left tree_mean_step (l1 ++ l2) tree_mean_init =
    fold_left tree_mean_step l2 (fold_left tree_mean_step l1 tree_mean_init) /\
  fold_left tree_sum_step (m1 ++ m2) tree_sum_init =
    fold_left tree_sum_step m2 (fold_left tree_sum_step m1 tree_sum_init).
Proof. intros. split; [apply mean_single_pass|apply sum_single_pass]. Qed.

Lemma inputs_not_donated : forall s0 inputs, wf_store s0 ->
  (forall l, (l < next_loc s0)%nat -> In l (deleted (snd (own_tree_sum inputs s0))) -> In l (deleted s0)) /\
  (forall l, (l < next_loc s0)%nat -> In l (deleted (snd (own_tree_mean inputs s0))) -> In l (deleted s0)).
Proof.
  intros s0 inputs W. pose proof (own_tree_sum_ok s0 inputs W) as H1. pose proof (own_tree_mean_ok s0 inputs W) as H2.
  unfold call_ok in *. destruct (own_tree_sum inputs s0), (own_tree_mean inputs s0). split; [apply H1|apply H2].
Qed.

Lemma result_fresh : forall s0 inputs, wf_store s0 -> inputs <> [] ->
  (exists a, fst (own_tree_sum inputs s0) = Some a /\ (next_loc s0 <= a)%nat /\
             ~ In a (deleted (snd (own_tree_sum inputs s0)))) /\
  (exists a, fst (own_tree_mean inputs s0) = Some a /\ (next_loc s0 <= a)%nat /\
             ~ In a (deleted (snd (own_tree_mean inputs s0)))).
Proof.
  intros s0 inputs W Hne. pose proof (own_tree_sum_ok s0 inputs W) as H1. pose proof (own_tree_mean_ok s0 inputs W) as H2.
  unfold call_ok in *. destruct (own_tree_sum inputs s0), (own_tree_mean inputs s0).
  split; [apply H1|apply H2]; exact Hne.
Qed.

(* ---- Wave 4: the remaining helpers, and propagation of non-finite coordinates ---- *)
Lemma tree_weight_is_scale p w :
  tree_weight (vlift p) (Some w) = vlift (rscale w p) /\ rscale w p =v= vscale w p.
Proof. split; [apply tree_weight_lift|apply rscale_vscale]. Qed.

Lemma tree_add_is_vadd a b : tree_add (vlift a) (vlift b) = vlift (vadd a b).
Proof. apply tree_add_lift. Qed.

Lemma tree_zeros_like_lift x : tree_zeros_like (vlift x) = vlift (vzero (length x)).
Proof. unfold tree_zeros_like, vlift, vzero. rewrite map_map. induction x as [|a x IH]; cbn; [reflexivity|]. rewrite IH. reflexivity. Qed.

(* coordinate i of a tree *)
Definition coord (i : nat) (t : list NanQ.t) : NanQ.t := nth i t (Some 0).

Lemma coord_tree_add i a b : (i < length a)%nat -> (i < length b)%nat ->
  coord i (tree_add a b) = NanQ.add (coord i a) (coord i b).
Proof. intros Ha Hb. unfold coord, tree_add. apply map2_nth; assumption. Qed.

Lemma coord_tree_weight i p w : (i < length p)%nat -> coord i (tree_weight p w) = NanQ.mul (coord i p) w.
Proof.
  intros H. unfold coord, tree_weight.
  rewrite (nth_indep _ (Some 0) (NanQ.mul (Some 0) w)) by (rewrite map_length; exact H).
  apply (map_nth (fun l => NanQ.mul l w)).
Qed.

Lemma tree_add_length a b n : length a = n -> length b = n -> length (tree_add a b) = n.
Proof. unfold tree_add. apply map2_length_eq. Qed.
Lemma tree_weight_length p w : length (tree_weight p w) = length p.
Proof. apply map_length. Qed.

Lemma add_None_absorbs a b : a = None \/ b = None -> NanQ.add a b = None.
Proof. intros [-> | ->]; [reflexivity|destruct a; reflexivity]. Qed.

(* tree_sum: once the accumulator is None at i it stays None, and a None input makes it None *)
Lemma sum_fold_nonfinite n i (Hi : (i < n)%nat) trees : forall acc,
  length acc = n -> Forall (fun t => length t = n) trees ->
  (coord i acc = None \/ Exists (fun t => coord i t = None) trees) ->
  exists v, fold_left tree_sum_step trees (Some acc) = Some v /\ length v = n /\ coord i v = None.
Proof.
  induction trees as [|t trees IH]; intros acc La Hl H; cbn [fold_left].
  - destruct H as [H|H]; [eauto|inversion H].
  - pose proof (Forall_inv Hl) as Lt. pose proof (Forall_inv_tail Hl) as Hl'. cbn beta in Lt.
    unfold tree_sum_step at 2. unfold tree_add_eq.
    apply IH; [apply tree_add_length; assumption|exact Hl'|].
    destruct H as [H|H].
    + left. rewrite coord_tree_add by lia. apply add_None_absorbs. left; exact H.
    + inversion H as [? ? H0|? ? H0]; subst.
      * left. rewrite coord_tree_add by lia. apply add_None_absorbs. right; exact H0.
      * right. exact H0.
Qed.

Lemma sum_nonfinite_propagates n i trees : (i < n)%nat -> Forall (fun t => length t = n) trees ->
  Exists (fun t => coord i t = None) trees ->
  exists v, tree_sum trees = Some v /\ length v = n /\ coord i v = None.
Proof.
  intros Hi Hl H. destruct trees as [|t trees]; [inversion H|].
  unfold tree_sum, tree_sum_init. cbn [fold_left]. unfold tree_sum_step at 2, copy_tree.
  apply (sum_fold_nonfinite n i Hi); [exact (Forall_inv Hl)|exact (Forall_inv_tail Hl)|].
  inversion H; subst; [left|right]; assumption.
Qed.

Lemma mul_None_absorbs a w : a = None -> NanQ.mul a w = None.
Proof. intros ->. reflexivity. Qed.

Lemma mean_fold_nonfinite n i (Hi : (i < n)%nat) cl : forall acc sw,
  length acc = n -> Forall (fun c => length (fst c) = n) cl ->
  (coord i acc = None \/ Exists (fun c => coord i (fst c) = None) cl) ->
  exists v sw', fold_left tree_mean_step cl (Some acc, sw) = (Some v, sw') /\ length v = n /\ coord i v = None.
Proof.
  induction cl as [|c cl IH]; intros acc sw La Hl H; cbn [fold_left].
  - destruct H as [H|H]; [eauto|inversion H].
  - pose proof (Forall_inv Hl) as Lc. pose proof (Forall_inv_tail Hl) as Hl'. cbn beta in Lc.
    destruct c as [p w]. cbn [fst] in *. unfold tree_mean_step at 2. unfold tree_add_eq.
    apply IH; [apply tree_add_length; [assumption|rewrite tree_weight_length; assumption]|exact Hl'|].
    destruct H as [H|H].
    + left. rewrite coord_tree_add by (rewrite ?tree_weight_length; lia). apply add_None_absorbs. left; exact H.
    + inversion H as [? ? H0|? ? H0]; subst.
      * left. rewrite coord_tree_add by (rewrite ?tree_weight_length; lia). apply add_None_absorbs. right.
        rewrite coord_tree_weight by lia. apply mul_None_absorbs. exact H0.
      * right. exact H0.
Qed.

(* a non-finite coordinate of any client (whatever its weight) makes that coordinate of the mean non-finite *)
Lemma mean_nonfinite_propagates n i cl : (i < n)%nat -> Forall (fun c => length (fst c) = n) cl ->
  Exists (fun c => coord i (fst c) = None) cl ->
  exists v, tree_mean cl = Some v /\ length v = n /\ coord i v = None.
Proof.
  intros Hi Hl H. destruct cl as [|[p w] cl]; [inversion H|].
  unfold tree_mean, tree_mean_init. cbn [fold_left]. unfold tree_mean_step at 2.
  pose proof (Forall_inv Hl) as Lp. cbn [fst] in Lp.
  destruct (mean_fold_nonfinite n i Hi cl (tree_weight p w) (NanQ.add (NanQ.of_Q (0 # 1)) w)) as [v [sw' [E [Lv Cv]]]].
  - rewrite tree_weight_length. exact Lp.
  - exact (Forall_inv_tail Hl).
  - inversion H as [? ? H0|? ? H0]; subst; [left|right; exact H0].
    cbn [fst] in H0. rewrite coord_tree_weight by lia. apply mul_None_absorbs. exact H0.
  - rewrite E. cbn [option_map]. eexists; split; [reflexivity|].
    unfold tree_inverse_weight_eq, tree_weight_eq. split; [rewrite tree_weight_length; exact Lv|].
    rewrite coord_tree_weight by lia. apply mul_None_absorbs. exact Cv.
Qed.

Lemma nonfinite_propagates :
  (forall n i trees, (i < n)%nat -> Forall (fun t => length t = n) trees ->
     Exists (fun t => coord i t = None) trees ->
     exists v, tree_sum trees = Some v /\ length v = n /\ coord i v = None) /\
  (forall n i cl, (i < n)%nat -> Forall (fun c => length (fst c) = n) cl ->
     Exists (fun c => coord i (fst c) = None) cl ->
     exists v, tree_mean cl = Some v /\ length v = n /\ coord i v = None).
Proof. split; [exact sum_nonfinite_propagates|exact mean_nonfinite_propagates]. Qed.
