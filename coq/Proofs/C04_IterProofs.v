(* C04, wave 2: the TRANSLATED generator ShuffleRepeatBatchView.__iter__
   (gen/Gen_client_datasets_shuffle.v: `srb_iter`, its main loop `srb_iter_loop1` and the
   inner refill loop `srb_iter_loop2`, regenerated from fedjax/core/client_datasets.py on
   every check) computes exactly the hand-written mirror `batches` / `run` / `fill` of
   Model/C04_Model.v that the correspondence evaluates and the C04 theorems are about.

   State correspondence of the inner loop: the numpy array `indices` is `acc ++ zs` where
   `acc` are the `filled` indices drawn so far (the mirror's accumulator) and `zs` the
   not yet overwritten rest of np.zeros; (buf, i) are the mirror's (buf, pos); the rng
   state is the number of rng.shuffle calls made so far (= the mirror's nsh when
   shuffling is enabled; with skip_shuffle the mirror's identity oracle ignores it). *)
From Coq Require Import ZArith List Bool Arith Lia Sumbool.
From FV Require Import Common.ListX Common.PySem Common.NpArr gen.Gen_client_datasets_shuffle Model.C04_Model.
Import ListNotations.

Lemma np_set_slice_app' {A} (acc zs v : list A) a b : a = Z.of_nat (length acc) ->
  b = (a + Z.of_nat (length v))%Z -> length v <= length zs ->
  np_set_slice (acc ++ zs) a b v = Some ((acc ++ v) ++ skipn (length v) zs).
Proof. intros -> -> H. apply np_set_slice_app. exact H. Qed.

Section IterEq.
Variable shuf : nat -> list nat -> list nat.
Variable N : nat.
Hypothesis shuf_len : forall k b, length (shuf k b) = length b.   (* shuffle is in place: same length *)
Variable skip : bool.

(* the oracle the mirror sees: skip_shuffle never calls rng.shuffle *)
Definition eff_shuf (k : nat) (b : list nat) : list nat := if skip then b else shuf k b.

Notation st := C04_Model.st.
Notation fill := (C04_Model.fill eff_shuf N).
Notation run := (C04_Model.run eff_shuf N).

Definition wfs (s : st) := length (buf s) = N /\ pos s <= N.

Definition inner_ok (res : option (list nat * nat * Z * list nat * Z)) (m : st * list nat) (desired : Z) : Prop :=
  exists rng', res = Some (buf (fst m), rng', Z.of_nat (pos (fst m)), snd m, desired)
    /\ (skip = false -> rng' = nsh (fst m)) /\ wfs (fst m).

Section NonEmpty.
Hypothesis Npos : 1 <= N.

(* the inner `while filled < desired_size` loop = fill *)
Lemma gen_fill_eq : forall fuel need (s : st) acc zs rng bufsz iz desired filled,
  need < fuel -> wfs s -> length zs = need -> (skip = false -> rng = nsh s) ->
  bufsz = Z.of_nat N -> iz = Z.of_nat (pos s) ->
  desired = Z.of_nat (length acc + need) -> filled = Z.of_nat (length acc) ->
  inner_ok (srb_iter_loop2 shuf fuel skip (buf s) bufsz iz rng (acc ++ zs) desired filled)
           (fill fuel need s acc) desired.
Proof.
  induction fuel as [|f IH]; intros need s acc zs rng bufsz iz desired filled Hfuel [Hlen Hpos] Hzs Hrng -> -> -> ->; [lia|].
  cbn [srb_iter_loop2 C04_Model.fill].
  destruct (need =? 0) eqn:E0.
  - apply Nat.eqb_eq in E0. rewrite E0 in *. clear E0. destruct zs; [|discriminate].
    assert ((Z.of_nat (length acc) <? Z.of_nat (length acc + 0))%Z = false) as -> by (apply Z.ltb_ge; lia).
    exists rng. cbn [fst snd]. rewrite app_nil_r, Nat.add_0_r. repeat split; auto.
  - apply Nat.eqb_neq in E0.
    assert ((Z.of_nat (length acc) <? Z.of_nat (length acc + need))%Z = true) as -> by (apply Z.ltb_lt; lia).
    cbv zeta.
    assert (Htail : forall buf1 pos1 nsh1 rng1 avail i1,
      length buf1 = N -> pos1 < N -> (skip = false -> rng1 = nsh1) ->
      avail = Z.of_nat (N - pos1) -> i1 = Z.of_nat pos1 ->
      inner_ok
        (match np_set_slice (acc ++ zs) (Z.of_nat (length acc))
                 (Z.of_nat (length acc) + Z.min avail (Z.of_nat (length acc + need) - Z.of_nat (length acc)))
                 (py_slice buf1 i1 (i1 + Z.min avail (Z.of_nat (length acc + need) - Z.of_nat (length acc)))) with
         | Some indices =>
             srb_iter_loop2 shuf f skip buf1 (Z.of_nat N)
               (i1 + Z.min avail (Z.of_nat (length acc + need) - Z.of_nat (length acc))) rng1 indices
               (Z.of_nat (length acc + need))
               (Z.of_nat (length acc) + Z.min avail (Z.of_nat (length acc + need) - Z.of_nat (length acc)))
         | None => None
         end)
        (fill f (need - Nat.min (N - pos1) need) (mk buf1 (pos1 + Nat.min (N - pos1) need) nsh1)
              (acc ++ firstn (Nat.min (N - pos1) need) (skipn pos1 buf1)))
        (Z.of_nat (length acc + need))).
    { intros buf1 pos1 nsh1 rng1 avail i1 Hl1 Hp1 Hr1 -> ->.
      set (used := Nat.min (N - pos1) need).
      assert (Hu : 0 < used <= need /\ used <= N - pos1) by (unfold used; lia).
      replace (Z.min (Z.of_nat (N - pos1)) (Z.of_nat (length acc + need) - Z.of_nat (length acc)))%Z
        with (Z.of_nat used) by (unfold used; lia).
      assert (Hsl : py_slice buf1 (Z.of_nat pos1) (Z.of_nat pos1 + Z.of_nat used) = firstn used (skipn pos1 buf1)).
      { unfold py_slice. rewrite Nat2Z.id. f_equal. lia. }
      rewrite Hsl. set (v := firstn used (skipn pos1 buf1)).
      assert (Hv : length v = used) by (unfold v; rewrite firstn_length, skipn_length; lia).
      rewrite (np_set_slice_app' acc zs v) by (rewrite ?Hv; lia).
      rewrite Hv.
      apply (IH (need - used) (mk buf1 (pos1 + used) nsh1) (acc ++ v) (skipn used zs) rng1).
      - lia.
      - split; cbn [buf pos]; lia.
      - rewrite skipn_length. lia.
      - exact Hr1.
      - reflexivity.
      - cbn [pos]. lia.
      - rewrite app_length, Hv. lia.
      - rewrite app_length, Hv. lia. }
    destruct (N - pos s =? 0) eqn:Ea.
    + apply Nat.eqb_eq in Ea.
      assert ((Z.of_nat N - Z.of_nat (pos s) =? 0)%Z = true) as -> by (apply Z.eqb_eq; lia).
      destruct (Sumbool.sumbool_of_bool skip) as [Es|Es].
      * replace (negb skip) with false by (now rewrite Es).
        assert (Hb : eff_shuf (nsh s) (buf s) = buf s) by (unfold eff_shuf; now rewrite Es). rewrite Hb.
        apply (Htail (buf s) 0 (S (nsh s)) rng (Z.of_nat N) 0%Z); try lia. intros; congruence.
      * replace (negb skip) with true by (now rewrite Es).
        assert (Hb : eff_shuf (nsh s) (buf s) = shuf (nsh s) (buf s)) by (unfold eff_shuf; now rewrite Es). rewrite Hb.
        rewrite (Hrng Es).
        apply (Htail (shuf (nsh s) (buf s)) 0 (S (nsh s)) (S (nsh s)) (Z.of_nat N) 0%Z);
          try lia; try reflexivity; now rewrite shuf_len.
    + apply Nat.eqb_neq in Ea.
      assert ((Z.of_nat N - Z.of_nat (pos s) =? 0)%Z = false) as -> by (apply Z.eqb_neq; lia).
      apply (Htail (buf s) (pos s) (nsh s) rng (Z.of_nat N - Z.of_nat (pos s))%Z (Z.of_nat (pos s))); try lia; auto.
Qed.

(* the main `while desired_num_steps is None or num_steps < desired_num_steps` loop = run:
   a generator that is asked for `fuel` batches at most *)
Lemma gen_run_eq : forall fuel bs (s : st) out rng num_steps desired, wfs s -> (skip = false -> rng = nsh s) ->
  srb_iter_loop1 shuf (S bs) fuel (Z.of_nat bs) skip out (buf s) (Z.of_nat N) (Z.of_nat (pos s)) num_steps desired rng
  = match desired with
    | None => GMore (out ++ run fuel bs s)
    | Some d => if Z.to_nat (d - num_steps) <? fuel then GDone (out ++ run (Z.to_nat (d - num_steps)) bs s)
                else GMore (out ++ run fuel bs s)
    end.
Proof.
  induction fuel as [|f IH]; intros bs s out rng num_steps desired Hwf Hrng.
  - cbn [srb_iter_loop1 C04_Model.run]. rewrite app_nil_r. destruct desired; reflexivity.
  - cbn [srb_iter_loop1].
    cbv zeta. unfold np_zeros. rewrite Nat2Z.id, repeat_length.
    destruct (gen_fill_eq (S bs) bs s [] (repeat 0 bs) rng (Z.of_nat N) (Z.of_nat (pos s)) (Z.of_nat bs) 0%Z)
      as (rng' & Hres & Hr' & Hwf'); try reflexivity; try assumption; try lia; [apply repeat_length|].
    cbn [app] in Hres.
    cbn [C04_Model.run].
    destruct (fill (S bs) bs s []) as [s' b] eqn:Ef. cbn [fst snd] in *.
    destruct desired as [d|].
    + destruct (num_steps <? d)%Z eqn:Eg.
      * apply Z.ltb_lt in Eg. rewrite Hres. rewrite (IH bs s' (out ++ [b]) rng' (num_steps + 1)%Z (Some d) Hwf' Hr').
        replace (Z.to_nat (d - num_steps)) with (S (Z.to_nat (d - (num_steps + 1)))) by lia.
        change (S (Z.to_nat (d - (num_steps + 1))) <? S f) with (Z.to_nat (d - (num_steps + 1)) <? f).
        cbn [C04_Model.run]. rewrite Ef.
        destruct (Z.to_nat (d - (num_steps + 1)) <? f); rewrite <- app_assoc; reflexivity.
      * apply Z.ltb_ge in Eg. replace (Z.to_nat (d - num_steps)) with 0 by lia.
        cbn [Nat.ltb Nat.leb C04_Model.run]. now rewrite app_nil_r.
    + rewrite Hres. rewrite (IH bs s' (out ++ [b]) rng' (num_steps + 1)%Z None Hwf' Hr').
      rewrite <- app_assoc. reflexivity.
Qed.
End NonEmpty.

Lemma init_wfs : wfs (C04_Model.init N).
Proof. split; cbn; [apply seq_length|lia]. Qed.

(* the whole generator, for every N (N = 0: the early return) *)
Lemma srb_iter_eq fuel bs desired :
  srb_iter shuf fuel (S bs) (Z.of_nat N) (Z.of_nat bs) desired skip
  = if N =? 0 then GDone []
    else match desired with
         | None => GMore (batches eff_shuf N fuel bs)
         | Some d => if Z.to_nat d <? fuel then GDone (batches eff_shuf N (Z.to_nat d) bs)
                     else GMore (batches eff_shuf N fuel bs)
         end.
Proof.
  unfold srb_iter, batches. cbv zeta. unfold np_arange. rewrite Nat2Z.id, seq_length.
  destruct (N =? 0) eqn:E0.
  - apply Nat.eqb_eq in E0. subst N. reflexivity.
  - apply Nat.eqb_neq in E0.
    assert ((Z.of_nat N =? 0)%Z = false) as -> by (apply Z.eqb_neq; lia).
    pose proof (gen_run_eq ltac:(lia) fuel bs (C04_Model.init N) [] 0 0%Z desired init_wfs (fun _ => eq_refl)) as H.
    cbn [C04_Model.init buf pos nsh] in H. rewrite H. cbn [app].
    destruct desired as [d|]; [|reflexivity]. now rewrite Z.sub_0_r.
Qed.

End IterEq.

(* the four instances the correspondence evaluates: finite count (fuel steps+1: the
   generator returns) / unbounded stream observed on a prefix (the consumer stops after
   `steps` batches), shuffling enabled (oracle shuf) / disabled (identity oracle) *)
Lemma srb_iter_is_batches shuf N (shuf_len : forall k b, length (shuf k b) = length b) steps bs :
  srb_iter shuf (S steps) (S bs) (Z.of_nat N) (Z.of_nat bs) (Some (Z.of_nat steps)) false = GDone (batches shuf N steps bs) /\
  srb_iter shuf (S steps) (S bs) (Z.of_nat N) (Z.of_nat bs) (Some (Z.of_nat steps)) true
    = GDone (batches (fun _ b => b) N steps bs) /\
  (1 <= N -> srb_iter shuf steps (S bs) (Z.of_nat N) (Z.of_nat bs) None false = GMore (batches shuf N steps bs)) /\
  (1 <= N -> srb_iter shuf steps (S bs) (Z.of_nat N) (Z.of_nat bs) None true = GMore (batches (fun _ b => b) N steps bs)).
Proof.
  assert (Hb0 : forall sh st, batches sh 0 st bs = []) by reflexivity.
  repeat split; intros; rewrite (srb_iter_eq shuf N shuf_len); rewrite ?Nat2Z.id;
    try (assert (steps <? S steps = true) as -> by (apply Nat.ltb_lt; lia));
    (destruct (N =? 0) eqn:E0; [apply Nat.eqb_eq in E0; subst N; try lia; now rewrite Hb0|reflexivity]).
Qed.

(* ------------------------------------------------------------------ *)
(* Wave 4: the oracle is consulted exactly once per window STARTED (theorem counterpart of
   the harness key `reshuffle-count`).  Conservation law of the refill loop: the number of
   reshuffles times N plus the cursor grows by exactly the number of indices drawn. *)
Section ShuffleCount.
Variable shuf : nat -> list nat -> list nat.
Variable N : nat.
Hypothesis Npos : 1 <= N.

Lemma fill_count : forall fuel need (s : C04_Model.st) acc, need < fuel -> pos s <= N -> 1 <= pos s ->
  let s' := fst (C04_Model.fill shuf N fuel need s acc) in
  nsh s' * N + pos s' = nsh s * N + pos s + need /\ pos s' <= N /\ 1 <= pos s'.
Proof.
  induction fuel as [|f IH]; intros need s acc Hfuel Hpos Hpos1; [lia|].
  cbn [C04_Model.fill]. destruct (need =? 0) eqn:E0.
  - apply Nat.eqb_eq in E0. cbn [fst]. lia.
  - apply Nat.eqb_neq in E0.
    set (s1 := if N - pos s =? 0 then mk (shuf (nsh s) (buf s)) 0 (S (nsh s)) else s).
    assert (H1 : nsh s1 * N + pos s1 = nsh s * N + pos s /\ pos s1 < N).
    { unfold s1. destruct (N - pos s =? 0) eqn:Ea.
      - apply Nat.eqb_eq in Ea. cbn [nsh pos]. split; [nia|lia].
      - apply Nat.eqb_neq in Ea. split; [reflexivity|lia]. }
    destruct H1 as [Hc Hlt]. cbv zeta.
    set (used := Nat.min (N - pos s1) need).
    assert (Hu : 1 <= used <= need /\ used <= N - pos s1) by (unfold used; lia).
    specialize (IH (need - used) (mk (buf s1) (pos s1 + used) (nsh s1))
                   (acc ++ firstn used (skipn (pos s1) (buf s1)))).
    cbv zeta in IH. cbn [pos nsh] in IH. destruct IH as (Hc' & Hle & Hge); try lia.
Qed.

(* the state after `steps` batches *)
Fixpoint final_state (steps bs : nat) (s : C04_Model.st) : C04_Model.st :=
  match steps with
  | O => s
  | S k => final_state k bs (fst (C04_Model.fill shuf N (S bs) bs s []))
  end.

Lemma final_state_count : forall steps bs s, pos s <= N -> 1 <= pos s ->
  nsh (final_state steps bs s) * N + pos (final_state steps bs s) = nsh s * N + pos s + steps * bs /\
  1 <= pos (final_state steps bs s) <= N.
Proof.
  induction steps as [|k IH]; intros bs s Hle Hge; cbn [final_state]; [lia|].
  destruct (fill_count (S bs) bs s [] ltac:(lia) Hle Hge) as (Hc & Hle' & Hge').
  destruct (IH bs _ Hle' Hge') as (Hc2 & Hb). split; [|exact Hb]. rewrite Hc2, Hc. cbn. lia.
Qed.

(* after steps*bs draws from the initial state exactly ceil(steps*bs / N) reshuffles were made *)
Lemma reshuffles_are_windows_started steps bs :
  let k := nsh (final_state steps bs (C04_Model.init N)) in
  steps * bs <= k * N < steps * bs + N.
Proof.
  destruct (final_state_count steps bs (C04_Model.init N)) as (Hc & Hb); cbn [C04_Model.init pos nsh] in *; try lia.
Qed.

(* `run` produces its batches along exactly these states *)
Lemma run_S steps bs s :
  C04_Model.run shuf N (S steps) bs s
  = let (s', b) := C04_Model.fill shuf N (S bs) bs s [] in b :: C04_Model.run shuf N steps bs s'.
Proof. reflexivity. Qed.

Lemma run_along_final_state : forall steps bs s,
  C04_Model.run shuf N (S steps) bs s
  = C04_Model.run shuf N steps bs s ++ [snd (C04_Model.fill shuf N (S bs) bs (final_state steps bs s) [])].
Proof.
  induction steps as [|k IH]; intros bs s.
  - rewrite run_S. cbn [C04_Model.run final_state app]. destruct (C04_Model.fill shuf N (S bs) bs s []); reflexivity.
  - rewrite (run_S (S k)). rewrite (run_S k bs s). cbn [final_state].
    destruct (C04_Model.fill shuf N (S bs) bs s []) as [s' b]. cbn [fst]. rewrite IH. reflexivity.
Qed.
End ShuffleCount.

(* documented defaults of ShuffleRepeatBatchHParams (translated from the class body) *)
Lemma hparams_defaults_c04 :
  hp_shuffle_num_epochs_default = Some 1%Z /\ hp_shuffle_num_steps_default = None /\
  hp_shuffle_drop_remainder_default = false /\ hp_shuffle_seed_default = None /\
  hp_shuffle_skip_shuffle_default = false.
Proof. repeat split. Qed.
