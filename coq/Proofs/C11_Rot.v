(* C11 proofs, part R: the rotated pipelines (rotate, quantise in the rotated space, rotate
   back) of the rotated-uniform and DRIVE aggregators are DEFINED and SIZE-PRESERVING for every
   leaf whose padded size 2^K has K even (sqrt(2^K) rational: the only sizes the Q model can
   evaluate) and K <= 56; hence these aggregators return the weighted mean of the per-client
   pipeline outputs.  Only list structure is used (no ring laws): the operations may be any
   functions, in particular the Qred-normalising ones of the model. *)
From Coq Require Import ZArith QArith Qcanon Qabs List Bool Lia.
From FV Require Import Common.ListX Common.CMonoid Common.NanQ Common.NanVec Common.RingVec Common.QVec Common.WMean
  gen.Gen_tree_util gen.Gen_walsh_hadamard Model.C07_Model Proofs.C07_Proofs Model.C18_Model Proofs.C18_Proofs
  Model.C11_Model Proofs.C11_Quant Proofs.C11_Agg.
Import ListNotations.

Section Structural.
Context {R : Type} (rO : R) (radd rsub : R -> R -> R) (ropp : R -> R).
Notation vadd := (RingVec.vadd radd). Notation vsub := (RingVec.vsub rsub).
Notation vsign := (RingVec.vsign ropp). Notation vzero := (RingVec.vzero rO).
Notation slincomb := (slincomb rO radd rsub). Notation mixM := (mixM rO radd rsub).
Notation kron_apply := (kron_apply rO radd rsub). Notation wht_impl := (wht_impl rO radd rsub).

Lemma vadd_len (a b : list R) : length (vadd a b) = Nat.min (length a) (length b).
Proof. unfold RingVec.vadd. rewrite map_length, combine_length. reflexivity. Qed.
Lemma vsub_len (a b : list R) : length (vsub a b) = Nat.min (length a) (length b).
Proof. unfold RingVec.vsub. rewrite map_length, combine_length. reflexivity. Qed.
Lemma vsign_len s (x : list R) : length (vsign s x) = Nat.min (length s) (length x).
Proof. unfold RingVec.vsign. rewrite map_length, combine_length. reflexivity. Qed.

Lemma slincomb_len n : forall row cs, Forall (fun c : list R => length c = n) cs -> length (slincomb n row cs) = n.
Proof.
  induction row as [|b row IH]; intros cs Hf; [apply repeat_length|].
  destruct cs as [|c cs]; [apply repeat_length|]. inversion Hf; subst.
  change (slincomb (length c) (b :: row) (c :: cs))
    with (if b then vsub (slincomb (length c) row cs) c else vadd (slincomb (length c) row cs) c).
  destruct b; rewrite ?vsub_len, ?vadd_len, IH by assumption; lia.
Qed.

Lemma kron_apply_len : forall es (x : list R), length x = (2 ^ sumn es)%nat -> length (kron_apply es x) = (2 ^ sumn es)%nat.
Proof.
  induction es as [|e es IH]; intros x Hx; [exact Hx|].
  cbn [C18_Model.kron_apply]. cbn [sumn] in *. rewrite Nat.pow_add_r in Hx.
  destruct (cchunks_shaped _ _ _ Hx) as [Hl Hf].
  rewrite (length_concat_const _ (2 ^ sumn es)).
  - unfold C18_Model.mixM. rewrite map_length. rewrite (proj1 (Hsign_shape e)). symmetry. apply Nat.pow_add_r.
  - unfold C18_Model.mixM. apply Forall_map. apply Forall_forall. intros row _. apply slincomb_len.
    apply Forall_map. eapply Forall_impl; [|exact Hf]. intros c Hc. apply IH, Hc.
Qed.

Local Open Scope Z_scope.
Lemma wht_impl_defined (k : nat) (j : Z) (x : list R) : 1 <= j -> length x = (2 ^ k)%nat -> Z.of_nat k <= 8 * j ->
  exists y, wht_impl (2 ^ j) x = WOk y /\ length y = (2 ^ k)%nat.
Proof.
  intros Hj Hx Hk. unfold C18_Model.wht_impl.
  assert (Hn : Z.of_nat (length x) = 2 ^ Z.of_nat k) by (rewrite Hx, Nat2Z.inj_pow; reflexivity).
  rewrite Hn. destruct (schedule_spec (Z.of_nat k) j) as (dims & Hs & Hf & Hp & _); [lia|lia|].
  rewrite Hs. assert (E : (Z.of_nat k <=? 8 * j) = true) by (apply Z.leb_le; exact Hk). rewrite E.
  assert (Hall : forallb is_pow2 dims = true).
  { apply forallb_forall. intros d Hd. rewrite Forall_forall in Hf. apply (dim_ok_pow2 j d (Hf d Hd)). }
  rewrite Hall, Hp, Z.eqb_refl. cbn [andb].
  assert (Hsum : sumn (map exp_of dims) = k).
  { apply Nat2Z.inj. apply (Z.pow_inj_r 2); try lia. rewrite <- (prodZ_pow2 j dims Hf). exact Hp. }
  eexists. split; [reflexivity|]. rewrite <- Hsum. apply kron_apply_len. rewrite Hsum. exact Hx.
Qed.

Lemma rot_defined s (x : list R) : (1 <= length x)%nat -> Z.log2_up (Z.of_nat (length x)) <= 56 ->
  exists u, rot rO radd rsub ropp s x = WOk (u, 2 ^ Z.of_nat (rdim (length x))) /\ length u = (2 ^ rdim (length x))%nat.
Proof.
  intros H1 H56. unfold C18_Model.rot. destruct (rdim_spec _ H1) as [Hd Hle]. set (K := rdim (length x)) in *.
  rewrite pad_vec_spec, Hd.
  set (w := x ++ vzero (Z.to_nat (2 ^ Z.of_nat K - Z.of_nat (length x)))).
  assert (Lw : length w = (2 ^ K)%nat).
  { unfold w. rewrite app_length. unfold RingVec.vzero. rewrite repeat_length, Z2Nat.inj_sub, to_nat_pow2, Nat2Z.id by lia. lia. }
  assert (HK : Z.of_nat K <= 56) by (unfold K, rdim; rewrite Z2Nat.id by apply Z.log2_up_nonneg; exact H56).
  destruct (wht_impl_defined K 7 (vsign (s ++ repeat false (length w - length s)) w)) as (u & Hu & Lu); [lia| |lia|].
  { rewrite vsign_len, app_length, repeat_length. lia. }
  change default_small_n with (2 ^ 7). rewrite Hu. exists u. split; [reflexivity|exact Lu].
Qed.

Lemma inv_rot_defined s (y : list R) (size : nat) K : length y = (2 ^ K)%nat -> Z.of_nat K <= 56 -> (size <= 2 ^ K)%nat ->
  exists w, inv_rot rO radd rsub ropp s y [Z.of_nat size] = WOk (w, 2 ^ Z.of_nat K, [Z.of_nat size]) /\ length w = size.
Proof.
  intros Hy HK Hs. unfold C18_Model.inv_rot. change default_small_n with (2 ^ 7).
  destruct (wht_impl_defined K 7 y) as (v & Hv & Lv); [lia|exact Hy|lia|]. rewrite Hv.
  eexists. split.
  - unfold inverse_scale. rewrite Hy, Nat2Z.inj_pow. reflexivity.
  - unfold inverse_take. cbn [prodZ]. rewrite Z.mul_1_r, Nat2Z.id, firstn_length, vsign_len, app_length, repeat_length. lia.
Qed.
End Structural.

Local Open Scope Z_scope.
Lemma qsqrt_exact_even m : qsqrt_exact (2 ^ Z.of_nat (2 * m)) = Some (inject_Z (2 ^ Z.of_nat m)).
Proof.
  unfold qsqrt_exact.
  assert (E : 2 ^ Z.of_nat (2 * m) = 2 ^ Z.of_nat m * 2 ^ Z.of_nat m) by (rewrite <- Z.pow_add_r by lia; f_equal; lia).
  assert (P : 0 < 2 ^ Z.of_nat m) by (apply Z.pow_pos_nonneg; lia).
  rewrite E, Z.sqrt_square by lia. rewrite Z.eqb_refl. cbn [andb].
  assert (B : (0 <? 2 ^ Z.of_nat m * 2 ^ Z.of_nat m) = true) by (apply Z.ltb_lt; nia). rewrite B. reflexivity.
Qed.

(* a leaf the Q model can rotate: non-empty, padded size 2^K with K even and <= 56 *)
Definition rot_leaf_ok (n : nat) : Prop :=
  (1 <= n)%nat /\ Z.log2_up (Z.of_nat n) <= 56 /\ Nat.even (rdim n) = true.

Lemma crot_defined s (x : list Qc) : rot_leaf_ok (length x) -> exists y, crot s x = Some y /\ length y = (2 ^ rdim (length x))%nat.
Proof.
  intros (H1 & H56 & Hev). unfold crot. destruct (rot_defined (Q2Qc 0) Qcplus Qcminus Qcopp s x H1 H56) as (u & Hu & Lu).
  rewrite Hu. apply Nat.even_spec in Hev. destruct Hev as [m Hm]. rewrite Hm, qsqrt_exact_even.
  eexists. split; [reflexivity|]. unfold cscale. rewrite map_length, Lu, Hm. reflexivity.
Qed.

Lemma cinv_defined s (y : list Qc) (size K : nat) : length y = (2 ^ K)%nat -> Z.of_nat K <= 56 -> Nat.even K = true -> (size <= 2 ^ K)%nat ->
  exists w, cinv s y (Z.of_nat size) = Some w /\ length w = size.
Proof.
  intros Hy HK Hev Hs. unfold cinv. destruct (inv_rot_defined (Q2Qc 0) Qcplus Qcminus Qcopp s y size K Hy HK Hs) as (w & Hw & Lw).
  rewrite Hw. apply Nat.even_spec in Hev. destruct Hev as [m Hm]. rewrite Hm, qsqrt_exact_even.
  eexists. split; [reflexivity|]. unfold cscale. rewrite map_length. exact Lw.
Qed.

Lemma qrot_defined s x : rot_leaf_ok (length x) -> exists y, qrot s x = Some y /\ length y = (2 ^ rdim (length x))%nat.
Proof.
  intros Hok. unfold qrot. destruct (crot_defined s (q2c x)) as (y & Hy & Ly); [unfold q2c; rewrite map_length; exact Hok|].
  rewrite Hy. eexists. split; [reflexivity|]. unfold c2q, q2c in *. rewrite map_length in *. exact Ly.
Qed.

Lemma qinv_defined s y (size K : nat) : length y = (2 ^ K)%nat -> Z.of_nat K <= 56 -> Nat.even K = true -> (size <= 2 ^ K)%nat ->
  exists w, qinv s y (Z.of_nat size) = Some w /\ length w = size.
Proof.
  intros Hy HK Hev Hs. unfold qinv. destruct (cinv_defined s (q2c y) size K) as (w & Hw & Lw); try assumption.
  { unfold q2c. rewrite map_length. exact Hy. }
  rewrite Hw. eexists. split; [reflexivity|]. unfold c2q. rewrite map_length. exact Lw.
Qed.

Lemma lower_lift v : lower (lift v) = Some v.
Proof. unfold lower, lift, all_some. induction v as [|a v IH]; [reflexivity|]. cbn [map fold_right]. rewrite IH. reflexivity. Qed.

(* the rotated pipeline with any finite, length-preserving quantiser f *)
Lemma through_rotation_defined f (fq : list Q -> list Q) s xq : rot_leaf_ok (length xq) ->
  (forall y, length y = (2 ^ rdim (length xq))%nat -> f (lift y) = lift (fq y) /\ length (fq y) = length y) ->
  exists w, through_rotation f s (lift xq) = Some (lift w) /\ length w = length xq.
Proof.
  intros Hok Hf. unfold through_rotation. rewrite lower_lift.
  destruct (qrot_defined s xq Hok) as (y & Hy & Ly). rewrite Hy.
  destruct (Hf y Ly) as [Ef Lf]. rewrite Ef, lower_lift.
  destruct Hok as (H1 & H56 & Hev). destruct (rdim_spec _ H1) as [_ Hle].
  destruct (qinv_defined s (fq y) (length xq) (rdim (length xq))) as (w & Hw & Lw); try assumption; try lia.
  { unfold rdim. rewrite Z2Nat.id by apply Z.log2_up_nonneg. exact H56. }
  rewrite Hw. exists w. split; [reflexivity|exact Lw].
Qed.

(* all_some over map2 of a function that is defined on related arguments *)
Lemma all_some_map2_defined {A B C} (P : A -> B -> Prop) (Qr : A -> C -> Prop) (F : A -> B -> option C) :
  (forall a b, P a b -> exists c, F a b = Some c /\ Qr a c) ->
  forall la lb, Forall2 P la lb -> exists lc, all_some (map2 F la lb) = Some lc /\ Forall2 Qr la lc.
Proof.
  intros HF la lb H. induction H as [|a b la lb Hab _ (lc & E & Hq)]; [exists []; split; [reflexivity|constructor]|].
  destruct (HF a b Hab) as (c & Ec & Hc). exists (c :: lc). split; [|constructor; assumption].
  cbn [map2]. change (all_some (F a b :: map2 F la lb))
    with (match F a b, all_some (map2 F la lb) with Some x, Some r => Some (x :: r) | _, _ => None end).
  rewrite Ec, E. reflexivity.
Qed.

Lemma Forall2_lifted {A} (la : list A) (g : A -> list Q -> Prop) (lc : list (list nq)) :
  Forall2 (fun a c => exists w, c = lift w /\ g a w) la lc -> exists lw, lc = map lift lw /\ Forall2 g la lw.
Proof.
  induction 1 as [|a c la lc (w & -> & Hw) _ (lw & -> & Hl)]; [exists []; split; [reflexivity|constructor]|].
  exists (w :: lw). split; [reflexivity|constructor; assumption].
Qed.

Lemma concat_length_Forall2 (t t' : list (list Q)) : Forall2 (fun l l' => length l' = length l) t t' ->
  length (concat t') = length (concat t).
Proof. induction 1 as [|l l' t t' H _ IH]; [reflexivity|]. cbn [concat]. rewrite !app_length, H, IH. reflexivity. Qed.

Lemma lift_inj (a b : list Q) : lift a = lift b -> a = b.
Proof.
  intros E. unfold lift in E. apply (f_equal (map (fun o => match o with Some q => q | None => 0%Q end))) in E.
  rewrite !map_map in E. cbn beta iota in E. rewrite !map_id in E. exact E.
Qed.
Lemma map_lift_inj : forall (a b : list (list Q)), map lift a = map lift b -> a = b.
Proof.
  induction a as [|x a IH]; intros [|y b] E; cbn in E; try discriminate; [reflexivity|].
  injection E as Ex Ea. f_equal; [apply lift_inj, Ex|apply IH, Ea].
Qed.

(* ---- DRIVE: tree, client, aggregator ---- *)
Lemma drive_q_length y : length (drive_q y) = length y.
Proof. unfold drive_q. apply map_length. Qed.

Lemma drive_tree_defined (t : list (list Q)) (signs : list (list bool)) :
  Forall2 (fun leaf _ => rot_leaf_ok (length leaf)) t signs ->
  exists t', drive_tree signs (map lift t) = Some (map lift t') /\ Forall2 (fun l l' => length l' = length l) t t'.
Proof.
  intros H. unfold drive_tree.
  assert (H' : Forall2 (fun (leaf : list nq) (s : list bool) => exists xq, leaf = lift xq /\ rot_leaf_ok (length xq)) (map lift t) signs).
  { clear -H. induction H; cbn [map]; [constructor|]. constructor; [eexists; split; [reflexivity|assumption]|assumption]. }
  destruct (all_some_map2_defined (fun (leaf : list nq) (_ : list bool) => exists xq, leaf = lift xq /\ rot_leaf_ok (length xq))
              (fun (leaf : list nq) (c : list nq) => exists w, c = lift w /\ forall xq, leaf = lift xq -> length w = length xq)
              (fun leaf s => through_rotation drive_leaf s leaf)) with (la := map lift t) (lb := signs) as (lc & E & Hq); [|exact H'|].
  { intros leaf s (xq & -> & Hok).
    destruct (through_rotation_defined drive_leaf drive_q s xq Hok) as (w & Hw & Lw).
    - intros y _. split; [apply drive_lift|apply drive_q_length].
    - exists (lift w). split; [exact Hw|]. exists w. split; [reflexivity|]. intros xq' Hx.
      assert (xq' = xq).
      { unfold lift in Hx. apply (f_equal (map (fun o => match o with Some q => q | None => 0%Q end))) in Hx.
        rewrite !map_map in Hx. cbn beta iota in Hx. rewrite !map_id in Hx. symmetry. exact Hx. }
      subst. exact Lw. }
  rewrite E.
  assert (G : Forall2 (fun (l : list Q) (c : list nq) => exists w, c = lift w /\ length w = length l) t lc).
  { clear -Hq. remember (map lift t) as lt eqn:Et. revert t Et. induction Hq as [|a c la lc (w & -> & Hw) _ IH]; intros [|l t] Et; try discriminate; [constructor|].
    cbn [map] in Et. injection Et as -> ->. constructor; [exists w; split; [reflexivity|apply Hw; reflexivity]|apply IH; reflexivity]. }
  destruct (Forall2_lifted t (fun l w => length w = length l) lc G) as (lw & -> & Hl).
  exists lw. split; [reflexivity|exact Hl].
Qed.

Definition sizes_ok (n : nat) (cl : list (qtree * Q)) : Prop := Forall (fun c => length (concat (fst c)) = n) cl.

(* generic: an aggregator that maps every client tree through a per-client pipeline T which is defined and
   size-preserving on finite trees returns the weighted mean of the pipeline outputs *)
Lemma pipeline_agg_is_wmean {X} n (cl : list (qtree * Q)) (xs : list X) (T : tree -> X -> option tree) (ok : qtree -> X -> Prop) :
  (forall t x, ok t x -> exists t', T (map lift t) x = Some (map lift t') /\ Forall2 (fun l l' => length l' = length l) t t') ->
  cl <> [] -> sizes_ok n cl -> Forall2 (fun c x => ok (fst c) x) cl xs ->
  exists (qcl : list (qtree * Q)) v,
    match all_some (map2 (fun c x => option_map (fun t => (t, snd c)) (T (fst c) x)) (lift_clients cl) xs) with
    | Some q => aggregate q | None => None end = Some (vlift v) /\
    v =v= wmean_batch n (map (fun c => (snd c, concat (fst c))) qcl) /\
    Forall2 (fun c q => snd q = snd c /\ Forall2 (fun l l' => length l' = length l) (fst c) (fst q)) cl qcl.
Proof.
  intros HT Hne Hn H.
  assert (H' : Forall2 (fun (c : tree * nq) x => exists cq : qtree * Q, c = (map lift (fst cq), Some (snd cq)) /\ ok (fst cq) x)
                 (lift_clients cl) xs).
  { clear -H. unfold lift_clients. induction H; cbn [map]; [constructor|]. constructor; [eexists; split; [reflexivity|assumption]|assumption]. }
  destruct (all_some_map2_defined (fun (c : tree * nq) x => exists cq : qtree * Q, c = (map lift (fst cq), Some (snd cq)) /\ ok (fst cq) x)
              (fun (c : tree * nq) (z : tree * nq) => exists q : qtree * Q, z = (map lift (fst q), Some (snd q)) /\
                 forall cq : qtree * Q, c = (map lift (fst cq), Some (snd cq)) -> snd q = snd cq /\ Forall2 (fun l l' => length l' = length l) (fst cq) (fst q))
              (fun c x => option_map (fun t => (t, snd c)) (T (fst c) x))) with (la := lift_clients cl) (lb := xs) as (lc & E & Hq); [|exact H'|].
  { intros c x (cq & -> & Hok). cbn [fst snd]. destruct (HT (fst cq) x Hok) as (t' & Et & Ht).
    rewrite Et. cbn [option_map]. eexists. split; [reflexivity|]. exists (t', snd cq). split; [reflexivity|].
    intros cq' Hc. injection Hc as Ht' Hw.
    assert (H0 : fst cq' = fst cq) by (apply map_lift_inj; symmetry; exact Ht').
    cbn [fst snd]. split; [congruence|]. rewrite H0. exact Ht. }
  rewrite E.
  assert (G : exists qcl, lc = lift_clients qcl /\
               Forall2 (fun c q => snd q = snd c /\ Forall2 (fun l l' => length l' = length l) (fst c) (fst q)) cl qcl).
  { clear -Hq. unfold lift_clients in *. remember (map (fun c : list (list Q) * Q => (map lift (fst c), Some (snd c))) cl) as lcl eqn:Ec.
    revert cl Ec. induction Hq as [|a z la lz (q & -> & Hz) _ IH]; intros [|c cl] Ec; try discriminate; [exists []; split; [reflexivity|constructor]|].
    cbn [map] in Ec. injection Ec as -> ->. destruct (IH cl eq_refl) as (qcl & -> & Hf).
    exists (q :: qcl). split; [reflexivity|]. constructor; [apply Hz; reflexivity|exact Hf]. }
  destruct G as (qcl & -> & Hf).
  destruct (aggregate_finite_is_wmean qcl n) as (v & Hv & Ev).
  - destruct Hf; [congruence|discriminate].
  - unfold sizes_ok in Hn. clear -Hn Hf. induction Hf as [|c q cl qcl [_ Hl] _ IH]; [constructor|].
    constructor; [rewrite (concat_length_Forall2 _ _ Hl); exact (Forall_inv Hn)|apply IH; exact (Forall_inv_tail Hn)].
  - exists qcl, v. split; [exact Hv|]. split; [exact Ev|exact Hf].
Qed.

(* DRIVE aggregator: per client, one sign vector per leaf *)
Theorem drive_agg_is_wmean n (cl : list (qtree * Q)) (signs : list (list (list bool))) :
  cl <> [] -> sizes_ok n cl ->
  Forall2 (fun c sg => Forall2 (fun leaf (_ : list bool) => rot_leaf_ok (length leaf)) (fst c) sg) cl signs ->
  exists (qcl : list (qtree * Q)) v,
    drive_agg signs (lift_clients cl) = Some (vlift v) /\
    v =v= wmean_batch n (map (fun c => (snd c, concat (fst c))) qcl) /\
    Forall2 (fun c q => snd q = snd c /\ Forall2 (fun l l' => length l' = length l) (fst c) (fst q)) cl qcl.
Proof.
  intros Hne Hn H. unfold drive_agg.
  apply (pipeline_agg_is_wmean n cl signs (fun t s => drive_tree s t)
           (fun t sg => Forall2 (fun leaf (_ : list bool) => rot_leaf_ok (length leaf)) t sg)); try assumption.
  intros t sg Hok. apply drive_tree_defined, Hok.
Qed.

(* ---- rotated uniform quantizer: signs per leaf (shared by the clients of a round), draws per client and leaf ---- *)
Definition rusq_leaf_ok (leaf : list Q) (u : list Q) : Prop :=
  rot_leaf_ok (length leaf) /\ length u = (2 ^ rdim (length leaf))%nat.

Lemma rusq_tree_defined L (signs : list (list bool)) (t : list (list Q)) (us : list (list Q)) : (2 <= L)%Z ->
  length signs = length t -> Forall2 rusq_leaf_ok t us ->
  exists t', rusq_tree L signs (map lift t) us = Some (map lift t') /\ Forall2 (fun l l' => length l' = length l) t t'.
Proof.
  intros HL Hls H. unfold rusq_tree.
  assert (H' : Forall2 (fun (ls : list nq * list bool) (u : list Q) => exists xq, fst ls = lift xq /\ rusq_leaf_ok xq u)
                 (combine (map lift t) signs) us).
  { clear HL. revert signs Hls. induction H as [|leaf u t us Hl _ IH]; intros [|sg signs] Hls; cbn in Hls; try discriminate; cbn [map combine]; [constructor|].
    constructor; [exists leaf; split; [reflexivity|exact Hl]|apply IH; lia]. }
  destruct (all_some_map2_defined (fun (ls : list nq * list bool) (u : list Q) => exists xq, fst ls = lift xq /\ rusq_leaf_ok xq u)
              (fun (ls : list nq * list bool) (c : list nq) => exists w, c = lift w /\ forall xq, fst ls = lift xq -> length w = length xq)
              (fun ls u => through_rotation (fun y => usq y L u) (snd ls) (fst ls))) with (la := combine (map lift t) signs) (lb := us) as (lc & E & Hq); [|exact H'|].
  { intros [leaf sg] u (xq & Hx & Hok & Hu). cbn [fst snd] in *. subst leaf.
    destruct (through_rotation_defined (fun y => usq y L u) (fun y => usq_q y L u) sg xq Hok) as (w & Hw & Lw).
    - intros y Ly. split.
      + apply usq_lift; [|exact HL]. destruct y; [|discriminate]. cbn in Ly. pose proof (Nat.pow_nonzero 2 (rdim (length xq))). lia.
      + apply usq_q_length. lia.
    - exists (lift w). split; [exact Hw|]. exists w. split; [reflexivity|]. intros xq' Hx. apply lift_inj in Hx. subst. exact Lw. }
  rewrite E.
  assert (G : Forall2 (fun (l : list Q) (c : list nq) => exists w, c = lift w /\ length w = length l) t lc).
  { clear -Hq Hls. revert signs Hls lc Hq. induction t as [|l t IH]; intros [|sg signs] Hls lc Hq; cbn in Hls; try discriminate; cbn [map combine] in Hq.
    - inversion Hq; subst. constructor.
    - inversion Hq as [|? c ? lc' (w & -> & Hw) Hq']; subst. constructor; [exists w; split; [reflexivity|apply Hw; reflexivity]|].
      apply (IH signs); [lia|exact Hq']. }
  destruct (Forall2_lifted t (fun l w => length w = length l) lc G) as (lw & -> & Hl).
  exists lw. split; [reflexivity|exact Hl].
Qed.

Theorem rusq_agg_is_wmean n L (signs : list (list bool)) (cl : list (qtree * Q)) (us : list (list (list Q))) :
  (2 <= L)%Z -> cl <> [] -> sizes_ok n cl ->
  Forall2 (fun c u => length signs = length (fst c) /\ Forall2 rusq_leaf_ok (fst c) u) cl us ->
  exists (qcl : list (qtree * Q)) v,
    rusq_agg L signs (lift_clients cl) us = Some (vlift v) /\
    v =v= wmean_batch n (map (fun c => (snd c, concat (fst c))) qcl) /\
    Forall2 (fun c q => snd q = snd c /\ Forall2 (fun l l' => length l' = length l) (fst c) (fst q)) cl qcl.
Proof.
  intros HL Hne Hn H. unfold rusq_agg.
  apply (pipeline_agg_is_wmean n cl us (fun t u => rusq_tree L signs t u)
           (fun t u => length signs = length t /\ Forall2 rusq_leaf_ok t u)); try assumption.
  intros t u [Hls Hok]. apply rusq_tree_defined; assumption.
Qed.
