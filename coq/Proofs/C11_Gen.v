(* C11 proofs, part T: the definitions translated from compression.py / walsh_hadamard.py
   on this run (gen/Gen_compression.v: gen_usq, gen_bsq, gen_tern, gen_drive_leaf and the PRNG
   plumbing of the four aggregators) ARE the model functions the theorems are about.  An edit
   of a quantizer body (`>=` vs `>`, `L - 1` vs `L`, a dropped nan_to_num, another clipping
   constant) or of the key plumbing (which split index goes where) changes the generated text
   and these equalities stop type-checking. *)
From Coq Require Import ZArith QArith List Bool Lia.
From FV Require Import Common.ListX Common.CMonoid Common.NanQ Common.NanVec Common.KeyPath
  gen.Gen_compression gen.Gen_walsh_hadamard Model.C11_Model.
Import ListNotations.

Ltac vunfold := unfold bvs, bsv, where_vqq, where_vvv, where_vqv, where_vvq.

(* binary_stochastic_quantize with explicit bounds, the draws being finite values *)
Lemma gen_bsq_bounds a b : forall v u, gen_bsq v (lift u) (Some a) (Some b) = map2 (bsq1 a b) v u.
Proof.
  unfold gen_bsq. vunfold. induction v as [|x v IH]; intros [|u0 u]; cbn [lift map map2]; try reflexivity.
  apply f_equal2; [reflexivity|apply IH].
Qed.

Lemma gen_bsq_is_model v u : gen_bsq v (lift u) None None = bsq v u.
Proof.
  unfold gen_bsq, bsq. generalize (amin v) (amax v). intros a b. vunfold.
  revert u. induction v as [|x v IH]; intros [|u0 u]; cbn [lift map map2]; try reflexivity.
  apply f_equal2; [reflexivity|apply IH].
Qed.

Lemma gen_usq_is_model v L u : gen_usq v (NanQ.of_Z L) (lift u) None None = usq v L u.
Proof.
  unfold gen_usq, usq. generalize (amin v) (amax v). intros a b. vunfold.
  revert u. induction v as [|x v IH]; intros [|u0 u]; cbn [lift map map2 combine fst snd]; try reflexivity.
  apply f_equal2; [reflexivity|apply IH].
Qed.

Lemma map2_mul_fuse (f : NanQ.t -> Q -> NanQ.t) : forall (w : list NanQ.t) (u : list Q),
  map2 NanQ.mul (map2 f (map NanQ.abs w) u) (map nsign w) =
  map2 (fun x ui => NanQ.mul (f (NanQ.abs x) ui) (nsign x)) w u.
Proof.
  induction w as [|x w IH]; intros [|u0 u]; cbn [map map2]; try reflexivity. f_equal. apply IH.
Qed.

Lemma gen_tern_is_model sigma v u : gen_tern (fun _ => Some sigma) v (lift u) = tern sigma v u.
Proof.
  unfold gen_tern, tern.
  assert (Hc : where_vvv (bvs NanQ.gtb (map NanQ.abs v) (NanQ.mul (NanQ.of_Q (5 # 2)) (Some sigma)))
                 (bsv NanQ.mul (NanQ.mul (NanQ.of_Q (5 # 2)) (Some sigma)) (map nsign v)) v
               = map (tern_clipped sigma) v).
  { vunfold. induction v as [|x v IH]; cbn [map map2 combine fst snd]; [reflexivity|]. f_equal. exact IH. }
  cbv zeta. rewrite Hc. rewrite gen_bsq_bounds. apply map2_mul_fuse.
Qed.

Lemma gen_drive_is_model x : gen_drive_leaf x = drive_leaf x.
Proof. unfold gen_drive_leaf, drive_leaf. vunfold. rewrite !map_map. reflexivity. Qed.

(* ---- keys: the translated PRNG plumbing is the path model ---- *)
Fixpoint iter_state (next : list nat -> list nat) (t : nat) : list nat :=
  match t with O => [] | S t' => next (iter_state next t') end.

Lemma repeat_snoc {A} (a : A) n : repeat a n ++ [a] = repeat a (S n).
Proof. induction n as [|n IH]; cbn; [reflexivity|]. f_equal. exact IH. Qed.

Lemma usq_state_gen t : iter_state usq_agg_next_state t = usq_state t.
Proof.
  unfold usq_state. induction t as [|t IH]; [reflexivity|]. cbn [iter_state]. rewrite IH.
  unfold usq_agg_next_state. apply repeat_snoc.
Qed.
Lemma tern_state_gen t : iter_state tern_agg_next_state t = tern_state t.
Proof.
  unfold tern_state, usq_state. induction t as [|t IH]; [reflexivity|]. cbn [iter_state]. rewrite IH.
  unfold tern_agg_next_state. apply repeat_snoc.
Qed.
Lemma drive_state_gen t : iter_state drive_agg_next_state t = drive_state t.
Proof.
  unfold drive_state. induction t as [|t IH]; [reflexivity|]. cbn [iter_state]. rewrite IH.
  unfold drive_agg_next_state. apply repeat_snoc.
Qed.
Lemma rusq_state_gen t : iter_state rusq_agg_next_state t = rusq_state t.
Proof.
  unfold rusq_state. induction t as [|t IH]; [reflexivity|]. cbn [iter_state]. rewrite IH.
  unfold rusq_agg_next_state. rewrite !repeat_snoc. f_equal. lia.
Qed.

Lemma usq_key_gen t c l :
  usq_pytree_leaf_key (usq_agg_quant_key (iter_state usq_agg_next_state t) c) l = usq_key t c l.
Proof. rewrite usq_state_gen. reflexivity. Qed.
Lemma tern_key_gen t c l :
  tern_pytree_leaf_key (tern_agg_quant_key (iter_state tern_agg_next_state t) c) l = tern_key t c l.
Proof. rewrite tern_state_gen. reflexivity. Qed.
Lemma drive_key_gen t c l :
  rot_pytree_leaf_key (drive_agg_rot_key (iter_state drive_agg_next_state t) c) l = drive_key t c l /\
  inv_pytree_leaf_key (drive_agg_inv_key (iter_state drive_agg_next_state t) c) l = drive_key t c l.
Proof. rewrite drive_state_gen. split; reflexivity. Qed.
Lemma rusq_key_gen t c l :
  usq_pytree_leaf_key (rusq_agg_quant_key (iter_state rusq_agg_next_state t) c) l = rusq_key t c l /\
  rot_pytree_leaf_key (rusq_agg_rot_key (iter_state rusq_agg_next_state t) c) l = rusq_rot_key t l /\
  inv_pytree_leaf_key (rusq_agg_inv_key (iter_state rusq_agg_next_state t) c) l = rusq_rot_key t l.
Proof.
  rewrite rusq_state_gen. unfold rusq_key, rusq_rot_key, rusq_agg_quant_key, rusq_agg_client_key, rusq_agg_rot_key,
    rusq_agg_inv_key, usq_pytree_leaf_key, rot_pytree_leaf_key, inv_pytree_leaf_key.
  rewrite <- !app_assoc. repeat split.
Qed.
