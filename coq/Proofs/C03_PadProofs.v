(* C03, wave 2: the TRANSLATED pad_examples / attach_mask / BatchPreprocessor.__call__
   (gen/Gen_client_datasets_pad.v, regenerated from fedjax/core/client_datasets.py on every
   check) equal the hand-written definitions of Common/Batch.v and Proofs/C03_Proofs.v that
   the C03 model evaluates; and the padded loop with the translated pad_examples plugged in
   never reaches the `current_size > size` ValueError. *)
From Coq Require Import ZArith List Bool Lia.
From FV Require Import Common.ListX Common.PySem Common.Batch Common.Chunk Common.NpArr
  gen.Gen_client_datasets gen.Gen_client_datasets_pad Model.C03_Model Proofs.C03_Proofs.
Import ListNotations.
Local Open Scope Z_scope.

Section Pad.
Context {A : Type} (zero : A).

(* pad_examples: under the code's own guard (not current_size > size) the translated
   function returns exactly the modelled batch: mask = arange(size) < current_size is
   `current_size` True then False; rows = zeros with the prefix overwritten *)
Lemma gen_pad_examples_spec (rows : list A) size : Z.of_nat (length rows) <= size ->
  gen_pad_examples zero rows size = Some (pad_examples zero rows size).
Proof.
  intros H. unfold gen_pad_examples. cbv zeta.
  destruct (Z.of_nat (length rows) >? size) eqn:E; [apply Z.gtb_lt in E; lia|].
  rewrite np_assign_prefix_zeros by exact H. rewrite arange_lt_mask by lia.
  unfold pad_examples, attach_mask. rewrite Nat2Z.id. rewrite Nat.min_l by lia. reflexivity.
Qed.

(* ... and raises (None) exactly when there are more rows than `size` *)
Lemma gen_pad_examples_raises (rows : list A) size : size < Z.of_nat (length rows) ->
  gen_pad_examples zero rows size = None.
Proof.
  intros H. unfold gen_pad_examples. cbv zeta.
  destruct (Z.of_nat (length rows) >? size) eqn:E; [reflexivity|].
  rewrite Z.gtb_ltb in E. apply Z.ltb_ge in E. lia.
Qed.

Lemma gen_attach_mask_spec (rows : list A) (m : list bool) :
  gen_attach_mask rows m = Some (attach_mask rows m).
Proof. reflexivity. Qed.

(* slice_examples(examples, slice(a, b)) is the python slice of every column *)
Lemma gen_slice_examples_spec (rows : list A) a b :
  gen_slice_examples rows (a, b) = Some (py_slice rows a b).
Proof. reflexivity. Qed.

(* ClientDataset.__len__ / __getitem__: the size every view reads is the number of rows of
   the dataset's own raw examples; d[a:b] is a dataset over the python slice of the rows *)
Lemma gen_dataset_len_spec (rows : list A) : gen_dataset_len rows = Some (Z.of_nat (length rows)).
Proof. reflexivity. Qed.

Lemma gen_dataset_getitem_spec (rows : list A) a b :
  gen_dataset_getitem rows (a, b) = Some (py_slice rows a b) /\
  (forall r, gen_dataset_getitem rows (a, b) = Some r -> gen_dataset_len r = Some (Z.of_nat (length (py_slice rows a b)))).
Proof. split; [reflexivity|]. intros r H. injection H as <-. reflexivity. Qed.

(* num_examples: the row count of the (first) column, with or without validation *)
Lemma gen_num_examples_spec (rows : list A) v : gen_num_examples rows v = Some (Z.of_nat (length rows)).
Proof. unfold gen_num_examples. destruct v; reflexivity. Qed.

(* BatchPreprocessor.__call__: the `for f in self._fns: out = f(out)` loop is the left
   fold in registration order; the empty-chain shortcut returns the input *)
Lemma gen_preprocessor_call_fold (fns : list (list A -> list A)) rows :
  gen_preprocessor_call fns rows = Some (fold_left (fun r g => g r) fns rows).
Proof. unfold gen_preprocessor_call. destruct fns; reflexivity. Qed.

Lemma fold_left_rowwise (fs : list (A -> A)) : forall rows,
  fold_left (fun r (g : list A -> list A) => g r) (map (@map A A) fs) rows = chain fs rows.
Proof.
  unfold chain. induction fs as [|g fs IH]; intros rows; cbn [map fold_left]; [reflexivity|apply IH].
Qed.

Lemma gen_preprocessor_call_spec (fs : list (A -> A)) rows :
  gen_preprocessor_call (map (@map A A) fs) rows = Some (chain fs rows).
Proof. rewrite gen_preprocessor_call_fold. f_equal. apply fold_left_rowwise. Qed.

(* ---- the padded loop with the translated pad_examples ---- *)
Definition padded_spec_checked (pre : list A -> list A) (bs : nat) (final : Z) (raw : list A)
  : list (option (batch A)) :=
  map (fun c => if fullb bs c then Some (attach_mask (pre c) (repeat true bs))
                else gen_pad_examples zero (pre c) final) (chunks bs raw).

Lemma gen_padded_view_checked_spec pre raw bs final : 1 <= bs ->
  padded_batch_view_iter_checked zero pre raw (Z.of_nat (length raw)) bs final
  = padded_spec_checked pre (Z.to_nat bs) final raw.
Proof.
  intros Hbs. unfold padded_batch_view_iter_checked, padded_spec_checked. cbv zeta.
  rewrite <- (slices_are_chunks0 raw bs Hbs), map_map.
  rewrite <- flat_map_singleton. apply flat_map_ext_in'.
  intros s Hs. apply py_range_In in Hs; [|exact Hbs].
  rewrite (slice_full_iff raw bs s Hbs) by lia. unfold fullb.
  destruct (length (py_slice raw s (s + bs)) =? Z.to_nat bs)%nat; reflexivity.
Qed.

(* what PaddedBatchView.__iter__ yields when pad_examples may raise: None if it does *)
Definition padded_view_checked (pre : list A -> list A) (raw : list A) (bs nb : Z)
  : option (list (batch A)) :=
  match pick (Z.of_nat (length raw)) bs nb with
  | Some f => sequence (padded_batch_view_iter_checked zero pre raw (Z.of_nat (length raw)) bs f)
  | None => None
  end.

(* the guard never fires: the final size picked by _pick_final_batch_size holds the
   remainder (pick_ge_rem), and the only chunk that is padded has N mod bs rows *)
Lemma padded_view_checked_eq (pre : list A -> list A) raw bs nb :
  (forall l, length (pre l) = length l) -> 1 <= bs ->
  padded_view_checked pre raw bs nb = padded_view zero pre raw bs nb.
Proof.
  intros Hpre Hbs. unfold padded_view_checked, padded_view.
  destruct (pick (Z.of_nat (length raw)) bs nb) as [final|] eqn:Hp; [|reflexivity].
  pose proof (pick_ge_rem _ bs nb final (Nat2Z.is_nonneg (length raw)) Hbs Hp) as [Hge _].
  rewrite gen_padded_view_checked_spec, (gen_padded_view_spec zero) by exact Hbs.
  unfold padded_spec_checked, padded_spec. apply sequence_map.
  intros c Hc. destruct (fullb (Z.to_nat bs) c) eqn:E; [reflexivity|].
  apply gen_pad_examples_spec. rewrite Hpre.
  unfold fullb in E. apply Nat.eqb_neq in E. unfold chunks in Hc.
  rewrite (chunks_f_short_is_rem (length raw) (Z.to_nat bs) raw c) by (first [assumption | lia]).
  rewrite Nat2Z.inj_mod. rewrite Z2Nat.id by lia. exact Hge.
Qed.

Lemma padded_view_checked_rowwise (f : A -> A) raw bs nb : 1 <= bs ->
  padded_view_checked (map f) raw bs nb = padded_view zero (map f) raw bs nb.
Proof. intros Hbs. apply padded_view_checked_eq; [intros l; apply map_length|exact Hbs]. Qed.

End Pad.

(* assert_consistent_rows over the row counts of the columns (dict order): succeeds exactly
   when there is at least one column and all columns have the first one's row count.  This
   is what justifies modelling an Examples dict by ONE abstract column of rows. *)
Lemma gen_assert_consistent_rows_spec (sizes : list Z) :
  gen_assert_consistent_rows sizes = Some tt <->
  exists s rest, sizes = s :: rest /\ Forall (fun v => v = s) rest.
Proof.
  unfold gen_assert_consistent_rows. destruct sizes as [|s rest].
  - split; [discriminate|]. intros (s & rest & E & _). discriminate.
  - destruct (forallb (fun v => negb (negb (v =? s))) rest) eqn:E.
    + split; [intros _|reflexivity]. exists s, rest. split; [reflexivity|].
      apply Forall_forall. intros v Hv. rewrite forallb_forall in E. specialize (E v Hv).
      rewrite Bool.negb_involutive in E. now apply Z.eqb_eq.
    + split; [discriminate|]. intros (s' & rest' & Eq & Hall). injection Eq as <- <-.
      assert (forallb (fun v => negb (negb (v =? s))) rest = true); [|congruence].
      apply forallb_forall. intros v Hv. rewrite Forall_forall in Hall. rewrite (Hall v Hv).
      now rewrite Bool.negb_involutive, Z.eqb_refl.
Qed.

(* documented defaults of the hparams dataclasses (fields translated from the class bodies) *)
Lemma hparams_defaults_c03 :
  hp_batch_drop_remainder_default = false /\ hp_padded_num_batch_size_buckets_default = 1.
Proof. split; reflexivity. Qed.
