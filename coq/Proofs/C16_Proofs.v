(* C16 proofs: the serialisation model round-trips every supported value and rejects
   the others. *)
From Coq Require Import ZArith List Bool Lia Arith.
From FV Require Import Common.ListX Common.Chunk Common.SerTags Model.C16_Model.
Import ListNotations.
Local Open Scope Z_scope.

(* ---------- induction principle for the nested value type ---------- *)
Definition is_leaf (v : value) : Prop :=
  match v with VDict _ _ | VList _ | VTuple _ => False | _ => True end.

Section value_ind_nested.
  Variable P : value -> Prop.
  Hypothesis HDict : forall ks vs, Forall P vs -> P (VDict ks vs).
  Hypothesis HList : forall vs, Forall P vs -> P (VList vs).
  Hypothesis HTuple : forall vs, Forall P vs -> P (VTuple vs).
  Hypothesis HLeaf : forall v, is_leaf v -> P v.

  Fixpoint value_ind_nested (v : value) : P v :=
    let go := fix go (l : list value) : Forall P l :=
      match l with [] => Forall_nil _ | x :: r => Forall_cons _ (value_ind_nested x) (go r) end in
    match v with
    | VDict ks vs => HDict ks vs (go vs)
    | VList vs => HList vs (go vs)
    | VTuple vs => HTuple vs (go vs)
    | VSet => HLeaf VSet I
    | VArr a => HLeaf (VArr a) I
    | VJax a => HLeaf (VJax a) I
    | VOther o => HLeaf (VOther o) I
    | VObj s e => HLeaf (VObj s e) I
    | VNpScalar d b => HLeaf (VNpScalar d b) I
    | VNpOther o => HLeaf (VNpOther o) I
    | VInt z => HLeaf (VInt z) I
    | VFloat b => HLeaf (VFloat b) I
    | VBool b => HLeaf (VBool b) I
    | VNone => HLeaf VNone I
    | VStr s => HLeaf (VStr s) I
    | VBytes s => HLeaf (VBytes s) I
    | VComplex r i => HLeaf (VComplex r i) I
    | VForeign => HLeaf VForeign I
    end.
End value_ind_nested.

(* ---------- bytes ---------- *)
Lemma le_bytes_length w n : length (le_bytes w n) = w.
Proof. revert n; induction w; intros; cbn [le_bytes length]; [reflexivity|now rewrite IHw]. Qed.

Lemma le_val_bytes : forall w n, 0 <= n < 256 ^ Z.of_nat w -> le_val (le_bytes w n) = n.
Proof.
  induction w as [|w IH]; intros n H.
  - cbn in *. lia.
  - cbn [le_bytes le_val]. rewrite IH.
    + pose proof (Z.div_mod n 256). lia.
    + rewrite Nat2Z.inj_succ, Z.pow_succ_r in H by lia.
      split; [apply Z.div_pos; lia|apply Z.div_lt_upper_bound; lia].
Qed.

Lemma dt_width_pos d : (1 <= dt_width d)%nat.
Proof. destruct d; cbn; lia. Qed.

Lemma dtype_of_name_name d : dtype_of_name (dt_name d) = Some d.
Proof. destruct d; vm_compute; reflexivity. Qed.

(* ---------- chunks of a flat_map of fixed-width pieces ---------- *)
Lemma chunks_flat_map {A B} (f : A -> list B) (w : nat) (l : list A) : (1 <= w)%nat ->
  (forall x, In x l -> length (f x) = w) -> chunks w (flat_map f l) = map f l.
Proof.
  intros Hw. induction l as [|x l IH]; intros Hf; [reflexivity|].
  cbn [flat_map map]. rewrite chunks_unfold by exact Hw.
  assert (Hx : length (f x) = w) by (apply Hf; left; reflexivity).
  destruct (f x ++ flat_map f l) eqn:E.
  - apply (f_equal (@length B)) in E. rewrite app_length in E. cbn in E. lia.
  - rewrite <- E. rewrite <- Hx at 1 3.
    rewrite firstn_app, Nat.sub_diag, firstn_all, firstn_O, app_nil_r.
    rewrite skipn_app, Nat.sub_diag, skipn_all, skipn_O. cbn [app].
    rewrite IH; [reflexivity|]. intros y Hy. apply Hf. right. exact Hy.
Qed.

(* ---------- option map over lists ---------- *)
Lemma omap_cons {A B} (f : A -> option B) x l :
  omap f (x :: l) = match f x, omap f l with Some y, Some ys => Some (y :: ys) | _, _ => None end.
Proof. reflexivity. Qed.

Lemma omap_nil {A B} (f : A -> option B) : omap f [] = Some [].
Proof. reflexivity. Qed.

Lemma omap_map_Some {A B C} (f : B -> option C) (g : A -> B) (h : A -> C) (l : list A) :
  (forall x, In x l -> f (g x) = Some (h x)) -> omap f (map g l) = Some (map h l).
Proof.
  induction l as [|x l IH]; intros H; [reflexivity|]. cbn [map]. rewrite omap_cons.
  rewrite (H x) by (left; reflexivity). rewrite IH; [reflexivity|].
  intros y Hy. apply H. right. exact Hy.
Qed.

Lemma omap_wire_nat shape : omap wire_nat (map (fun n => WInt (Z.of_nat n)) shape) = Some shape.
Proof.
  rewrite (omap_map_Some wire_nat _ (fun n => n)); [now rewrite map_id|].
  intros n _. cbn. destruct (0 <=? Z.of_nat n) eqn:E; [now rewrite Nat2Z.id|apply Z.leb_gt in E; lia].
Qed.

(* ---------- row-major addressing ---------- *)
Lemma indices_length shape : length (indices shape) = prod shape.
Proof.
  induction shape as [|n r IH]; [reflexivity|]. cbn [indices prod].
  generalize 0%nat. induction n as [|n IHn]; intros s; [reflexivity|].
  cbn [seq flat_map]. rewrite app_length, map_length, IH, IHn. lia.
Qed.

Lemma logical_length a : length (logical a) = prod (a_shape a).
Proof. unfold logical. now rewrite map_length, indices_length. Qed.

Lemma nth_hd_skipn {A} (d : A) : forall (l : list A) n x t, skipn n l = x :: t -> nth n l d = x.
Proof.
  induction l as [|y l IH]; intros [|n] x t E; cbn in *; try discriminate.
  - now injection E.
  - eapply IH; eauto.
Qed.

(* reading a C-contiguous block starting at element `off` gives the block *)
Lemma c_block : forall shape (buf : list Z) (off : nat), (off + prod shape <= length buf)%nat ->
  map (fun idx => nth (Z.to_nat (Z.of_nat off + dot (c_strides shape) idx)) buf 0) (indices shape)
  = firstn (prod shape) (skipn off buf).
Proof.
  induction shape as [|n r IH]; intros buf off H.
  - cbn [indices map c_strides dot prod]. cbn [prod] in H.
    rewrite Z.add_0_r, Nat2Z.id.
    destruct (skipn off buf) as [|x t] eqn:E.
    + apply (f_equal (@length Z)) in E. rewrite skipn_length in E. cbn in E. lia.
    + cbn [firstn map]. f_equal. eapply nth_hd_skipn; eauto.
  - cbn [indices c_strides prod].
    assert (G : forall k s, (off + (s + k) * prod r <= length buf)%nat ->
      map (fun idx => nth (Z.to_nat (Z.of_nat off + dot (Z.of_nat (prod r) :: c_strides r) idx)) buf 0)
          (flat_map (fun i => map (cons i) (indices r)) (seq s k))
      = firstn (k * prod r) (skipn (off + s * prod r) buf)).
    { induction k as [|k IHk]; intros s Hs; [reflexivity|].
      cbn [seq flat_map]. rewrite map_app, map_map. cbn [dot].
      rewrite IHk by lia.
      erewrite map_ext; [rewrite (IH buf (off + s * prod r)%nat) by lia|].
      2:{ intros idx. cbn beta. f_equal. f_equal. rewrite Nat2Z.inj_add, Nat2Z.inj_mul. lia. }
      replace (S k * prod r)%nat with (prod r + k * prod r)%nat by lia.
      rewrite firstn_split_add, skipn_skipn'. f_equal. f_equal. f_equal. lia. }
    specialize (G n 0%nat). change (0 * prod r)%nat with 0%nat in G. rewrite Nat.add_0_r in G. apply G. cbn [Nat.add]. cbn [prod] in H. lia.
Qed.

(* the logical content of a fresh C-contiguous array is its element list *)
Lemma logical_carr d shape els : length els = prod shape -> logical (mk_carr d shape els) = els.
Proof.
  intros H. unfold logical, addr, mk_carr. cbn [a_offset a_strides a_buf a_shape].
  pose proof (c_block shape els 0%nat) as B. cbn [Z.of_nat] in B.
  rewrite B by (cbn; lia). cbn [skipn]. rewrite <- H. apply firstn_all.
Qed.

Lemma astype_native_logical a : logical (astype_native a) = logical a.
Proof. unfold astype_native. apply logical_carr. apply logical_length. Qed.

Lemma astype_native_idem a : astype_native (astype_native a) = astype_native a.
Proof. unfold astype_native at 1. rewrite astype_native_logical. reflexivity. Qed.

(* ---------- one array through _ndarray_to_bytes / _ndarray_from_bytes ---------- *)
Lemma in_range_spec d v : in_range d v = true -> 0 <= v < 256 ^ Z.of_nat (dt_width d).
Proof. unfold in_range. intros H. apply andb_true_iff in H. destruct H as [A B]. apply Z.leb_le in A. apply Z.ltb_lt in B. lia. Qed.

Lemma flat_le_bytes_length w l : length (flat_map (le_bytes w) l) = (length l * w)%nat.
Proof. induction l as [|x l IH]; [reflexivity|]. cbn [flat_map length]. rewrite app_length, le_bytes_length, IH. lia. Qed.

Lemma from_to_bytes a : Forall (fun v => in_range (a_dt a) v = true) (logical a) ->
  ndarray_from_bytes (ndarray_to_bytes a) = Some (astype_native a).
Proof.
  intros Hr. unfold ndarray_to_bytes.
  set (a' := if is_native a then a else astype_native a).
  assert (Hd : a_dt a' = a_dt a) by (subst a'; destruct (is_native a); reflexivity).
  assert (Hs : a_shape a' = a_shape a) by (subst a'; destruct (is_native a); reflexivity).
  assert (Ho : a_order a' = Native).
  { subst a'. unfold is_native. destruct (a_order a) eqn:E; [exact E|reflexivity]. }
  assert (Hl : logical a' = logical a).
  { subst a'. destruct (is_native a); [reflexivity|apply astype_native_logical]. }
  unfold ndarray_from_bytes, shape_wire. cbn [length Nat.eqb ndarray_unpack_fields field_of].
  rewrite omap_wire_nat, Hd, dtype_of_name_name.
  unfold tobytes_C. rewrite Ho, Hd, Hl. cbn [elem_bytes].
  set (w := dt_width (a_dt a)).
  assert (Hw : (1 <= w)%nat) by apply dt_width_pos.
  change (elem_bytes (a_dt a) Native) with (le_bytes w).
  rewrite flat_le_bytes_length, Nat.mod_mul by lia. cbn [Nat.eqb].
  rewrite chunks_flat_map by (auto; intros; apply le_bytes_length).
  rewrite map_map.
  assert (Hid : map (fun x => le_val (le_bytes w x)) (logical a) = logical a).
  { rewrite <- (map_id (logical a)) at 2. apply map_ext_in. intros x Hx.
    apply le_val_bytes. apply in_range_spec. rewrite Forall_forall in Hr. apply Hr. exact Hx. }
  rewrite Hid, logical_length, Hs, Nat.eqb_refl. reflexivity.
Qed.

Lemma wf_logical_in_range a : wf_arrb a = true -> Forall (fun v => in_range (a_dt a) v = true) (logical a).
Proof.
  unfold wf_arrb. intros H. repeat (apply andb_true_iff in H; destruct H as [H ?]).
  rename H1 into Hb. rename H2 into Ha.
  rewrite forallb_forall in Ha, Hb.
  unfold logical. rewrite Forall_forall. intros v Hv. apply in_map_iff in Hv. destruct Hv as [idx [E Hi]].
  specialize (Ha idx Hi). apply andb_true_iff in Ha. destruct Ha as [A1 A2].
  apply Z.leb_le in A1. apply Z.ltb_lt in A2. subst v. apply Hb. apply nth_In. lia.
Qed.

(* ---------- object arrays ---------- *)
Lemma obj_roundtrip elems : forallb (fun e => match e with OBytes _ => true | ONotBytes => false end) elems = true ->
  exists flat, omap obj_bytes elems = Some flat /\ omap wire_bin flat = Some elems.
Proof.
  induction elems as [|e l IH]; intros H; [exists []; split; reflexivity|].
  cbn [forallb] in H. apply andb_true_iff in H. destruct H as [He Hl]. destruct (IH Hl) as [flat [A B]].
  destruct e as [b|]; [|discriminate]. exists (WBin b :: flat). rewrite !omap_cons, A, B. split; reflexivity.
Qed.

Lemma obj_reject elems : forallb (fun e => match e with OBytes _ => true | ONotBytes => false end) elems = false ->
  omap obj_bytes elems = None.
Proof.
  induction elems as [|e l IH]; intros H; [discriminate|]. cbn [forallb] in H. rewrite omap_cons.
  destruct e as [b|]; [|reflexivity]. cbn [obj_bytes]. cbn [andb] in H. rewrite (IH H). reflexivity.
Qed.

(* ---------- the interpreted tables have the expected closed forms ---------- *)
Lemma enc_arr a : encode (VArr a) = Some (WExt EXT_ndarray (ndarray_to_bytes a)).
Proof. reflexivity. Qed.
Lemma enc_jax a : encode (VJax a) = Some (WExt EXT_ndarray (ndarray_to_bytes (astype_native a))).
Proof. reflexivity. Qed.
Lemma enc_other o : encode (VOther o) = option_map (WExt EXT_ndarray) (other_to_bytes o).
Proof. destruct o as [n h al sh raw]. destruct h, al; reflexivity. Qed.
Lemma enc_obj shape elems : encode (VObj shape elems) =
  match omap obj_bytes elems with
  | Some flat => Some (WExt EXT_bytes_ndarray (WArr [shape_wire shape; WArr flat]))
  | None => None
  end.
Proof.
  cbn [encode]. unfold ext_pack. cbn [find pack_dispatch test_holds fst snd apply_enc].
  unfold bytes_ndarray_to_bytes. cbn [bytes_ndarray_checks_every_element].
  destruct (omap obj_bytes elems); reflexivity.
Qed.
Lemma enc_npscalar d bits : encode (VNpScalar d bits) = Some (WExt EXT_npscalar (ndarray_to_bytes (mk_carr d [] [bits]))).
Proof. reflexivity. Qed.
Lemma enc_npother o : encode (VNpOther o) = option_map (WExt EXT_npscalar) (other_to_bytes o).
Proof. destruct o as [n h al sh raw]. destruct h, al; reflexivity. Qed.
Lemma enc_complex re im : encode (VComplex re im) = Some (WExt EXT_native_complex (WArr [WF64 re; WF64 im])).
Proof. reflexivity. Qed.
Lemma enc_tuple vs : encode (VTuple vs) = None.
Proof. reflexivity. Qed.

Lemma dec_ndarray p : ext_unpack EXT_ndarray p = option_map VArr (ndarray_from_bytes p).
Proof. reflexivity. Qed.
Lemma dec_npscalar p : ext_unpack EXT_npscalar p =
  match ndarray_from_bytes p with
  | Some a => match a_shape a, a_buf a with [], [b] => Some (VNpScalar (a_dt a) b) | _, _ => Some (VArr a) end
  | None => None
  end.
Proof. reflexivity. Qed.
Lemma dec_complex re im : ext_unpack EXT_native_complex (WArr [WF64 re; WF64 im]) = Some (VComplex re im).
Proof. reflexivity. Qed.
Lemma dec_object p : ext_unpack EXT_bytes_ndarray p = object_from_bytes p.
Proof. reflexivity. Qed.

Lemma other_from_bytes o : dtype_of_name (o_name o) = None ->
  ndarray_from_bytes (WArr [shape_wire (o_shape o); WStr (o_name o); WBin (o_raw o)]) = None.
Proof.
  intros H. unfold ndarray_from_bytes, shape_wire. cbn [length Nat.eqb ndarray_unpack_fields field_of].
  now rewrite omap_wire_nat, H.
Qed.

(* ---------- the main induction ---------- *)
Lemma forallb_Forall_in_range d l : forallb (in_range d) l = true -> Forall (fun v => in_range d v = true) l.
Proof. intros H. rewrite forallb_forall in H. apply Forall_forall. exact H. Qed.

Definition good (v : value) : Prop :=
  wfl v = true ->
  (supported v = true -> exists w, encode v = Some w /\ decode w = Some (canon v)) /\
  (supported v = false ->
     encode v = None \/ exists w, encode v = Some w /\ decode w = None).

Lemma good_list vs : Forall good vs -> forallb wfl vs = true ->
  (forallb supported vs = true ->
     exists ws, omap encode vs = Some ws /\ omap decode ws = Some (map canon vs)) /\
  (forallb supported vs = false ->
     omap encode vs = None \/ exists ws, omap encode vs = Some ws /\ omap decode ws = None).
Proof.
  induction 1 as [|x l Hx Hl IH]; intros Hwf.
  - split; [exists []; split; reflexivity|discriminate].
  - cbn [forallb] in Hwf. apply andb_true_iff in Hwf. destruct Hwf as [Wx Wl].
    destruct (Hx Wx) as [X1 X2]. destruct (IH Wl) as [L1 L2]. split.
    + intros S. cbn [forallb] in S. apply andb_true_iff in S. destruct S as [Sx Sl].
      destruct (X1 Sx) as [w [E D]]. destruct (L1 Sl) as [ws [Es Ds]].
      exists (w :: ws). rewrite !omap_cons, E, Es, D, Ds. split; reflexivity.
    + intros S. cbn [forallb] in S.
      rewrite omap_cons.
      destruct (supported x) eqn:Sx.
      * destruct (X1 eq_refl) as [w [E D]]. rewrite E. cbn [andb] in S.
        destruct (L2 S) as [N|[ws [Es Ds]]]; [rewrite N; now left|].
        rewrite Es. right. exists (w :: ws). split; [reflexivity|]. rewrite omap_cons, D, Ds. reflexivity.
      * destruct (X2 eq_refl) as [N|[w [E D]]]; [rewrite N; now left|].
        rewrite E. destruct (omap encode l) as [ws|]; [|now left].
        right. exists (w :: ws). split; [reflexivity|]. rewrite omap_cons, D. reflexivity.
Qed.

Lemma all_good : forall v, good v.
Proof.
  apply value_ind_nested.
  - (* dict *) intros ks vs F W. cbn [wfl] in W. destruct (good_list vs F W) as [L1 L2]. split.
    + intros S. cbn [supported] in S. apply andb_true_iff in S. destruct S as [Sk Sv].
      destruct (L1 Sv) as [ws [E D]]. exists (WMap ks ws). cbn [encode decode canon]. rewrite Sk, E, D. split; reflexivity.
    + intros S. cbn [supported] in S. cbn [encode].
      destruct (Nat.eqb (length ks) (length vs)); [|now left]. cbn [andb] in S.
      destruct (L2 S) as [N|[ws [E D]]]; [rewrite N; now left|].
      rewrite E. right. exists (WMap ks ws). split; [reflexivity|]. cbn [decode]. rewrite D. reflexivity.
  - (* list *) intros vs F W. cbn [wfl] in W. destruct (good_list vs F W) as [L1 L2]. split.
    + intros S. cbn [supported] in S. destruct (L1 S) as [ws [E D]]. exists (WArr ws).
      cbn [encode decode canon]. rewrite E, D. split; reflexivity.
    + intros S. cbn [supported] in S. cbn [encode].
      destruct (L2 S) as [N|[ws [E D]]]; [rewrite N; now left|].
      rewrite E. right. exists (WArr ws). split; [reflexivity|]. cbn [decode]. rewrite D. reflexivity.
  - (* tuple *) intros vs _ _. split; [discriminate|]. intros _. now left.
  - (* leaves *)
    intros v L W. destruct v; try (exfalso; exact L); clear L.
    + (* set *) split; [discriminate|now left].
    + (* ndarray *) split; [|discriminate]. intros _. rewrite enc_arr. eexists. split; [reflexivity|].
      cbn [decode wfl] in *. rewrite dec_ndarray, from_to_bytes by (apply forallb_Forall_in_range; exact W). reflexivity.
    + (* jax *) split; [|discriminate]. intros _. rewrite enc_jax. eexists. split; [reflexivity|].
      cbn [wfl] in W.
      cbn [decode]. rewrite dec_ndarray, from_to_bytes.
      * rewrite astype_native_idem. reflexivity.
      * rewrite astype_native_logical. change (a_dt (astype_native a)) with (a_dt a). apply forallb_Forall_in_range. exact W.
    + (* other dtype *) split; [discriminate|]. intros _. cbn [wfl] in W. rewrite enc_other.
      unfold other_to_bytes. destruct (o_hasobject o || o_alignedstruct o); [now left|]. right.
      eexists. split; [reflexivity|]. cbn [decode]. rewrite dec_ndarray, other_from_bytes; [reflexivity|].
      destruct (dtype_of_name (o_name o)); [discriminate|reflexivity].
    + (* object array *) cbn [wfl] in W. rewrite enc_obj. split.
      * intros S. cbn [supported] in S. destruct (obj_roundtrip _ S) as [flat [A B]].
        rewrite A. eexists. split; [reflexivity|].
        cbn [decode]. rewrite dec_object. unfold object_from_bytes, shape_wire.
        cbn [length Nat.eqb bytes_unpack_fields field_of]. rewrite omap_wire_nat, B, W. reflexivity.
      * intros S. cbn [supported] in S. left. rewrite (obj_reject _ S). reflexivity.
    + (* numpy scalar *) split; [|discriminate]. intros _. rewrite enc_npscalar. eexists. split; [reflexivity|].
      cbn [wfl] in W. cbn [decode]. rewrite dec_npscalar, from_to_bytes.
      * reflexivity.
      * cbn. constructor; [exact W|constructor].
    + (* other numpy scalar *) split; [discriminate|]. intros _. cbn [wfl] in W. rewrite enc_npother.
      unfold other_to_bytes. destruct (o_hasobject o || o_alignedstruct o); [now left|]. right.
      eexists. split; [reflexivity|]. cbn [decode]. rewrite dec_npscalar, other_from_bytes; [reflexivity|].
      destruct (dtype_of_name (o_name o)); [discriminate|reflexivity].
    + (* int *) cbn [supported encode]. destruct (int_packable z); split; try discriminate.
      * intros _. eexists. split; reflexivity.
      * intros _. now left.
    + split; [|discriminate]. intros _. eexists. split; reflexivity.
    + split; [|discriminate]. intros _. eexists. split; reflexivity.
    + split; [|discriminate]. intros _. eexists. split; reflexivity.
    + split; [|discriminate]. intros _. eexists. split; reflexivity.
    + split; [|discriminate]. intros _. eexists. split; reflexivity.
    + (* complex *) split; [|discriminate]. intros _. rewrite enc_complex. eexists. split; [reflexivity|].
      cbn [decode canon]. apply dec_complex.
    + (* foreign *) split; [discriminate|now left].
Qed.

(* ---------- corollaries ---------- *)
Lemma Forall_forallb_in_range d l : Forall (fun v => in_range d v = true) l -> forallb (in_range d) l = true.
Proof. intros H. apply forallb_forall. rewrite Forall_forall in H. exact H. Qed.

Lemma forallb_impl_Forall {T} (p q : T -> bool) l :
  Forall (fun x => p x = true -> q x = true) l -> forallb p l = true -> forallb q l = true.
Proof.
  induction 1 as [|x l Hx _ IH]; [reflexivity|]. cbn [forallb]. intros H. apply andb_true_iff in H. destruct H as [H1 H2].
  rewrite (Hx H1), (IH H2). reflexivity.
Qed.

Lemma wf_wfl : forall v, wf v = true -> wfl v = true.
Proof.
  refine (value_ind_nested (fun v => wf v = true -> wfl v = true) _ _ _ _).
  - intros ks vs F W. cbn [wf wfl] in *. eapply forallb_impl_Forall; eauto.
  - intros vs F W. cbn [wf wfl] in *. eapply forallb_impl_Forall; eauto.
  - intros vs F W. cbn [wf wfl] in *. eapply forallb_impl_Forall; eauto.
  - intros v L W. destruct v; try (exfalso; exact L); try exact W; try reflexivity.
    + cbn [wf wfl] in *. apply Forall_forallb_in_range, wf_logical_in_range. exact W.
    + cbn [wf wfl] in *. apply andb_true_iff in W. destruct W as [W _]. apply Forall_forallb_in_range, wf_logical_in_range. exact W.
Qed.

(* canon: fixed point, stays supported, keeps the invariant *)
Lemma map_ext_Forall {A B} (f g : A -> B) l : Forall (fun x => f x = g x) l -> map f l = map g l.
Proof. induction 1; cbn; congruence. Qed.

Lemma canon_idem : forall v, canon (canon v) = canon v.
Proof.
  apply value_ind_nested.
  - intros ks vs F. cbn [canon]. f_equal. rewrite map_map. apply map_ext_Forall. exact F.
  - intros vs F. cbn [canon]. f_equal. rewrite map_map. apply map_ext_Forall. exact F.
  - intros vs _. reflexivity.
  - intros v L. destruct v; try (exfalso; exact L); try reflexivity; cbn [canon]; now rewrite astype_native_idem.
Qed.

Lemma forallb_map_Forall {T} (p : T -> bool) (f : T -> T) l :
  Forall (fun x => p x = true -> p (f x) = true) l -> forallb p l = true -> forallb p (map f l) = true.
Proof.
  induction 1 as [|x l Hx _ IH]; [reflexivity|]. cbn [forallb map]. intros H. apply andb_true_iff in H. destruct H as [H1 H2].
  rewrite (Hx H1), (IH H2). reflexivity.
Qed.

Lemma canon_supported : forall v, supported v = true -> supported (canon v) = true.
Proof.
  refine (value_ind_nested (fun v => supported v = true -> supported (canon v) = true) _ _ _ _).
  - intros ks vs F S. cbn [supported canon] in *. apply andb_true_iff in S. destruct S as [S1 S2].
    rewrite map_length, S1. cbn [andb]. apply forallb_map_Forall; assumption.
  - intros vs F S. cbn [supported canon] in *. apply forallb_map_Forall; assumption.
  - intros vs _ S. discriminate.
  - intros v L S. destruct v; try (exfalso; exact L); try exact S; reflexivity.
Qed.

Lemma canon_wfl : forall v, wfl v = true -> wfl (canon v) = true.
Proof.
  refine (value_ind_nested (fun v => wfl v = true -> wfl (canon v) = true) _ _ _ _).
  - intros ks vs F W. cbn [wfl canon] in *. apply forallb_map_Forall; assumption.
  - intros vs F W. cbn [wfl canon] in *. apply forallb_map_Forall; assumption.
  - intros vs _ W. exact W.
  - intros v L W. destruct v; try (exfalso; exact L); try exact W;
      cbn [wfl canon] in *; rewrite astype_native_logical; exact W.
Qed.

Lemma roundtrip_supported_l v : wfl v = true -> supported v = true -> roundtrip v = Some (canon v).
Proof.
  intros W S. destruct (all_good v W) as [G _]. destruct (G S) as [w [E D]]. unfold roundtrip. now rewrite E.
Qed.

(* the round trip applied twice: the decoded value is a fixed point *)
Lemma roundtrip_idempotent v : wf v = true -> supported v = true ->
  roundtrip (canon v) = Some (canon v) /\ canon (canon v) = canon v /\ supported (canon v) = true.
Proof.
  intros W S. apply wf_wfl in W. repeat split.
  - rewrite (roundtrip_supported_l (canon v) (canon_wfl v W) (canon_supported v S)). now rewrite canon_idem.
  - apply canon_idem.
  - apply canon_supported. exact S.
Qed.

Lemma roundtrip_supported v : wf v = true -> supported v = true -> roundtrip v = Some (canon v).
Proof.
  intros W S. apply wf_wfl in W. destruct (all_good v W) as [G _]. destruct (G S) as [w [E D]]. unfold roundtrip. now rewrite E.
Qed.

Lemma unsupported_rejected v : wf v = true -> supported v = false -> roundtrip v = None.
Proof.
  intros W S. apply wf_wfl in W. destruct (all_good v W) as [_ H]. unfold roundtrip.
  destruct (H S) as [N|[w [E D]]]; [now rewrite N|now rewrite E].
Qed.

Lemma never_altered v v' : wf v = true -> roundtrip v = Some v' -> supported v = true /\ v' = canon v.
Proof.
  intros W R. destruct (supported v) eqn:S.
  - rewrite (roundtrip_supported v W S) in R. injection R as <-. split; reflexivity.
  - rewrite (unsupported_rejected v W S) in R. discriminate.
Qed.

Lemma content_preserved a :
  a_dt (astype_native a) = a_dt a /\ a_shape (astype_native a) = a_shape a /\
  a_order (astype_native a) = Native /\ logical (astype_native a) = logical a.
Proof. repeat split. apply astype_native_logical. Qed.

Lemma dispatch_total : forall t, In t all_tags -> tag_ok t = true.
Proof. apply forallb_forall. vm_compute. reflexivity. Qed.

(* ---------- SQLite builder -> reader ---------- *)
Definition client_ok (c : client) : bool :=
  wf (client_value c) && supported (client_value c) &&
  match num_examples (snd (snd c)) with Some _ => true | None => false end.

Lemma db_build_eq cs : db_build cs = omap build_row cs.
Proof. reflexivity. Qed.

Lemma sqlite_roundtrip : forall cs, forallb client_ok cs = true ->
  exists db, db_build cs = Some db /\ db_ids db = map fst cs /\
    Forall2 (fun c r => r_id r = fst c /\ num_examples (snd (snd c)) = Some (r_n r)) cs db /\
    db_clients db = Some (map (fun c => (fst c, canon (client_value c))) cs).
Proof.
  induction cs as [|c cs IH]; intros H.
  - exists []. repeat split; constructor.
  - cbn [forallb] in H. apply andb_true_iff in H. destruct H as [Hc Hcs].
    destruct (IH Hcs) as [db [B [I [F C]]]].
    unfold client_ok in Hc. apply andb_true_iff in Hc. destruct Hc as [Hc Hn].
    apply andb_true_iff in Hc. destruct Hc as [W S]. apply wf_wfl in W.
    destruct (all_good _ W) as [G _]. destruct (G S) as [w [E D]].
    destruct c as [id [ks vs]]. unfold client_value in *. cbn [snd fst] in *.
    destruct (num_examples vs) as [n|] eqn:N; [|discriminate].
    exists (mkRow id w n :: db). rewrite db_build_eq in *. rewrite omap_cons, B.
    unfold build_row. rewrite N, E. repeat split.
    + cbn [db_ids map r_id fst]. f_equal. exact I.
    + constructor; [cbn; split; [reflexivity|exact N]|exact F].
    + unfold db_clients. rewrite omap_cons. fold (db_clients db). rewrite C. cbn [r_blob r_id]. rewrite D. reflexivity.
Qed.

(* ---------- checkpoints: the last save at the highest round is what loads back ---------- *)
Lemma ck_ins_end r s d : Forall (fun e => fst e < r) d -> ck_ins r s d = d ++ [(r, s)].
Proof.
  induction 1 as [|e t He _ IH]; [reflexivity|]. cbn [ck_ins app].
  destruct (r <? fst e) eqn:E; [apply Z.ltb_lt in E; lia|]. now rewrite IH.
Qed.

Lemma ck_save_closed d r s keep : ck_save d r s keep = Some (ck_retain (ck_put d r s) keep).
Proof.
  unfold ck_save. cbn [save_checkpoint_effects fold_left ck_effect_apply].
  destruct (existsb (fun e => fst e =? r) d); reflexivity.
Qed.

Lemma checkpoint_last_save_wins d r s keep : 1 <= keep -> Forall (fun e => fst e <= r) d ->
  exists d', ck_save d r s keep = Some d' /\ ck_load d' = Some (r, s).
Proof.
  intros Hk Hd. rewrite ck_save_closed. eexists. split; [reflexivity|]. unfold ck_retain, ck_put.
  set (d' := filter (fun e => negb (fst e =? r)) d).
  assert (F : Forall (fun e => fst e < r) d').
  { subst d'. rewrite Forall_forall in *. intros e He. apply filter_In in He. destruct He as [Hi Hn].
    apply negb_true_iff, Z.eqb_neq in Hn. specialize (Hd e Hi). cbn in Hd. lia. }
  rewrite (ck_ins_end r s d' F), app_length. cbn [length].
  destruct (0 <? keep) eqn:E; [|apply Z.ltb_ge in E; lia].
  set (n := Z.to_nat (Z.max 0 (Z.of_nat (length d' + 1) - keep))).
  assert (Hn : (n <= length d')%nat) by (subst n; lia).
  rewrite skipn_app. replace (n - length d')%nat with 0%nat by lia. cbn [skipn].
  unfold ck_load. destruct (skipn n d' ++ [(r, s)]) eqn:Q.
  - destruct (skipn n d'); discriminate.
  - rewrite <- Q. now rewrite last_last.
Qed.


Lemma sqlite_schema_consistent :
  builder_tuple = table_columns /\ table_columns = [ColId; ColData; ColCount] /\
  select_ids_cols = [ColId] /\ select_sizes_cols = [ColId; ColCount] /\ select_clients_cols = [ColId; ColData] /\
  sqlite_row_is_id_blob_count = true /\ sqlite_reads_in_rowid_order = true /\ sqlite_fresh_cursor_per_query = true /\
  sqlite_views_forward_constructor_arguments = true.
Proof. repeat split. Qed.

Lemma tables_consistent :
  ndarray_tuple_fields = ndarray_unpack_fields /\ bytes_tuple_fields = bytes_unpack_fields /\
  forallb (fun b => existsb (fun u => fst u =? snd (fst b)) unpack_dispatch) pack_dispatch = true /\
  serialize_strict_types = true.
Proof. repeat split. Qed.

Lemma serialization_process_independent : serialization_has_no_process_dependent_input = true.
Proof. reflexivity. Qed.
