(* C01 lemmas.  Part 1: the statement-by-statement mirror of fed_avg.apply over the
   translated tree_util functions (NanQ trees) equals, on finite inputs, a plain Q
   computation and never yields a non-finite mean.  Part 2: that computation is the
   example-count weighted mean of Common/WMean.v, hence order / zero-weight / empty
   round properties.  Part 3: multi-round runs.  Part 4: the concrete least-squares
   + optax.sgd instance satisfies the hypotheses of the abstract section. *)
From Coq Require Import ZArith QArith Qabs List Permutation Bool Lia Lqa Setoid Morphisms.
From FV Require Import Common.ListX Common.Batch Common.CMonoid Common.NanQ Common.QVec Common.WMean
  gen.Gen_tree_util Model.C01_Model.
Import ListNotations.
Local Open Scope Q_scope.

(* ------------------------------------------------------------------ *)
(* Part 0: small facts *)

Lemma unlift_vlift v : unlift (vlift v) = Some v.
Proof. induction v as [|x v IH]; cbn; [reflexivity|]. unfold vlift in IH. rewrite IH. reflexivity. Qed.

(* l * w, the operand order of tree_weight *)
Definition rscale (w : Q) (p : list Q) : list Q := map (fun l => l * w) p.

Lemma rscale_vscale w p : rscale w p =v= vscale w p.
Proof. induction p as [|x p IH]; cbn; constructor; [ring|exact IH]. Qed.
Lemma rscale_length w p : length (rscale w p) = length p.
Proof. apply map_length. Qed.

Lemma tree_weight_lift p w : tree_weight (vlift p) (Some w) = vlift (rscale w p).
Proof. unfold tree_weight, vlift, rscale. rewrite !map_map. reflexivity. Qed.
Lemma tree_add_lift a b : tree_add (vlift a) (vlift b) = vlift (vadd a b).
Proof. apply nq_vadd_lift. Qed.
Lemma tree_zeros_like_lift p : tree_zeros_like (vlift p) = vlift (vzero (length p)).
Proof. unfold tree_zeros_like, vlift, vzero. rewrite map_map. induction p; cbn; [reflexivity|]. f_equal. assumption. Qed.

(* T: the translated guard of tree_inverse_weight is WMean.inv_weight; in particular the
   coefficient is finite for every finite weight (no division by zero is ever evaluated) *)
Lemma gen_inverse_weight_spec p w :
  tree_inverse_weight (vlift p) (Some w) = vlift (rscale (inv_weight w) p).
Proof.
  unfold tree_inverse_weight.
  change (NanQ.where_ (NanQ.gtb (Some w) (NanQ.of_Q (0 # 1))) (NanQ.div (NanQ.of_Q (1 # 1)) (Some w)) (NanQ.of_Q (0 # 1)))
    with (nq_inv_weight (Some w)).
  rewrite nq_inv_weight_Some. apply tree_weight_lift.
Qed.

(* python dicts with distinct keys *)
Lemma dict_set_fresh {V} (d : list (Z * V)) k v : ~ In k (map fst d) -> dict_set d k v = d ++ [(k, v)].
Proof.
  induction d as [|[k' v'] d IH]; cbn; intros H; [reflexivity|].
  destruct (Z.eqb_spec k' k) as [->|N]; [exfalso; apply H; left; reflexivity|].
  rewrite IH by (intros I; apply H; right; exact I). reflexivity.
Qed.

Lemma dict_fold_nodup {V} (l : list (Z * V)) : forall acc, NoDup (map fst (acc ++ l)) ->
  fold_left (fun d kv => dict_set d (fst kv) (snd kv)) l acc = acc ++ l.
Proof.
  induction l as [|[k v] l IH]; intros acc H; cbn; [rewrite app_nil_r; reflexivity|].
  rewrite dict_set_fresh.
  - rewrite IH; rewrite <- app_assoc; [reflexivity|exact H].
  - rewrite map_app in H. cbn in H. apply NoDup_remove_2 in H. intros I. apply H. apply in_or_app. left; exact I.
Qed.

Lemma dict_of_nodup {V} (l : list (Z * V)) : NoDup (map fst l) -> dict_of l = l.
Proof. intros H. unfold dict_of. rewrite dict_fold_nodup; [reflexivity|exact H]. Qed.

Lemma dict_get_in {V} (l : list (Z * V)) k v : NoDup (map fst l) -> In (k, v) l -> dict_get l k = Some v.
Proof.
  induction l as [|[k' v'] l IH]; cbn; intros ND I; [contradiction|].
  inversion ND as [|? ? Hn ND']; subst.
  destruct I as [E|I].
  - injection E as -> ->. rewrite Z.eqb_refl. reflexivity.
  - destruct (Z.eqb_spec k' k) as [->|N]; [|apply IH; assumption].
    exfalso. apply Hn. apply (in_map fst) in I. exact I.
Qed.

(* ------------------------------------------------------------------ *)
(* Part 1: the mirror over NanQ trees on finite inputs *)

Definition qstep (nums : list (Z * Z)) (acc : list Q * Q) (out : Z * list Q) : list Q * Q :=
  let n := inject_Z (num_of nums (fst out)) in (vadd (fst acc) (rscale n (snd out)), snd acc + n).
Definition dstep (dg : list (Z * Q)) (out : Z * list Q) : list (Z * Q) := dict_set dg (fst out) (sumsq (snd out)).

Lemma apply_fold_lift nums outputs : forall a s dg,
  fold_left (apply_step nums) outputs (vlift a, Some s, dg) =
  (vlift (fst (fold_left (qstep nums) outputs (a, s))), Some (snd (fold_left (qstep nums) outputs (a, s))),
   fold_left dstep outputs dg).
Proof.
  induction outputs as [|[id d] outputs IH]; intros a s dg; [reflexivity|].
  cbn [fold_left]. unfold apply_step at 2. unfold NanQ.of_Z.
  rewrite tree_weight_lift, tree_add_lift. cbn [NanQ.add NanQ.lift2]. rewrite IH. reflexivity.
Qed.

Section Abstract.
Context {K B CS OS : Type}.
Variable cinit : list Q -> K -> CS.
Variable cstep : CS -> B -> CS.
Variable cparams : CS -> list Q.
Variable sopt : list Q -> OS -> list Q -> OS * list Q.

Notation client := (@client K B).
Notation run_client := (run_client cinit cstep cparams).
Notation train_for_each_client := (train_for_each_client cinit cstep cparams).
Notation fedavg_apply := (fedavg_apply cinit cstep cparams sopt).
Notation fedavg_run := (fedavg_run cinit cstep cparams sopt).

(* the mean delta that reaches the server optimizer, as a Q computation *)
Definition mean_of (params : list Q) (nums : list (Z * Z)) (outputs : list (Z * list Q)) : list Q :=
  let acc := fold_left (qstep nums) outputs (vzero (length params), 0) in
  rscale (inv_weight (snd acc)) (fst acc).

Lemma apply_from_outputs_eq params os nums outputs :
  apply_from_outputs sopt params os nums outputs =
  Some (snd (sopt (mean_of params nums outputs) os params), fst (sopt (mean_of params nums outputs) os params),
        fold_left dstep outputs []).
Proof.
  unfold apply_from_outputs. rewrite tree_zeros_like_lift.
  change (NanQ.of_Q 0) with (Some 0). rewrite apply_fold_lift.
  rewrite gen_inverse_weight_spec, unlift_vlift. fold (mean_of params nums outputs).
  destruct (sopt (mean_of params nums outputs) os params). reflexivity.
Qed.

(* ---------------- Part 2: the weighted mean ---------------- *)
(* the weighted client list of a round: (example count, delta) *)
Definition deltas (params : list Q) (clients : list client) : list (Q * list Q) :=
  map (fun c => (inject_Z (c_n c), run_client params c)) clients.
Definition wcl (nums : list (Z * Z)) (outputs : list (Z * list Q)) : list (Q * list Q) :=
  map (fun o => (inject_Z (num_of nums (fst o)), snd o)) outputs.

Lemma qfold_split nums outputs : forall a s,
  fold_left (qstep nums) outputs (a, s) =
  (fold_left vadd (map (fun o => rscale (inject_Z (num_of nums (fst o))) (snd o)) outputs) a,
   fold_left Qplus (map (fun o => inject_Z (num_of nums (fst o))) outputs) s).
Proof.
  induction outputs as [|o outputs IH]; intros a s; cbn [fold_left map]; [reflexivity|].
  rewrite (surjective_pairing (qstep nums (a, s) o)), IH. reflexivity.
Qed.

Lemma mean_of_wmean d params nums outputs : length params = d ->
  Forall (fun o => length (snd o) = d) outputs ->
  mean_of params nums outputs =v= wmean_batch d (wcl nums outputs).
Proof.
  intros Hp Hl. unfold mean_of. cbv zeta. rewrite qfold_split. cbn [fst snd]. rewrite Hp.
  rewrite rscale_vscale. unfold wmean_batch.
  apply vscale_proper.
  - apply inv_weight_proper. rewrite fold_left_Qplus. unfold wtot, wcl. rewrite map_map. cbn [fst]. ring.
  - unfold wsum, vsum. apply (mfold_Forall2 (vec_cmonoid d)).
    + unfold wcl. rewrite map_map. clear Hl. induction outputs as [|o outputs IH]; cbn; constructor; [|exact IH].
      unfold wp. cbn [fst snd]. apply rscale_vscale.
    + apply Forall_map. eapply Forall_impl; [|exact Hl]. intros o Ho. cbn beta. rewrite rscale_length. exact Ho.
Qed.

Lemma num_of_client (clients : list client) (c : client) : NoDup (map c_id clients) -> In c clients ->
  num_of (client_num_examples clients) (c_id c) = c_n c.
Proof.
  intros ND I. unfold num_of, client_num_examples.
  assert (ND' : NoDup (map fst (map (fun c : client => (c_id c, c_n c)) clients))) by (rewrite map_map; exact ND).
  rewrite dict_of_nodup by exact ND'.
  rewrite (dict_get_in _ (c_id c) (c_n c) ND'); [reflexivity|].
  apply in_map_iff. exists c. split; [reflexivity|exact I].
Qed.

Lemma wcl_deltas params clients : NoDup (map c_id clients) ->
  wcl (client_num_examples clients) (train_for_each_client params clients) = deltas params clients.
Proof.
  intros ND. unfold wcl, train_for_each_client, deltas. rewrite map_map. apply map_ext_in.
  intros c I. cbn [fst snd]. rewrite num_of_client by assumption. reflexivity.
Qed.

Lemma diag_nodup (outputs : list (Z * list Q)) : NoDup (map fst outputs) ->
  fold_left dstep outputs [] = map (fun o => (fst o, sumsq (snd o))) outputs.
Proof.
  intros ND.
  assert (E : fold_left dstep outputs [] = dict_of (map (fun o => (fst o, sumsq (snd o))) outputs)).
  { unfold dict_of. generalize (@nil (Z * Q)). induction outputs as [|o outputs IH]; intros acc; cbn; [reflexivity|].
    inversion ND; subst. rewrite IH by assumption. reflexivity. }
  rewrite E. apply dict_of_nodup. rewrite map_map. exact ND.
Qed.

Definition wf_round (d : nat) (params : list Q) (clients : list client) : Prop :=
  NoDup (map c_id clients) /\ length params = d /\ Forall (fun c => length (run_client params c) = d) clients.

Lemma deltas_wf d params clients : Forall (fun c => length (run_client params c) = d) clients ->
  wf_clients d (deltas params clients).
Proof. intros H. unfold wf_clients, deltas. apply Forall_map. exact H. Qed.

(* C01_round_is_weighted_mean *)
Lemma round_is_weighted_mean d params os clients : wf_round d params clients ->
  exists g, g =v= wmean_batch d (deltas params clients) /\
    fedavg_apply (params, os) clients =
    Some (snd (sopt g os params), fst (sopt g os params),
          map (fun c => (c_id c, sumsq (run_client params c))) clients).
Proof.
  intros [ND [Hp Hl]]. unfold C01_Model.fedavg_apply. cbn [fst snd]. rewrite apply_from_outputs_eq.
  eexists. split; [|f_equal; f_equal].
  - rewrite <- (wcl_deltas params clients ND). apply mean_of_wmean; [exact Hp|].
    unfold C01_Model.train_for_each_client. apply Forall_map. exact Hl.
  - rewrite diag_nodup by (unfold C01_Model.train_for_each_client; rewrite map_map; exact ND).
    unfold C01_Model.train_for_each_client. rewrite map_map. reflexivity.
Qed.

(* the literal definition: sum n_i delta_i / sum n_i when some example was seen *)
Lemma round_mean_formula d params clients : wf_round d params clients ->
  0 < wtot (deltas params clients) ->
  forall i, (i < d)%nat ->
    vnth i (wmean_batch d (deltas params clients)) ==
    qsum (map (fun c => inject_Z (c_n c) * vnth i (run_client params c)) clients) /
    qsum (map (fun c => inject_Z (c_n c)) clients).
Proof.
  intros [ND [Hp Hl]] Hpos i Hi.
  rewrite (proj2 (wmean_def d _ (deltas_wf d params clients Hl) Hpos) i Hi).
  unfold wcoord, wtot, deltas. rewrite !map_map. reflexivity.
Qed.

(* never NaN: apply always returns a state, whatever the clients *)
Lemma apply_total st clients : exists r, fedavg_apply st clients = Some r.
Proof. unfold C01_Model.fedavg_apply. rewrite apply_from_outputs_eq. eexists; reflexivity. Qed.

(* exactly one diagnostics entry per participating client, in call order *)
Lemma one_diag_per_client st clients p os dg : NoDup (map c_id clients) ->
  fedavg_apply st clients = Some (p, os, dg) ->
  map fst dg = map c_id clients /\ length dg = length clients /\ NoDup (map fst dg).
Proof.
  intros ND H. unfold C01_Model.fedavg_apply in H. rewrite apply_from_outputs_eq in H. injection H as _ _ <-.
  rewrite diag_nodup by (unfold C01_Model.train_for_each_client; rewrite map_map; exact ND).
  unfold C01_Model.train_for_each_client. rewrite !map_map. cbn [fst].
  split; [reflexivity|]. split; [rewrite map_length; reflexivity|exact ND].
Qed.

(* backend independence: any for_each_client whose outputs are a permutation of the
   sequential outputs (the C02 specification) gives an equal mean, hence the same round *)
Lemma wcl_perm nums o o' : Permutation o o' -> Permutation (wcl nums o) (wcl nums o').
Proof. apply Permutation_map. Qed.

Lemma mean_of_perm d params nums o o' : length params = d -> Forall (fun x => length (snd x) = d) o ->
  Permutation o o' -> mean_of params nums o =v= mean_of params nums o'.
Proof.
  intros Hp Hl P.
  assert (Hl' : Forall (fun x => length (snd x) = d) o') by (eapply Permutation_Forall; eassumption).
  rewrite (mean_of_wmean d params nums o Hp Hl), (mean_of_wmean d params nums o' Hp Hl').
  apply wmean_perm; [apply wcl_perm; exact P|].
  unfold wf_clients, wcl. apply Forall_map. exact Hl.
Qed.

Lemma backend_independent d params os clients outputs : wf_round d params clients ->
  Permutation outputs (train_for_each_client params clients) ->
  exists g g', g =v= g' /\
    apply_from_outputs sopt params os (client_num_examples clients) outputs =
      Some (snd (sopt g os params), fst (sopt g os params), fold_left dstep outputs []) /\
    fedavg_apply (params, os) clients =
      Some (snd (sopt g' os params), fst (sopt g' os params),
            map (fun c => (c_id c, sumsq (run_client params c))) clients) /\
    Permutation (fold_left dstep outputs []) (map (fun c => (c_id c, sumsq (run_client params c))) clients).
Proof.
  intros [ND [Hp Hl]] P.
  assert (Hlo : Forall (fun x => length (snd x) = d) (train_for_each_client params clients))
    by (unfold C01_Model.train_for_each_client; apply Forall_map; exact Hl).
  assert (Hlo' : Forall (fun x => length (snd x) = d) outputs)
    by (eapply Permutation_Forall; [apply Permutation_sym; exact P|exact Hlo]).
  exists (mean_of params (client_num_examples clients) outputs),
         (mean_of params (client_num_examples clients) (train_for_each_client params clients)).
  split; [apply (mean_of_perm d); assumption|].
  split; [apply apply_from_outputs_eq|].
  assert (NDo : NoDup (map fst (train_for_each_client params clients)))
    by (unfold C01_Model.train_for_each_client; rewrite map_map; exact ND).
  assert (NDo' : NoDup (map fst outputs))
    by (eapply Permutation_NoDup; [apply Permutation_map; apply Permutation_sym; exact P|exact NDo]).
  split.
  - unfold C01_Model.fedavg_apply. cbn [fst snd]. rewrite apply_from_outputs_eq. rewrite diag_nodup by exact NDo.
    unfold C01_Model.train_for_each_client. rewrite map_map. reflexivity.
  - rewrite diag_nodup by exact NDo'.
    eapply Permutation_trans; [apply Permutation_map; exact P|].
    unfold C01_Model.train_for_each_client. rewrite map_map. apply Permutation_refl.
Qed.

(* order independence of the mean *)
Lemma deltas_perm params clients clients' : Permutation clients clients' ->
  Permutation (deltas params clients) (deltas params clients').
Proof. apply Permutation_map. Qed.

Lemma wf_round_perm d params clients clients' : Permutation clients clients' ->
  wf_round d params clients -> wf_round d params clients'.
Proof.
  intros P [ND [Hp Hl]]. split; [|split; [exact Hp|eapply Permutation_Forall; eassumption]].
  eapply Permutation_NoDup; [apply Permutation_map; exact P|exact ND].
Qed.

Lemma order_independent d params os clients clients' : wf_round d params clients ->
  Permutation clients clients' ->
  exists g g' dg dg', g =v= g' /\ Permutation dg dg' /\
    fedavg_apply (params, os) clients = Some (snd (sopt g os params), fst (sopt g os params), dg) /\
    fedavg_apply (params, os) clients' = Some (snd (sopt g' os params), fst (sopt g' os params), dg').
Proof.
  intros W P. pose proof (wf_round_perm d params _ _ P W) as W'.
  destruct (round_is_weighted_mean d params os clients W) as [g [Eg Hg]].
  destruct (round_is_weighted_mean d params os clients' W') as [g' [Eg' Hg']].
  exists g, g', (map (fun c => (c_id c, sumsq (run_client params c))) clients),
                (map (fun c => (c_id c, sumsq (run_client params c))) clients').
  split; [|split; [apply Permutation_map; exact P|split; assumption]].
  rewrite Eg, Eg'. destruct W as [_ [_ Hl]].
  apply wmean_perm; [apply deltas_perm; exact P|apply deltas_wf; exact Hl].
Qed.

(* zero-example clients carry zero weight *)
Definition has_examples (c : client) : bool := negb (Z.eqb (c_n c) 0).

Lemma filter_deltas params clients :
  filter nonzero_weight (deltas params clients) = deltas params (filter has_examples clients).
Proof.
  unfold deltas. induction clients as [|c clients IH]; cbn; [reflexivity|].
  assert (E : nonzero_weight (inject_Z (c_n c), run_client params c) = has_examples c).
  { unfold nonzero_weight, has_examples. cbn [fst]. f_equal.
    destruct (Z.eqb_spec (c_n c) 0) as [->|N]; [reflexivity|].
    apply Qeq_bool_false_iff. unfold Qeq. cbn. lia. }
  rewrite E. destruct (has_examples c); cbn; rewrite IH; reflexivity.
Qed.

Lemma wf_round_filter d params clients f : wf_round d params clients -> wf_round d params (filter f clients).
Proof.
  intros [ND [Hp Hl]]. split; [|split; [exact Hp|]].
  - clear Hl. induction clients as [|c clients IH]; cbn; [constructor|].
    inversion ND as [|? ? Hn ND']; subst. destruct (f c); cbn; [constructor|]; auto.
    intros I. apply Hn. apply in_map_iff in I. destruct I as [x [E I]]. apply filter_In in I.
    apply in_map_iff. exists x. tauto.
  - rewrite Forall_forall in *. intros c I. apply filter_In in I. apply Hl. tauto.
Qed.

Lemma zero_example_clients_weightless d params os clients : wf_round d params clients ->
  exists g g' dg dg', g =v= g' /\
    fedavg_apply (params, os) clients = Some (snd (sopt g os params), fst (sopt g os params), dg) /\
    fedavg_apply (params, os) (filter has_examples clients) =
      Some (snd (sopt g' os params), fst (sopt g' os params), dg').
Proof.
  intros W. pose proof (wf_round_filter d params clients has_examples W) as W'.
  destruct (round_is_weighted_mean d params os clients W) as [g [Eg Hg]].
  destruct (round_is_weighted_mean d params os _ W') as [g' [Eg' Hg']].
  do 4 eexists. split; [|split; eassumption].
  rewrite Eg, Eg', <- filter_deltas. symmetry. apply wmean_zero_weight_irrelevant.
  destruct W as [_ [_ Hl]]. apply deltas_wf. exact Hl.
Qed.

(* a round that saw no example: the mean delta is the zero vector *)
Lemma empty_round_mean_zero d params os clients : wf_round d params clients ->
  Forall (fun c => c_n c = 0%Z) clients ->
  exists g, g =v= vzero d /\
    fedavg_apply (params, os) clients =
    Some (snd (sopt g os params), fst (sopt g os params), map (fun c => (c_id c, sumsq (run_client params c))) clients).
Proof.
  intros W HZ. destruct (round_is_weighted_mean d params os clients W) as [g [Eg Hg]].
  exists g. split; [|exact Hg]. rewrite Eg. destruct W as [_ [_ Hl]].
  apply wmean_zero_total; [apply deltas_wf; exact Hl|].
  unfold wtot, deltas. rewrite map_map. cbn [fst].
  assert (E : qsum (map (fun c : client => inject_Z (c_n c)) clients) == 0).
  { clear - HZ. induction HZ as [|c clients Hc _ IH]; cbn; [reflexivity|]. rewrite Hc, IH. reflexivity. }
  rewrite E. apply Qle_refl.
Qed.

(* ---------------- Part 3: multi-round runs ---------------- *)
Lemma run_total cohorts : forall st, exists r, fedavg_run st cohorts = Some r.
Proof.
  induction cohorts as [|cl cohorts IH]; intros st; cbn; [eexists; reflexivity|].
  destruct (apply_total st cl) as [[[p os] dg] ->]. destruct (IH (p, os)) as [[[p' os'] dgs] ->].
  eexists; reflexivity.
Qed.

(* the specification of a run: every round applies the server optimizer to the
   weighted mean of that round's deltas, computed from that round's parameters *)
Inductive run_spec (d : nat) : list Q * OS -> list (list client) -> list Q * OS -> Prop :=
| run_nil st : run_spec d st [] st
| run_cons p os clients rest g final :
    g =v= wmean_batch d (deltas p clients) ->
    run_spec d (snd (sopt g os p), fst (sopt g os p)) rest final ->
    run_spec d (p, os) (clients :: rest) final.

Hypothesis local_length : forall p k bs, length (cparams (fold_left cstep bs (cinit p k))) = length p.
Hypothesis sopt_length : forall g s p, length g = length p -> length (snd (sopt g s p)) = length p.

Lemma run_client_length p c : length (run_client p c) = length p.
Proof. unfold C01_Model.run_client, client_final. apply vsub_length; [reflexivity|apply local_length]. Qed.

Lemma wf_round_intro p clients : NoDup (map c_id clients) -> wf_round (length p) p clients.
Proof.
  intros ND. split; [exact ND|split; [reflexivity|]]. apply Forall_forall. intros c _. apply run_client_length.
Qed.

Lemma multi_round cohorts : forall p os, Forall (fun cl => NoDup (map c_id cl)) cohorts ->
  exists p' os' dgs, fedavg_run (p, os) cohorts = Some (p', os', dgs) /\
    run_spec (length p) (p, os) cohorts (p', os') /\ length p' = length p /\
    Forall2 (fun cl dg => map fst dg = map c_id cl) cohorts dgs.
Proof.
  induction cohorts as [|cl cohorts IH]; intros p os H; cbn.
  - exists p, os, []. repeat split; constructor.
  - inversion H as [|? ? ND H']; subst.
    destruct (round_is_weighted_mean (length p) p os cl (wf_round_intro p cl ND)) as [g [Eg Hg]].
    rewrite Hg.
    assert (Lg : length g = length p).
    { rewrite (veq_length _ _ Eg). apply wmean_batch_length. apply deltas_wf.
      apply Forall_forall. intros c _. apply run_client_length. }
    pose proof (sopt_length g os p Lg) as Lp.
    destruct (IH (snd (sopt g os p)) (fst (sopt g os p)) H') as [p' [os' [dgs [Hr [Hs [Lp' Hd]]]]]].
    rewrite Hr. exists p', os', (map (fun c => (c_id c, sumsq (run_client p c))) cl :: dgs).
    split; [reflexivity|]. split; [|split; [congruence|]].
    + econstructor; [exact Eg|]. rewrite <- Lp. exact Hs.
    + constructor; [rewrite map_map; reflexivity|exact Hd].
Qed.

(* order independence along a run needs the client program and the server optimizer to
   respect == on Q *)
Variable os_eq : OS -> OS -> Prop.
Hypothesis os_eq_equiv : Equivalence os_eq.
Hypothesis sopt_proper : forall g g' s s' p p', g =v= g' -> os_eq s s' -> p =v= p' ->
  os_eq (fst (sopt g s p)) (fst (sopt g' s' p')) /\ snd (sopt g s p) =v= snd (sopt g' s' p').
Hypothesis local_proper : forall p p' k bs, p =v= p' ->
  cparams (fold_left cstep bs (cinit p k)) =v= cparams (fold_left cstep bs (cinit p' k)).

Lemma run_client_proper p p' c : p =v= p' -> run_client p c =v= run_client p' c.
Proof. intros E. unfold C01_Model.run_client, client_final. apply vsub_proper; [exact E|apply local_proper; exact E]. Qed.

Lemma wmean_batch_Forall2 d cl cl' : wf_clients d cl ->
  Forall2 (fun c c' => fst c == fst c' /\ snd c =v= snd c') cl cl' ->
  wmean_batch d cl =v= wmean_batch d cl'.
Proof.
  intros Hwf H. unfold wmean_batch. apply vscale_proper.
  - apply inv_weight_proper. unfold wtot. apply qsum_Forall2.
    clear Hwf. induction H as [|c c' cl cl' [E _] _ IH]; cbn; constructor; assumption.
  - unfold wsum, vsum. apply (mfold_Forall2 (vec_cmonoid d)); [|apply wf_map_wp; exact Hwf].
    clear Hwf. induction H as [|c c' cl cl' [E1 E2] _ IH]; cbn; constructor; [|exact IH].
    unfold wp. apply vscale_proper; assumption.
Qed.

Lemma deltas_proper p p' clients : p =v= p' ->
  Forall2 (fun c c' => fst c == fst c' /\ snd c =v= snd c') (deltas p clients) (deltas p' clients).
Proof.
  intros E. unfold deltas. induction clients as [|c clients IH]; cbn; constructor; [|exact IH].
  cbn [fst snd]. split; [reflexivity|apply run_client_proper; exact E].
Qed.

Lemma run_order_independent cohorts : forall cohorts' p p' os os',
  Forall2 (@Permutation client) cohorts cohorts' ->
  Forall (fun cl => NoDup (map c_id cl)) cohorts -> p =v= p' -> os_eq os os' ->
  exists q s dgs q' s' dgs',
    fedavg_run (p, os) cohorts = Some (q, s, dgs) /\ fedavg_run (p', os') cohorts' = Some (q', s', dgs') /\
    q =v= q' /\ os_eq s s' /\
    Forall2 (fun dg dg' => Permutation (map fst dg) (map fst dg')) dgs dgs'.
Proof.
  induction cohorts as [|cl cohorts IH]; intros cohorts' p p' os os' P ND Ep Eo; inversion P as [|? cl' ? cohorts'' Pc P']; subst.
  - cbn. exists p, os, [], p', os', []. repeat split; try assumption. constructor.
  - inversion ND as [|? ? NDc ND']; subst.
    assert (NDc' : NoDup (map c_id cl')) by (eapply Permutation_NoDup; [apply Permutation_map; exact Pc|exact NDc]).
    destruct (round_is_weighted_mean (length p) p os cl (wf_round_intro p cl NDc)) as [g [Eg Hg]].
    destruct (round_is_weighted_mean (length p') p' os' cl' (wf_round_intro p' cl' NDc')) as [g' [Eg' Hg']].
    assert (Egg : g =v= g').
    { rewrite Eg, Eg'. rewrite <- (veq_length _ _ Ep).
      assert (Hw : wf_clients (length p) (deltas p cl)).
      { apply deltas_wf. apply Forall_forall. intros c _. apply run_client_length. }
      etransitivity; [apply wmean_perm; [apply deltas_perm; exact Pc|exact Hw]|].
      apply wmean_batch_Forall2; [|apply deltas_proper; exact Ep].
      eapply Permutation_Forall; [apply deltas_perm; exact Pc|exact Hw]. }
    destruct (sopt_proper g g' os os' p p' Egg Eo Ep) as [Eo1 Ep1].
    destruct (IH cohorts'' _ _ _ _ P' ND' Ep1 Eo1) as [q [s [dgs [q' [s' [dgs' [H1 [H2 [Eq [Es Hd]]]]]]]]]].
    cbn [C01_Model.fedavg_run]. rewrite Hg, Hg', H1, H2.
    do 6 eexists. split; [reflexivity|]. split; [reflexivity|]. split; [exact Eq|]. split; [exact Es|].
    constructor; [|exact Hd]. rewrite !map_map. cbn [fst]. apply Permutation_map. exact Pc.
Qed.

End Abstract.

(* ------------------------------------------------------------------ *)
(* Part 4: the evaluated instance (least squares + optax.sgd) satisfies the hypotheses *)

Lemma vred_veq v : vred v =v= v.
Proof. induction v as [|x v IH]; cbn; constructor; [apply Qred_correct|exact IH]. Qed.
Lemma vred_length v : length (vred v) = length v.
Proof. apply map_length. Qed.

Lemma fit_length n x : length (fit n x) = n.
Proof. unfold fit. rewrite map_length, seq_length. reflexivity. Qed.

Lemma fit_id x : fit (length x) x = x.
Proof.
  unfold fit. apply (nth_ext _ _ 0 0); [rewrite map_length, seq_length; reflexivity|].
  intros i Hi. rewrite map_length, seq_length in Hi.
  rewrite (nth_indep _ 0 (vnth (0%nat) x)) by (rewrite map_length, seq_length; exact Hi).
  rewrite (map_nth (fun i => vnth i x) (seq 0 (length x)) 0%nat i). rewrite seq_nth by exact Hi. reflexivity.
Qed.

Lemma vnth_proper i x x' : x =v= x' -> vnth i x == vnth i x'.
Proof.
  intros E. apply veq_nth_iff in E. destruct E as [L E].
  destruct (Nat.lt_ge_cases i (length x)) as [H|H]; [apply E; exact H|].
  unfold vnth. rewrite !nth_overflow by lia. reflexivity.
Qed.

Lemma fit_proper n x x' : x =v= x' -> fit n x =v= fit n x'.
Proof.
  intros E. unfold fit. induction (seq 0 n) as [|i l IH]; cbn; constructor; [apply vnth_proper; exact E|exact IH].
Qed.

Lemma vdot_proper a a' b b' : a =v= a' -> b =v= b' -> vdot a b == vdot a' b'.
Proof.
  intros Ea. revert b b'. induction Ea as [|x x' a a' Ex Ea IH]; intros b b' Eb; [reflexivity|].
  destruct Eb as [|y y' b b' Ey Eb]; [reflexivity|]. unfold vdot in *. cbn. rewrite Ex, Ey, (IH b b' Eb). reflexivity.
Qed.

Lemma const_map_veq (nu : Q) a a' : a =v= a' -> map (fun _ => nu) a =v= map (fun _ => nu) a'.
Proof. induction 1; cbn; constructor; [reflexivity|assumption]. Qed.

Lemma ex_grad_length w e : length (ex_grad w e) = length w.
Proof. unfold ex_grad. rewrite vscale_length. apply fit_length. Qed.

Lemma ex_grad_proper w w' e : w =v= w' -> ex_grad w e =v= ex_grad w' e.
Proof.
  intros E. unfold ex_grad. rewrite (veq_length _ _ E). apply vscale_proper; [|reflexivity].
  rewrite (vdot_proper w w' (fst e) (fst e) E); reflexivity.
Qed.

Lemma batch_grad_length w batch nu : length (batch_grad w batch nu) = length w.
Proof.
  unfold batch_grad. rewrite vred_length. apply vadd_length; [|apply map_length].
  rewrite vscale_length. apply vsum_length. apply Forall_map. apply Forall_forall. intros e _. apply ex_grad_length.
Qed.

Lemma batch_grad_proper w w' batch nu : w =v= w' -> batch_grad w batch nu =v= batch_grad w' batch nu.
Proof.
  intros E. unfold batch_grad. rewrite !vred_veq. apply vadd_proper; [|apply const_map_veq; exact E].
  apply vscale_proper; [reflexivity|]. rewrite <- (veq_length _ _ E). unfold vsum.
  apply (mfold_Forall2 (vec_cmonoid (length w))).
  - induction batch as [|e batch IH]; cbn; constructor; [apply ex_grad_proper; exact E|exact IH].
  - apply Forall_map. apply Forall_forall. intros e _. apply ex_grad_length.
Qed.

Lemma sgd_apply_length o g t p : length g = length p ->
  length (fst (sgd_apply o g t p)) = length p /\ length (snd (sgd_apply o g t p)) = length p.
Proof.
  intros L. unfold sgd_apply. cbn [fst snd]. rewrite !vred_length.
  assert (Lt : length (vadd g (vscale (o_mom o) (fit (length g) t))) = length p).
  { apply vadd_length; [exact L|]. rewrite vscale_length, fit_length. exact L. }
  split; [exact Lt|]. apply vadd_length; [reflexivity|]. rewrite vscale_length.
  destruct (o_nesterov o); [|exact Lt].
  apply vadd_length; [exact L|]. rewrite vscale_length. exact Lt.
Qed.

Lemma sgd_apply_proper o g g' t t' p p' : g =v= g' -> t =v= t' -> p =v= p' ->
  fst (sgd_apply o g t p) =v= fst (sgd_apply o g' t' p') /\ snd (sgd_apply o g t p) =v= snd (sgd_apply o g' t' p').
Proof.
  intros Eg Et Ep. unfold sgd_apply. cbn [fst snd]. rewrite !vred_veq.
  assert (E1 : vadd g (vscale (o_mom o) (fit (length g) t)) =v= vadd g' (vscale (o_mom o) (fit (length g') t'))).
  { rewrite (veq_length _ _ Eg). apply vadd_proper; [exact Eg|]. apply vscale_proper; [reflexivity|]. apply fit_proper. exact Et. }
  split; [exact E1|]. apply vadd_proper; [exact Ep|]. apply vscale_proper; [reflexivity|].
  destruct (o_nesterov o); [|exact E1].
  apply vadd_proper; [exact Eg|]. apply vscale_proper; [reflexivity|exact E1].
Qed.

(* client program *)
Definition ls_eq (a b : ls_state) : Prop :=
  s_params a =v= s_params b /\ s_trace a =v= s_trace b /\ s_rng a = s_rng b.

Lemma ls_step_length co st batch : length (s_params (ls_step co st batch)) = length (s_params st).
Proof.
  unfold ls_step. destruct (split_key (s_rng st)) as [rng nu].
  pose proof (sgd_apply_length co (batch_grad (s_params st) batch nu) (s_trace st) (s_params st)
                (batch_grad_length _ _ _)) as [_ L].
  destruct (sgd_apply co (batch_grad (s_params st) batch nu) (s_trace st) (s_params st)). exact L.
Qed.

Lemma ls_step_proper co st st' batch : ls_eq st st' -> ls_eq (ls_step co st batch) (ls_step co st' batch).
Proof.
  intros [Ep [Et Er]]. unfold ls_step. rewrite <- Er. destruct (split_key (s_rng st)) as [rng nu].
  pose proof (sgd_apply_proper co _ _ _ _ _ _ (batch_grad_proper _ _ batch nu Ep) Et Ep) as [E1 E2].
  destruct (sgd_apply co (batch_grad (s_params st) batch nu) (s_trace st) (s_params st)).
  destruct (sgd_apply co (batch_grad (s_params st') batch nu) (s_trace st') (s_params st')).
  split; [exact E2|split; [exact E1|reflexivity]].
Qed.

Lemma ls_local_length co p k bs : length (s_params (fold_left (ls_step co) bs (ls_init co p k))) = length p.
Proof.
  assert (G : forall st, length (s_params (fold_left (ls_step co) bs st)) = length (s_params st)).
  { induction bs as [|b bs IH]; intros st; cbn; [reflexivity|]. rewrite IH. apply ls_step_length. }
  rewrite G. reflexivity.
Qed.

Lemma ls_local_proper co p p' k bs : p =v= p' ->
  s_params (fold_left (ls_step co) bs (ls_init co p k)) =v= s_params (fold_left (ls_step co) bs (ls_init co p' k)).
Proof.
  intros E.
  assert (G : forall st st', ls_eq st st' -> ls_eq (fold_left (ls_step co) bs st) (fold_left (ls_step co) bs st')).
  { induction bs as [|b bs IH]; intros st st' H; cbn; [exact H|]. apply IH. apply ls_step_proper. exact H. }
  apply G. unfold ls_eq, ls_init. cbn. rewrite (veq_length _ _ E). repeat split; [exact E|reflexivity].
Qed.

(* server optimizer *)
Definition srv_eq (a b : srv_state) : Prop := fst a =v= fst b /\ snd a =v= snd b.

Lemma srv_eq_equiv : Equivalence srv_eq.
Proof.
  split.
  - intros a. split; reflexivity.
  - intros a b [H1 H2]. split; symmetry; assumption.
  - intros a b c [H1 H2] [H3 H4]. split; etransitivity; eassumption.
Qed.

Lemma srv_sgd_length o g s p : length g = length p -> length (snd (srv_sgd o g s p)) = length p.
Proof.
  intros L. unfold srv_sgd. pose proof (sgd_apply_length o g (fst s) p L) as [_ L2].
  destruct (sgd_apply o g (fst s) p). exact L2.
Qed.

Lemma srv_sgd_proper o g g' s s' p p' : g =v= g' -> srv_eq s s' -> p =v= p' ->
  srv_eq (fst (srv_sgd o g s p)) (fst (srv_sgd o g' s' p')) /\ snd (srv_sgd o g s p) =v= snd (srv_sgd o g' s' p').
Proof.
  intros Eg [Et _] Ep. unfold srv_sgd. pose proof (sgd_apply_proper o _ _ _ _ _ _ Eg Et Ep) as [E1 E2].
  destruct (sgd_apply o g (fst s) p). destruct (sgd_apply o g' (fst s') p').
  cbn [fst snd] in *. repeat split; assumption.
Qed.

Lemma vadd_zeros n : vadd (vzero n) (vzero n) =v= vzero n.
Proof. induction n; cbn; constructor; [ring|exact IHn]. Qed.

(* plain SGD on the zero gradient leaves the parameters unchanged *)
Lemma srv_sgd_zero o g s p : o_mom o == 0 -> length p = length g -> g =v= vzero (length g) ->
  snd (srv_sgd o g s p) =v= p.
Proof.
  intros Hm L Z. unfold srv_sgd, sgd_apply. cbn [fst snd]. rewrite !vred_veq.
  assert (Zs : forall x, length x = length g -> vscale (o_mom o) x =v= vzero (length g)).
  { intros x Lx. rewrite Hm, vscale_0, Lx. reflexivity. }
  assert (T : vadd g (vscale (o_mom o) (fit (length g) (fst s))) =v= vzero (length g)).
  { rewrite (Zs _ (fit_length _ _)). rewrite Z at 1. apply vadd_zeros. }
  assert (U : (if o_nesterov o then vadd g (vscale (o_mom o) (vadd g (vscale (o_mom o) (fit (length g) (fst s)))))
               else vadd g (vscale (o_mom o) (fit (length g) (fst s)))) =v= vzero (length g)).
  { destruct (o_nesterov o); [|exact T].
    rewrite Zs by (rewrite (veq_length _ _ T), vzero_length; reflexivity).
    rewrite Z at 1. apply vadd_zeros. }
  rewrite U, vscale_vzero, <- L. apply vadd_zero_r.
Qed.

(* the instantiated statements *)
Lemma ls_round_is_weighted_mean co srv params os clients : NoDup (map c_id clients) ->
  exists g, g =v= wmean_batch (length params) (deltas (ls_init co) (ls_step co) s_params params clients) /\
    ls_apply co srv (params, os) clients =
    Some (snd (srv g os params), fst (srv g os params),
          map (fun c => (c_id c, sumsq (run_client (ls_init co) (ls_step co) s_params params c))) clients).
Proof.
  intros ND. apply round_is_weighted_mean. apply wf_round_intro; [apply ls_local_length|exact ND].
Qed.

Lemma ls_empty_round_identity_sgd co so params os clients : NoDup (map c_id clients) ->
  o_mom so == 0 -> Forall (fun c => c_n c = 0%Z) clients ->
  exists p' os' dg, ls_apply co (srv_sgd so) (params, os) clients = Some (p', os', dg) /\ p' =v= params.
Proof.
  intros ND Hm HZ.
  destruct (empty_round_mean_zero (ls_init co) (ls_step co) s_params (srv_sgd so) (length params) params os clients
              (wf_round_intro _ _ _ (ls_local_length co) params clients ND) HZ) as [g [Eg Hg]].
  do 3 eexists. split; [exact Hg|].
  assert (Lg : length g = length params) by (rewrite (veq_length _ _ Eg); apply vzero_length).
  apply srv_sgd_zero; [exact Hm|congruence|rewrite Lg; exact Eg].
Qed.

Lemma ls_multi_round co so cohorts p os : Forall (fun cl => NoDup (map c_id cl)) cohorts ->
  exists p' os' dgs, ls_run co so (p, os) cohorts = Some (p', os', dgs) /\
    run_spec (ls_init co) (ls_step co) s_params (srv_sgd so) (length p) (p, os) cohorts (p', os') /\
    length p' = length p /\ Forall2 (fun cl dg => map fst dg = map c_id cl) cohorts dgs.
Proof. apply multi_round; [apply ls_local_length|apply srv_sgd_length]. Qed.

Lemma ls_run_order_independent co so cohorts cohorts' p os :
  Forall2 (@Permutation _) cohorts cohorts' -> Forall (fun cl => NoDup (map c_id cl)) cohorts ->
  exists q s dgs q' s' dgs',
    ls_run co so (p, os) cohorts = Some (q, s, dgs) /\ ls_run co so (p, os) cohorts' = Some (q', s', dgs') /\
    q =v= q' /\ srv_eq s s' /\ Forall2 (fun dg dg' => Permutation (map fst dg) (map fst dg')) dgs dgs'.
Proof.
  intros P ND. unfold ls_run.
  eapply run_order_independent; try eassumption.
  - apply ls_local_length.
  - apply srv_sgd_proper.
  - apply ls_local_proper.
  - reflexivity.
  - apply srv_eq_equiv.
Qed.
