(* C09 proofs: every directory reachable through any crash history satisfies the
   invariant "each file whose name passes the checkpoint filter is complete and
   holds the state of the round its name encodes"; a run from such a directory
   completes with the state and final-evaluation output of the uninterrupted run. *)
From Coq Require Import ZArith List Bool Lia Sorting.Permutation.
From FV Require Import Common.ListX Common.PySem Common.PyStr Common.AtomFS
  gen.Gen_checkpoint gen.Gen_federated_experiment gen.Gen_state_io Model.C09_Model.
Import ListNotations.
Local Open Scope Z_scope.

Lemma str_eqb_spec a b : str_eqb a b = true <-> a = b.
Proof. apply list_beq_eq. intros; apply Z.eqb_eq. Qed.

Lemma In_firstn' {A} (x : A) : forall n l, In x (firstn n l) -> In x l.
Proof. induction n as [|n IH]; intros [|y l] H; cbn in *; try tauto. destruct H; [now left|right; now apply IH]. Qed.

(* ---- names ---------------------------------------------------------------- *)

Definition matched (n : str) : bool := ckpt_path_matches base n.
Definition keyf (path : str) : Z := match ckpt_sort_key base path with Some k => k | None => 0 end.

Lemma filter_glob_matched l :
  filter (ckpt_path_matches base) (filter (ckpt_glob_matches base) l) = filter matched l.
Proof.
  induction l as [|x l IH]; [reflexivity|]. cbn [filter]. unfold matched at 1.
  unfold ckpt_path_matches at 2, ckpt_glob_matches at 1.
  destruct (is_prefix base x) eqn:E; cbn [andb filter].
  - unfold ckpt_path_matches at 1. rewrite E. cbn [andb]. destruct (ckpt_suffix_ok _); [f_equal|]; exact IH.
  - exact IH.
Qed.

Lemma suffix_ok_digits s : ckpt_suffix_ok s = true -> length s = 8%nat /\ forallb is_digit s = true.
Proof.
  unfold ckpt_suffix_ok. intros H. apply andb_true_iff in H. destruct H as [H1 H2].
  apply Z.eqb_eq in H1. split; [lia|exact H2].
Qed.

Lemma digits_no_c s : forallb is_digit s = true -> ~ In 99 s.
Proof.
  intros H HI. rewrite forallb_forall in H. apply H in HI. unfold is_digit in HI.
  apply andb_true_iff in HI. destruct HI as [_ HI]. apply Z.leb_le in HI. lia.
Qed.

Lemma matched_shape n : matched n = true ->
  exists s, n = base ++ s /\ length s = 8%nat /\ forallb is_digit s = true.
Proof.
  unfold matched, ckpt_path_matches. intros H. apply andb_true_iff in H. destruct H as [H1 H2].
  apply is_prefix_true in H1. apply suffix_ok_digits in H2. eexists. split; [exact H1|exact H2].
Qed.

Lemma key_of_shape s : length s = 8%nat -> forallb is_digit s = true ->
  ckpt_sort_key base (base ++ s) = Some (digits_val s).
Proof.
  intros Hl Hd. unfold ckpt_sort_key, base, checkpoint_prefix.
  rewrite split_last_prefix by (now apply digits_no_c).
  unfold py_int. destruct s; [discriminate|]. now rewrite Hd.
Qed.

Lemma matched_key n : matched n = true -> exists r, ckpt_sort_key base n = Some r.
Proof.
  intros H. apply matched_shape in H. destruct H as (s & -> & Hl & Hd). eexists. now apply key_of_shape.
Qed.

Lemma gcp l : get_checkpoint_paths base l = Some (sort_by keyf (filter matched l)).
Proof.
  unfold get_checkpoint_paths. rewrite filter_glob_matched.
  assert (forallb (fun path => match ckpt_sort_key base path with Some _ => true | None => false end)
                  (filter matched l) = true) as ->; [|reflexivity].
  apply forallb_forall. intros x Hx. apply filter_In in Hx. destruct Hx as [_ Hx].
  apply matched_key in Hx. destruct Hx as [r ->]. reflexivity.
Qed.

Lemma name_ckpt r : 0 <= r < 10 ^ 8 ->
  matched (checkpoint_path base r) = true /\ ckpt_sort_key base (checkpoint_path base r) = Some r.
Proof.
  intros Hr. unfold checkpoint_path. rewrite fmt_zero_d_small by (exact Hr || lia). change (Z.to_nat 8) with 8%nat.
  assert (Hd := fixed_digits_digit 8 r). assert (Hl := fixed_digits_length 8 r). split.
  - unfold matched, ckpt_path_matches. rewrite is_prefix_app, skipn_app_exact. cbn [andb].
    unfold ckpt_suffix_ok. rewrite Hl. cbn [Z.of_nat]. apply andb_true_iff. split; [reflexivity|exact Hd].
  - rewrite key_of_shape by assumption. rewrite fixed_digits_val. f_equal. apply Z.mod_small. exact Hr.
Qed.

Lemma name_tmp r : matched (tmp_path (checkpoint_path base r)) = false.
Proof.
  unfold matched, ckpt_path_matches, tmp_path, checkpoint_path. rewrite <- app_assoc.
  rewrite is_prefix_app, skipn_app_exact. cbn [andb]. unfold ckpt_suffix_ok.
  apply andb_false_iff. right. rewrite forallb_app. apply andb_false_iff. right. reflexivity.
Qed.

Lemma name_tsv i : matched (tsv_name i) = false.
Proof. reflexivity. Qed.

Lemma tmp_neq p : tmp_path p <> p.
Proof. unfold tmp_path. intros H. apply (f_equal (@length Z)) in H. rewrite app_length in H. cbn in H. lia. Qed.

Lemma tsv_inj i j : tsv_name i = tsv_name j -> i = j.
Proof. intros H. apply (f_equal (fun l => nth 1 l 0)) in H. unfold tsv_name, metrics_file_name in H. cbn [nth app] in H. lia. Qed.

Lemma last_opt_py_index {A} (l : list A) : l <> [] -> py_index l (-1) = last_opt l.
Proof.
  intros H. unfold py_index, last_opt. cbn [Z.leb Z.compare Z.opp].
  destruct l as [|x l]; [contradiction|]. cbn [length].
  destruct (Z.of_nat (S (length l)) + -1 <? 0) eqn:E; [apply Z.ltb_lt in E; lia|].
  f_equal. lia.
Qed.

Lemma lls l : load_latest_select base l =
  match last_opt (sort_by keyf (filter matched l)) with
  | None => Some None
  | Some p => Some (Some (p, keyf p))
  end.
Proof.
  unfold load_latest_select. rewrite gcp. destruct (sort_by keyf (filter matched l)) as [|x ps] eqn:E; [reflexivity|].
  rewrite last_opt_py_index by discriminate. destruct (last_opt (x :: ps)) as [p|] eqn:El.
  - assert (In p (filter matched l)) as Hp.
    { apply (sort_by_In keyf). rewrite E. now apply last_opt_In. }
    apply filter_In in Hp. destruct Hp as [_ Hp]. apply matched_key in Hp. destruct Hp as [r Hr].
    unfold keyf. unfold ckpt_sort_key in Hr. rewrite Hr. unfold ckpt_sort_key. rewrite Hr. reflexivity.
  - apply last_opt_None in El. discriminate.
Qed.

Lemma last_cons_default {A} (a : A) l d : last (a :: l) d = last l a.
Proof.
  revert a d. induction l as [|b l IH]; intros a d; [reflexivity|].
  change (last (a :: b :: l) d) with (last (b :: l) d). now rewrite (IH b d), (IH b a).
Qed.

Lemma range_last b : forall n k, Z.to_nat (b - k) = n -> last (py_range k b 1) (k - 1) = Z.max (k - 1) (b - 1).
Proof.
  induction n as [|n IH]; intros k Hn.
  - rewrite py_range_nil by lia. cbn [last]. lia.
  - rewrite py_range_unfold by lia. destruct (k <? b) eqn:E; [|apply Z.ltb_ge in E; lia].
    apply Z.ltb_lt in E. rewrite last_cons_default. replace k with (k + 1 - 1) at 2 by lia.
    rewrite IH by lia. lia.
Qed.

(* ---- the invariant ---------------------------------------------------------- *)

Section Proofs.
Context {S B : Type} (step : S -> Z -> S) (init : S) (save : S -> B) (load : B -> S) (tsv : Z -> S -> Z -> B).
Hypothesis load_save : forall s, load (save s) = s.
Variable cf : C09_cfg.
Hypothesis HR : 0 <= c_R cf < 10 ^ 8.
Hypothesis Hkeep : 1 <= c_keep cf.

Notation dir := (@AtomFS.dir str B).
Notation lookup := (AtomFS.lookup str_eqb).
Notation st := (state_at step init).
Notation R := (c_R cf).
Notation ev := (@C09_Model.ev B).

Lemma st_succ k : 1 <= k -> st k = step (st (k - 1)) k.
Proof.
  intros Hk. unfold state_at. replace (Z.to_nat k) with (Datatypes.S (Z.to_nat (k - 1))) by lia.
  cbn [iter_step]. f_equal. lia.
Qed.

Definition Inv (d : dir) : Prop :=
  NoDup (names d) /\
  forall n c, lookup d n = Some c -> matched n = true ->
    exists r, ckpt_sort_key base n = Some r /\ 0 <= r <= R /\ c = Whole (save (st r)).

Lemma Inv_nil : Inv [].
Proof. split; [constructor|]. intros n c H. discriminate. Qed.

(* a directory the experiment may start from: no name passes the checkpoint filter (near misses are
   allowed), no final-evaluation file is there yet *)
Definition fresh (d : dir) : Prop :=
  NoDup (names d) /\ (forall n, In n (names d) -> matched n = false) /\
  (forall i, lookup d (tsv_name i) = None).

Lemma fresh_nil : fresh [].
Proof. split; [constructor|]. split; [intros n []|reflexivity]. Qed.

Lemma Inv_fresh d : fresh d -> Inv d.
Proof.
  intros (Hn & Hm & _). split; [exact Hn|]. intros n c Hl Hmn.
  apply (lookup_In str_eqb str_eqb_spec) in Hl. rewrite (Hm n Hl) in Hmn. discriminate.
Qed.

Definition harmless (e : ev) : Prop :=
  match e with
  | ECr n | ECl n _ => matched n = false
  | ERn _ _ => False
  | _ => True
  end.

Lemma harmless_inv d e : Inv d -> harmless e -> Inv (apply_ev d e).
Proof.
  intros [Hn Hi] He. split; [apply (NoDup_apply str_eqb str_eqb_spec); exact Hn|].
  intros m c. destruct e; cbn [apply_ev fs_step AtomFS.apply harmless] in *; try (apply Hi); try contradiction.
  - rewrite (lookup_set str_eqb str_eqb_spec). destruct (str_eqb n m) eqn:E; [|apply Hi].
    apply str_eqb_spec in E. subst m. intros _ Hm. congruence.
  - rewrite (lookup_set str_eqb str_eqb_spec). destruct (str_eqb n m) eqn:E; [|apply Hi].
    apply str_eqb_spec in E. subst m. intros _ Hm. congruence.
  - rewrite (lookup_del str_eqb str_eqb_spec). destruct (str_eqb n m); [discriminate|apply Hi].
Qed.

Lemma rename_inv d t p r : Inv d -> lookup d t = Some (Whole (save (st r))) ->
  ckpt_sort_key base p = Some r -> 0 <= r <= R -> Inv (apply_ev d (ERn t p)).
Proof.
  intros [Hn Hi] Ht Hk Hr. split; [apply (NoDup_apply str_eqb str_eqb_spec); exact Hn|].
  intros m c. unfold apply_ev. cbn [fs_step]. rewrite (lookup_rename str_eqb str_eqb_spec t p m d _ Ht).
  destruct (str_eqb p m) eqn:E.
  - apply str_eqb_spec in E. subst m. intros Hc _. injection Hc as <-. exists r. auto.
  - destruct (str_eqb t m); [discriminate|apply Hi].
Qed.

(* the invariant holds after every prefix of an effect list *)
Definition PI (d : dir) (es : list ev) : Prop := forall m, Inv (apply_evs d (firstn m es)).

Lemma apply_evs_app (d : dir) e1 e2 : apply_evs d (e1 ++ e2) = apply_evs (apply_evs d e1) e2.
Proof. apply fold_left_app. Qed.

Lemma PI_inv d es : PI d es -> Inv d.
Proof. intros H. exact (H 0%nat). Qed.

Lemma PI_end d es : PI d es -> Inv (apply_evs d es).
Proof. intros H. specialize (H (length es)). now rewrite firstn_all in H. Qed.

Lemma PI_nil d : Inv d -> PI d [].
Proof. intros H m. now rewrite firstn_nil. Qed.

Lemma PI_cons d e es : Inv d -> PI (apply_ev d e) es -> PI d (e :: es).
Proof. intros Hd H [|m]; [exact Hd|]. cbn [firstn apply_evs fold_left]. apply H. Qed.

Lemma PI_app d e1 e2 : PI d e1 -> PI (apply_evs d e1) e2 -> PI d (e1 ++ e2).
Proof.
  intros H1 H2 m. rewrite firstn_app, apply_evs_app. destruct (le_lt_dec m (length e1)) as [L|L].
  - replace (m - length e1)%nat with 0%nat by lia. cbn [firstn apply_evs fold_left]. apply H1.
  - rewrite (firstn_all2 e1) by lia. apply H2.
Qed.

Lemma PI_harmless es : forall d, Inv d -> Forall harmless es -> PI d es.
Proof.
  induction es as [|e es IH]; intros d Hd Hh; [now apply PI_nil|].
  inversion Hh; subst. apply PI_cons; [exact Hd|]. apply IH; [now apply harmless_inv|assumption].
Qed.

(* save_checkpoint *)
Lemma save_PI d s r : Inv d -> 0 <= r <= R -> s = st r ->
  exists evs, save_events save (c_keep cf) d s r = Some evs /\ PI d evs.
Proof.
  intros Hd Hr ->. unfold save_events. rewrite gcp. eexists. split; [reflexivity|].
  set (p := checkpoint_path base r). set (t := tmp_path p).
  destruct (name_ckpt r ltac:(lia)) as [Hm Hk]. fold p in Hm, Hk.
  assert (Ht : matched t = false) by apply name_tmp.
  apply PI_app.
  - apply PI_cons; [exact Hd|]. assert (H1 := harmless_inv d (ECr t) Hd Ht).
    apply PI_cons; [exact H1|]. assert (H2 := harmless_inv _ (EWr t) H1 I).
    apply PI_cons; [exact H2|]. assert (H3 := harmless_inv _ (ECl t (save (st r))) H2 Ht).
    apply PI_cons; [exact H3|]. apply PI_nil. apply (rename_inv _ t p r H3); [|exact Hk|exact Hr].
    cbn [apply_ev fs_step AtomFS.apply]. rewrite (lookup_set str_eqb str_eqb_spec), (eqb_refl str_eqb str_eqb_spec). reflexivity.
  - apply PI_harmless.
    + change (Inv (apply_evs d ([ECr t; EWr t; ECl t (save (st r))] ++ [ERn t p]))).
      rewrite apply_evs_app. cbn [apply_evs fold_left].
      assert (H1 := harmless_inv d (ECr t) Hd Ht). assert (H2 := harmless_inv _ (EWr t) H1 I).
      assert (H3 := harmless_inv _ (ECl t (save (st r))) H2 Ht).
      apply (rename_inv _ t p r H3); [|exact Hk|exact Hr].
      cbn [apply_ev fs_step AtomFS.apply]. rewrite (lookup_set str_eqb str_eqb_spec), (eqb_refl str_eqb str_eqb_spec). reflexivity.
    + constructor; [exact I|]. apply Forall_app. split; [|constructor; [exact I|constructor]].
      apply Forall_forall. intros e He. apply in_map_iff in He. destruct He as (x & <- & _). exact I.
Qed.

(* the round loop *)
Lemma rounds_PI start : forall n k d s, Z.to_nat (R + 1 - k) = n -> 1 <= k -> Inv d -> s = st (k - 1) ->
  exists tr, rounds step save cf start (py_range k (R + 1) 1) k d s = Some (tr, st (Z.max (k - 1) R)) /\ PI d tr.
Proof.
  induction n as [|n IH]; intros k d s Hn Hk Hd ->.
  - rewrite py_range_nil by lia. cbn [rounds]. exists []. split; [|now apply PI_nil].
    do 3 f_equal. lia.
  - rewrite py_range_unfold by lia. destruct (k <? R + 1) eqn:E; [|apply Z.ltb_ge in E; lia].
    apply Z.ltb_lt in E. cbn [rounds]. rewrite <- (st_succ k Hk).
    assert (exists sv, (if should_save_checkpoint (c_freq cf) k start
                        then save_events save (c_keep cf) d (st k) k else Some []) = Some sv /\ PI d sv) as (sv & -> & Hsv).
    { destruct (should_save_checkpoint (c_freq cf) k start).
      - apply save_PI; [exact Hd|lia|reflexivity].
      - exists []. split; [reflexivity|now apply PI_nil]. }
    set (pe := if should_run_eval (c_evf cf) k start then [EPe k] else []).
    assert (PI d (ERound k :: sv ++ pe)) as He1.
    { apply PI_cons; [exact Hd|]. cbn [apply_ev fs_step AtomFS.apply]. apply PI_app; [exact Hsv|].
      apply PI_harmless; [now apply PI_end|]. unfold pe. destruct (should_run_eval _ _ _); repeat constructor. }
    destruct (IH (k + 1) (apply_evs d (ERound k :: sv ++ pe)) (st k)) as (tr2 & Hr2 & Htr2);
      [lia|lia|now apply PI_end|f_equal; lia|].
    rewrite Hr2. eexists. split; [|apply PI_app; [exact He1|exact Htr2]].
    do 3 f_equal. lia.
Qed.

Lemma final_harmless nev s r : Forall harmless (final_events tsv nev s r).
Proof.
  unfold final_events. apply Forall_forall. intros e He. apply in_flat_map in He. destruct He as (i & _ & He).
  cbn [In] in He. destruct He as [<-|[<-|[<-|[]]]]; cbn [harmless]; try exact I; apply name_tsv.
Qed.

Lemma final_lookup s r : forall nev (d : dir) i, (i < nev)%nat ->
  lookup (apply_evs d (final_events tsv nev s r)) (tsv_name (Z.of_nat i)) = Some (Whole (tsv (Z.of_nat i) s r)).
Proof.
  induction nev as [|n IH]; intros d i Hi; [lia|].
  unfold final_events. rewrite seq_S, flat_map_app. cbn [flat_map plus]. rewrite app_nil_r.
  fold (final_events tsv n s r). rewrite apply_evs_app. cbn [apply_evs fold_left apply_ev fs_step AtomFS.apply].
  rewrite !(lookup_set str_eqb str_eqb_spec).
  destruct (str_eqb (tsv_name (Z.of_nat n)) (tsv_name (Z.of_nat i))) eqn:E.
  - apply str_eqb_spec, tsv_inj, Nat2Z.inj in E. subst. reflexivity.
  - apply IH. assert (i <> n) by (intros ->; rewrite (eqb_refl str_eqb str_eqb_spec) in E; discriminate). lia.
Qed.

(* one call of run_federated_experiment from a directory that satisfies the invariant *)
Lemma run_spec d : Inv d ->
  exists tr, run step init save load tsv cf d = Some (tr, st R, R) /\ PI d tr /\
    forall i, (i < c_nev cf)%nat ->
      lookup (apply_evs d tr) (tsv_name (Z.of_nat i)) = Some (Whole (tsv (Z.of_nat i) (st R) R)).
Proof.
  intros Hd. unfold run. rewrite lls.
  assert (forall start rd s0, 1 <= start -> s0 = st (start - 1) -> start - 1 <= R ->
            Forall harmless rd -> apply_evs d rd = d ->
            exists tr, match rounds step save cf start (round_range start R) (sampler_round_num start) d s0 with
                       | None => None
                       | Some (tr, s) => Some (EMk :: EGl :: rd ++ tr ++ final_events tsv (c_nev cf) s
                                                 (last (round_range start R) (round_num_before_loop start)),
                                               s, last (round_range start R) (round_num_before_loop start))
                       end = Some (tr, st R, R) /\ PI d tr /\
              forall i, (i < c_nev cf)%nat ->
                lookup (apply_evs d tr) (tsv_name (Z.of_nat i)) = Some (Whole (tsv (Z.of_nat i) (st R) R))) as Hgo.
  { intros start rd s0 Hs -> Hle Hrd Hrdd. unfold round_range, sampler_round_num, round_num_before_loop.
    destruct (rounds_PI start _ start d (st (start - 1)) eq_refl Hs Hd eq_refl) as (tr & -> & Htr).
    rewrite (range_last (R + 1) _ start eq_refl).
    replace (Z.max (start - 1) (R + 1 - 1)) with R by lia. replace (Z.max (start - 1) R) with R by lia.
    eexists. split; [reflexivity|]. split.
    - apply PI_cons; [exact Hd|]. apply PI_cons; [exact Hd|]. cbn [apply_ev fs_step AtomFS.apply].
      apply PI_app; [now apply PI_harmless|]. rewrite Hrdd. apply PI_app; [exact Htr|].
      apply PI_harmless; [now apply PI_end|apply final_harmless].
    - intros i Hi. cbn [apply_evs fold_left apply_ev fs_step AtomFS.apply].
      fold (apply_evs d (rd ++ tr ++ final_events tsv (c_nev cf) (st R) R)).
      rewrite !apply_evs_app, Hrdd. now apply final_lookup. }
  destruct (last_opt (sort_by keyf (filter matched (names d)))) as [p|] eqn:El.
  - assert (In p (filter matched (names d))) as Hp by (apply (sort_by_In keyf); now apply last_opt_In).
    apply filter_In in Hp. destruct Hp as [Hin Hm].
    destruct (In_lookup str_eqb str_eqb_spec d p Hin) as [c Hc].
    destruct Hd as [Hn Hi]. destruct (Hi p c Hc Hm) as (r & Hk & Hr & ->).
    assert (keyf p = r) as Hkf by (unfold keyf; now rewrite Hk).
    cbn [option_map snd]. rewrite Hc, Hkf. unfold start_round_num.
    apply Hgo; [lia|rewrite load_save; f_equal; lia|lia|repeat constructor|reflexivity].
  - cbn [option_map]. unfold start_round_num. apply Hgo; [lia|reflexivity|lia|constructor|reflexivity].
Qed.

(* any crash history *)
Lemma history_spec : forall ks d, Inv d ->
  exists ds tr df, history step init save load tsv cf d ks = Some (ds, tr, df, st R, R) /\
    Forall Inv ds /\ Inv df /\
    forall i, (i < c_nev cf)%nat -> lookup df (tsv_name (Z.of_nat i)) = Some (Whole (tsv (Z.of_nat i) (st R) R)).
Proof.
  induction ks as [|k ks IH]; intros d Hd; cbn [history];
    destruct (run_spec d Hd) as (tr & -> & Hpi & Htsv).
  - exists [], tr, (apply_evs d tr). split; [reflexivity|]. split; [constructor|]. split; [now apply PI_end|exact Htsv].
  - destruct (IH (apply_evs d (firstn k tr)) (Hpi k)) as (ds & tr' & df & -> & Hds & Hdf & Ht).
    exists (apply_evs d (firstn k tr) :: ds), tr', df. split; [reflexivity|]. split; [constructor; [apply Hpi|exact Hds]|]. split; [exact Hdf|exact Ht].
Qed.

(* directories reachable from the empty experiment directory by calls killed anywhere *)
Inductive reachable : dir -> Prop :=
| reach_fresh d : fresh d -> reachable d
| reach_step d tr s r m : reachable d -> run step init save load tsv cf d = Some (tr, s, r) ->
    reachable (apply_evs d (firstn m tr)).

Lemma reachable_inv d : reachable d -> Inv d.
Proof.
  induction 1 as [d Hf|d tr s r m _ IH Hrun]; [now apply Inv_fresh|].
  destruct (run_spec d IH) as (tr' & Hr' & Hpi & _). rewrite Hr' in Hrun. injection Hrun as <- _ _. apply Hpi.
Qed.

Lemma history_reachable : forall ks d ds tr df s r, reachable d ->
  history step init save load tsv cf d ks = Some (ds, tr, df, s, r) -> Forall reachable ds /\ reachable df.
Proof.
  induction ks as [|k ks IH]; intros d ds tr df s r Hd H; cbn [history] in H.
  - destruct (run step init save load tsv cf d) as [[[tr0 s0] r0]|] eqn:E; [|discriminate].
    injection H as <- <- <- <- <-. split; [constructor|].
    rewrite <- (firstn_all tr0). eapply reach_step; eassumption.
  - destruct (run step init save load tsv cf d) as [[[tr0 s0] r0]|] eqn:E; [|discriminate].
    destruct (history step init save load tsv cf (apply_evs d (firstn k tr0)) ks) as [[[[[ds' tr'] df'] s'] r']|] eqn:E2;
      [|discriminate].
    injection H as <- <- <- <- <-.
    assert (reachable (apply_evs d (firstn k tr0))) as Hr by (eapply reach_step; eassumption).
    destruct (IH _ _ _ _ _ _ Hr E2) as [H1 H2]. split; [constructor; assumption|assumption].
Qed.

(* ---- newest wins -------------------------------------------------------------- *)

Lemma newest_wins (l : list str) : exists sel, load_latest_select base l = Some sel /\
  match sel with
  | None => forall n, In n l -> matched n = false
  | Some (p, r) => In p l /\ matched p = true /\ ckpt_sort_key base p = Some r /\
      forall n r', In n l -> matched n = true -> ckpt_sort_key base n = Some r' -> r' <= r
  end.
Proof.
  rewrite lls. destruct (last_opt (sort_by keyf (filter matched l))) as [p|] eqn:El; eexists; (split; [reflexivity|]).
  - assert (In p (filter matched l)) as Hp by (apply (sort_by_In keyf); now apply last_opt_In).
    apply filter_In in Hp. destruct Hp as [Hin Hm]. destruct (matched_key p Hm) as [r Hk].
    assert (keyf p = r) as -> by (unfold keyf; now rewrite Hk). repeat split; try assumption.
    intros n r' Hn Hmn Hkn.
    assert (keyf n <= keyf p) as H.
    { apply (sorted_last_max keyf _ (sort_by_sorted keyf _) p El). apply sort_by_In, filter_In. now split. }
    unfold keyf in H. now rewrite Hk, Hkn in H.
  - apply last_opt_None in El. intros n Hn. destruct (matched n) eqn:Em; [|reflexivity].
    assert (In n (sort_by keyf (filter matched l))) as H by (apply sort_by_In, filter_In; now split).
    rewrite El in H. destruct H.
Qed.

(* ---- retention ------------------------------------------------------------------ *)

Definition ckpt_count (d : dir) : nat := length (filter matched (names d)).

Lemma apply_rms (d : dir) X : forall n,
  In n (names (apply_evs d (map (@ERm B) X))) <-> In n (names d) /\ ~ In n X.
Proof.
  revert d. induction X as [|x X IH]; intros d n; cbn [map apply_evs fold_left].
  - tauto.
  - fold (apply_evs (apply_ev d (ERm x)) (map (@ERm B) X)). rewrite IH.
    cbn [apply_ev fs_step AtomFS.apply]. rewrite names_del, filter_In. cbn [In].
    destruct (str_eqb n x) eqn:E.
    + apply str_eqb_spec in E. subst. cbn [negb]. intuition discriminate.
    + cbn [negb]. assert (x <> n) by (intros ->; rewrite (eqb_refl str_eqb str_eqb_spec) in E; discriminate). tauto.
Qed.

Lemma NoDup_apply_evs es : forall (d : dir), NoDup (names d) -> NoDup (names (apply_evs d es)).
Proof.
  induction es as [|e es IH]; intros d H; [exact H|]. cbn [apply_evs fold_left]. apply IH.
  now apply (NoDup_apply str_eqb str_eqb_spec).
Qed.

Lemma retention_block d s r evs : NoDup (names d) ->
  save_events save (c_keep cf) d s r = Some evs -> (ckpt_count (apply_evs d evs) <= Z.to_nat (c_keep cf))%nat.
Proof.
  intros Hn. unfold save_events. rewrite gcp.
  set (t := tmp_path (checkpoint_path base r)).
  set (w := [ECr t; EWr t; ECl t (save s); ERn t (checkpoint_path base r)]). set (d1 := apply_evs d w).
  set (paths := sort_by keyf (filter matched (names d1))).
  set (X := remove_checkpoint_paths paths (c_keep cf)).
  intros H. assert (evs = w ++ [EGl] ++ map (@ERm B) X ++ [ESaved r]) as -> by (cbn [app]; congruence). clear H.
  rewrite !apply_evs_app. fold d1. change (apply_evs d1 [EGl]) with d1.
  set (Y := apply_evs d1 (map (@ERm B) X)). change (apply_evs Y [ESaved r]) with Y. subst Y.
  unfold X, remove_checkpoint_paths. rewrite py_upto_neg by lia.
  set (a := (length paths - Z.to_nat (c_keep cf))%nat).
  assert (NoDup (names d1)) as Hn1 by (now apply NoDup_apply_evs).
  assert (NoDup paths) as Hnp.
  { apply (Permutation_NoDup (l := filter matched (names d1))); [symmetry; apply sort_by_perm|now apply NoDup_filter]. }
  unfold ckpt_count.
  transitivity (length (skipn a paths)); [|rewrite skipn_length; lia].
  apply NoDup_incl_length.
  - apply NoDup_filter. apply NoDup_apply_evs. exact Hn1.
  - intros n Hin. apply filter_In in Hin. destruct Hin as [Hin Hm]. apply apply_rms in Hin. destruct Hin as [Hin Hnot].
    assert (In n paths) as Hp by (apply sort_by_In, filter_In; now split).
    rewrite <- (firstn_skipn a paths) in Hp. apply in_app_or in Hp. destruct Hp; [contradiction|assumption].
Qed.

(* ... and along a whole run: right after every completed save *)
Definition RT (d : dir) (es : list ev) : Prop :=
  forall m r, nth_error es m = Some (ESaved r) ->
    (ckpt_count (apply_evs d (firstn (Datatypes.S m) es)) <= Z.to_nat (c_keep cf))%nat.

Lemma RT_app d e1 e2 : RT d e1 -> RT (apply_evs d e1) e2 -> RT d (e1 ++ e2).
Proof.
  intros H1 H2 m r Hm. rewrite firstn_app, apply_evs_app. destruct (le_lt_dec (length e1) m) as [L|L].
  - rewrite nth_error_app2 in Hm by lia. rewrite (firstn_all2 e1) by lia.
    replace (Datatypes.S m - length e1)%nat with (Datatypes.S (m - length e1)) by lia. now apply (H2 _ r).
  - rewrite nth_error_app1 in Hm by lia. replace (Datatypes.S m - length e1)%nat with 0%nat by lia.
    cbn [firstn apply_evs fold_left]. now apply (H1 _ r).
Qed.

Lemma nth_error_Some_lt {A} (l : list A) n x : nth_error l n = Some x -> (n < length l)%nat.
Proof. intros H. apply nth_error_Some. congruence. Qed.

Definition not_saved (e : ev) : Prop := match e with ESaved _ => False | _ => True end.

Lemma RT_none d es : Forall not_saved es -> RT d es.
Proof.
  intros H m r Hm. apply nth_error_In in Hm. rewrite Forall_forall in H. apply H in Hm. destruct Hm.
Qed.

Lemma RT_save d s r evs : NoDup (names d) -> save_events save (c_keep cf) d s r = Some evs -> RT d evs.
Proof.
  intros Hn He m r' Hm. assert (Hb := retention_block d s r evs Hn He).
  unfold save_events in He. rewrite gcp in He.
  set (t := tmp_path (checkpoint_path base r)) in *.
  set (X := remove_checkpoint_paths _ _) in He.
  assert (evs = [ECr t; EWr t; ECl t (save s); ERn t (checkpoint_path base r)] ++ [EGl] ++ map (@ERm B) X ++ [ESaved r])
    as E by (injection He as <-; reflexivity).
  clear He. subst evs.
  assert (m = (5 + length X)%nat) as ->.
  { destruct (lt_eq_lt_dec m (5 + length X)) as [[L|L]|L]; [|exact L|].
    - exfalso. do 5 (destruct m as [|m]; [discriminate|]). cbn [nth_error app] in Hm.
      rewrite nth_error_app1 in Hm by (rewrite map_length; lia).
      apply nth_error_In, in_map_iff in Hm. destruct Hm as (x & Hx & _). discriminate.
    - exfalso. apply nth_error_Some_lt in Hm. revert Hm. cbn [length app]. rewrite app_length, map_length. cbn [length]. lia. }
  rewrite firstn_all2; [exact Hb|]. cbn [length app]. rewrite app_length, map_length. cbn [length]. lia.
Qed.

Lemma rounds_RT start : forall ks j d s tr s', NoDup (names d) ->
  rounds step save cf start ks j d s = Some (tr, s') -> RT d tr.
Proof.
  induction ks as [|k ks IH]; intros j d s tr s' Hn H; cbn [rounds] in H.
  - injection H as <- _. apply RT_none. constructor.
  - destruct (if should_save_checkpoint (c_freq cf) k start then save_events save (c_keep cf) d (step s j) k else Some [])
      as [sv|] eqn:Esv; [|discriminate].
    set (e1 := ERound j :: sv ++ (if should_run_eval (c_evf cf) k start then [EPe k] else [])) in *.
    destruct (rounds step save cf start ks (j + 1) (apply_evs d e1) (step s j)) as [[e2 s'']|] eqn:E2; [|discriminate].
    assert (Htr : tr = e1 ++ e2) by (injection H as <- _; reflexivity). rewrite Htr. clear H Htr. apply RT_app.
    + unfold e1. change (RT d ([ERound j] ++ sv ++ (if should_run_eval (c_evf cf) k start then [EPe k] else []))).
      apply RT_app; [apply RT_none; repeat constructor|]. apply RT_app.
      * cbn [apply_evs fold_left apply_ev fs_step AtomFS.apply].
        destruct (should_save_checkpoint (c_freq cf) k start).
        -- eapply RT_save; eassumption.
        -- injection Esv as <-. apply RT_none. constructor.
      * apply RT_none. destruct (should_run_eval _ _ _); repeat constructor.
    + eapply IH; [|exact E2]. now apply NoDup_apply_evs.
Qed.

Lemma run_RT d tr s r : NoDup (names d) -> run step init save load tsv cf d = Some (tr, s, r) -> RT d tr.
Proof.
  intros Hn. unfold run. destruct (load_latest_select base (names d)) as [sel|]; [|discriminate].
  destruct (match sel with None => Some ([], init) | Some (p, _) => _ end) as [[rd s0]|] eqn:Erd; [|discriminate].
  destruct (rounds step save cf _ _ _ d s0) as [[tr0 s1]|] eqn:Er; [|discriminate].
  intros H. injection H as <- _ _.
  assert (Forall not_saved rd /\ apply_evs d rd = d) as [Hrd Hrdd].
  { destruct sel as [[p ?]|]; [|injection Erd as <- _; split; [constructor|reflexivity]].
    destruct (lookup d p) as [[b|]|]; try discriminate. injection Erd as <- _. split; [repeat constructor|reflexivity]. }
  change (RT d ([EMk; EGl] ++ rd ++ tr0 ++ final_events tsv (c_nev cf) s1
                 (last (round_range (start_round_num (option_map snd sel)) R)
                       (round_num_before_loop (start_round_num (option_map snd sel)))))).
  apply RT_app; [apply RT_none; repeat constructor|]. cbn [apply_evs fold_left apply_ev fs_step AtomFS.apply].
  apply RT_app; [now apply RT_none|]. rewrite Hrdd. apply RT_app; [eapply rounds_RT; eassumption|].
  apply RT_none. unfold final_events. apply Forall_forall. intros e He. apply in_flat_map in He.
  destruct He as (i & _ & He). cbn [In] in He. destruct He as [<-|[<-|[<-|[]]]]; exact I.
Qed.


(* ---- the writes follow the rename discipline of Common/AtomFS.v ------------------ *)

Definition DR (d : dir) (es : list ev) : Prop :=
  disciplined_run str_eqb matched d (map (@fs_step B) es).

Lemma apply_evs_run (es : list ev) : forall d : dir, apply_evs d es = AtomFS.run str_eqb d (map (@fs_step B) es).
Proof. induction es as [|e es IH]; intros d; [reflexivity|]. cbn [apply_evs fold_left map AtomFS.run]. apply IH. Qed.

Lemma DR_app d e1 e2 : DR d e1 -> DR (apply_evs d e1) e2 -> DR d (e1 ++ e2).
Proof.
  intros H1 H2. unfold DR. rewrite map_app. apply disciplined_run_app. split; [exact H1|].
  rewrite <- apply_evs_run. exact H2.
Qed.

Lemma DR_harmless es : forall d, Forall harmless es -> DR d es.
Proof.
  induction es as [|e es IH]; intros d H; [exact I|]. inversion H as [|? ? He Hes]; subst.
  split; [|apply (IH (apply_ev d e) Hes)].
  destruct e; cbn [fs_step disciplined harmless] in *; try exact I; try exact He. contradiction.
Qed.

Lemma DR_save d s r evs : save_events save (c_keep cf) d s r = Some evs -> DR d evs.
Proof.
  unfold save_events. rewrite gcp. set (t := tmp_path (checkpoint_path base r)). set (X := remove_checkpoint_paths _ _).
  intros H.
  assert (evs = [ECr t; EWr t; ECl t (save s); ERn t (checkpoint_path base r)] ++ [EGl] ++ map (@ERm B) X ++ [ESaved r])
    as -> by (injection H as <-; reflexivity).
  apply DR_app.
  - assert (Ht : matched t = false) by apply name_tmp.
    unfold DR. cbn [map fs_step disciplined_run disciplined AtomFS.apply]. repeat split; try exact Ht.
    intros _. rewrite !(lookup_set str_eqb str_eqb_spec), (eqb_refl str_eqb str_eqb_spec). discriminate.
  - apply DR_harmless. constructor; [exact I|]. apply Forall_app. split; [|repeat constructor].
    apply Forall_forall. intros e He. apply in_map_iff in He. destruct He as (x & <- & _). exact I.
Qed.

Lemma DR_rounds start : forall ks j d s tr s',
  rounds step save cf start ks j d s = Some (tr, s') -> DR d tr.
Proof.
  induction ks as [|k ks IH]; intros j d s tr s' H; cbn [rounds] in H.
  - injection H as <- _. exact I.
  - destruct (if should_save_checkpoint (c_freq cf) k start then save_events save (c_keep cf) d (step s j) k else Some [])
      as [sv|] eqn:Esv; [|discriminate].
    set (e1 := ERound j :: sv ++ (if should_run_eval (c_evf cf) k start then [EPe k] else [])) in *.
    destruct (rounds step save cf start ks (j + 1) (apply_evs d e1) (step s j)) as [[e2 s'']|] eqn:E2; [|discriminate].
    assert (Htr : tr = e1 ++ e2) by (injection H as <- _; reflexivity). rewrite Htr. clear H Htr. apply DR_app.
    + unfold e1. change (DR d ([ERound j] ++ sv ++ (if should_run_eval (c_evf cf) k start then [EPe k] else []))).
      apply DR_app; [apply DR_harmless; repeat constructor|]. apply DR_app.
      * change (apply_evs d [ERound j]) with d. destruct (should_save_checkpoint (c_freq cf) k start).
        -- eapply DR_save; eassumption.
        -- injection Esv as <-. exact I.
      * apply DR_harmless. destruct (should_run_eval _ _ _); repeat constructor.
    + eapply IH; exact E2.
Qed.

Lemma DR_run d tr s r : run step init save load tsv cf d = Some (tr, s, r) -> DR d tr.
Proof.
  unfold run. destruct (load_latest_select base (names d)) as [sel|]; [|discriminate].
  destruct (match sel with None => Some ([], init) | Some (p, _) => _ end) as [[rd s0]|] eqn:Erd; [|discriminate].
  destruct (rounds step save cf _ _ _ d s0) as [[tr0 s1]|] eqn:Er; [|discriminate].
  intros H. injection H as <- _ _.
  assert (Forall harmless rd /\ apply_evs d rd = d) as [Hrd Hrdd].
  { destruct sel as [[p ?]|]; [|injection Erd as <- _; split; [constructor|reflexivity]].
    destruct (lookup d p) as [[b|]|]; try discriminate. injection Erd as <- _. split; [repeat constructor|reflexivity]. }
  change (DR d ([EMk; EGl] ++ rd ++ tr0 ++ final_events tsv (c_nev cf) s1
                 (last (round_range (start_round_num (option_map snd sel)) R)
                       (round_num_before_loop (start_round_num (option_map snd sel)))))).
  apply DR_app; [apply DR_harmless; repeat constructor|]. change (apply_evs d [EMk; EGl]) with d.
  apply DR_app; [now apply DR_harmless|]. rewrite Hrdd. apply DR_app; [eapply DR_rounds; eassumption|].
  apply DR_harmless. apply final_harmless.
Qed.

(* hence, by tmp_then_rename_atomic, from ANY directory without torn checkpoint names *)
Lemma run_never_tears d tr s r k : run step init save load tsv cf d = Some (tr, s, r) ->
  no_torn_final str_eqb matched d -> no_torn_final str_eqb matched (apply_evs d (firstn k tr)).
Proof.
  intros Hrun Hd. rewrite apply_evs_run, <- firstn_map.
  apply (tmp_then_rename_atomic str_eqb str_eqb_spec matched); [exact Hd|]. eapply DR_run. exact Hrun.
Qed.


(* ---- the final-evaluation files: absent, torn, or complete and correct -------------- *)

Lemma ckpt_not_tsv x i : base ++ x <> tsv_name i.
Proof. unfold base, checkpoint_prefix, tsv_name, metrics_file_name. cbn [app]. discriminate. Qed.

Definition tsvsafe (e : ev) : Prop :=
  match e with
  | ECl n b => forall i, n = tsv_name i -> b = tsv i (st R) R
  | ERn a b => forall i, b <> tsv_name i
  | _ => True
  end.

Definition tsv_ok (d : dir) : Prop :=
  forall i c, lookup d (tsv_name i) = Some c -> c = Torn \/ c = Whole (tsv i (st R) R).

Lemma tsvsafe_step d e : tsv_ok d -> tsvsafe e -> tsv_ok (apply_ev d e).
Proof.
  intros Hd He i c. destruct e; cbn [apply_ev fs_step AtomFS.apply tsvsafe] in *; try (apply Hd).
  - rewrite (lookup_set str_eqb str_eqb_spec). destruct (str_eqb n (tsv_name i)); [|apply Hd].
    intros H. injection H as <-. now left.
  - rewrite (lookup_set str_eqb str_eqb_spec). destruct (str_eqb n (tsv_name i)) eqn:E; [|apply Hd].
    apply str_eqb_spec in E. intros H. injection H as <-. right. f_equal. now apply He.
  - destruct (lookup d a) as [ca|] eqn:Ea; [|apply Hd].
    rewrite (lookup_set str_eqb str_eqb_spec), (eqb_neq str_eqb str_eqb_spec) by apply He.
    rewrite (lookup_del str_eqb str_eqb_spec). destruct (str_eqb a (tsv_name i)); [discriminate|apply Hd].
  - rewrite (lookup_del str_eqb str_eqb_spec). destruct (str_eqb n (tsv_name i)); [discriminate|apply Hd].
Qed.

Lemma tsvsafe_prefix es : forall d, tsv_ok d -> Forall tsvsafe es -> forall m, tsv_ok (apply_evs d (firstn m es)).
Proof.
  induction es as [|e es IH]; intros d Hd Hs m; [now rewrite firstn_nil|].
  destruct m as [|m]; [exact Hd|]. inversion Hs; subst. cbn [firstn apply_evs fold_left].
  apply IH; [now apply tsvsafe_step|assumption].
Qed.

Lemma save_tsvsafe d s r evs : save_events save (c_keep cf) d s r = Some evs -> Forall tsvsafe evs.
Proof.
  unfold save_events. rewrite gcp. set (t := tmp_path (checkpoint_path base r)). set (X := remove_checkpoint_paths _ _).
  intros H.
  assert (evs = [ECr t; EWr t; ECl t (save s); ERn t (checkpoint_path base r)] ++ [EGl] ++ map (@ERm B) X ++ [ESaved r])
    as -> by (injection H as <-; reflexivity).
  assert (Ht : forall i, t <> tsv_name i).
  { intros i. unfold t, tmp_path, checkpoint_path. rewrite <- app_assoc. apply ckpt_not_tsv. }
  apply Forall_app. split.
  - constructor; [exact I|]. constructor; [exact I|]. constructor.
    + cbn [tsvsafe]. intros i E. exfalso. exact (Ht i E).
    + constructor; [|constructor]. cbn [tsvsafe]. intros i. unfold checkpoint_path. apply ckpt_not_tsv.
  - constructor; [exact I|]. apply Forall_app. split; [|repeat constructor].
    apply Forall_forall. intros e He. apply in_map_iff in He. destruct He as (x & <- & _). exact I.
Qed.

Lemma rounds_tsvsafe start : forall ks j d s tr s',
  rounds step save cf start ks j d s = Some (tr, s') -> Forall tsvsafe tr.
Proof.
  induction ks as [|k ks IH]; intros j d s tr s' H; cbn [rounds] in H.
  - injection H as <- _. constructor.
  - destruct (if should_save_checkpoint (c_freq cf) k start then save_events save (c_keep cf) d (step s j) k else Some [])
      as [sv|] eqn:Esv; [|discriminate].
    set (e1 := ERound j :: sv ++ (if should_run_eval (c_evf cf) k start then [EPe k] else [])) in *.
    destruct (rounds step save cf start ks (j + 1) (apply_evs d e1) (step s j)) as [[e2 s'']|] eqn:E2; [|discriminate].
    assert (Htr : tr = e1 ++ e2) by (injection H as <- _; reflexivity). rewrite Htr. apply Forall_app. split; [|eapply IH; exact E2].
    unfold e1. constructor; [exact I|]. apply Forall_app. split.
    + destruct (should_save_checkpoint (c_freq cf) k start); [eapply save_tsvsafe; exact Esv|injection Esv as <-; constructor].
    + destruct (should_run_eval _ _ _); repeat constructor.
Qed.

Lemma run_tsvsafe d tr : run step init save load tsv cf d = Some (tr, st R, R) -> Forall tsvsafe tr.
Proof.
  unfold run. destruct (load_latest_select base (names d)) as [sel|]; [|discriminate].
  destruct (match sel with None => Some ([], init) | Some (p, _) => _ end) as [[rd s0]|] eqn:Erd; [|discriminate].
  destruct (rounds step save cf _ _ _ d s0) as [[tr0 s1]|] eqn:Er; [|discriminate].
  intros H. injection H as <- Hs Hr. rewrite Hs, Hr.
  assert (Forall tsvsafe rd) as Hrd.
  { destruct sel as [[p ?]|]; [|injection Erd as <- _; constructor].
    destruct (lookup d p) as [[b|]|]; try discriminate. injection Erd as <- _. repeat constructor. }
  constructor; [exact I|]. constructor; [exact I|]. apply Forall_app. split; [exact Hrd|].
  apply Forall_app. split; [eapply rounds_tsvsafe; exact Er|].
  unfold final_events. apply Forall_forall. intros e He. apply in_flat_map in He. destruct He as (i & _ & He).
  cbn [In] in He. destruct He as [<-|[<-|[<-|[]]]]; cbn [tsvsafe]; try exact I.
  intros i' E. apply tsv_inj in E. now subst i'.
Qed.

Lemma reachable_tsv_ok d : reachable d -> tsv_ok d.
Proof.
  induction 1 as [d Hf|d tr s r m Hreach IH Hrun]; [intros i c H; destruct Hf as (_ & _ & Ht); rewrite Ht in H; discriminate|].
  destruct (run_spec d (reachable_inv d Hreach)) as (tr' & Hr' & _). rewrite Hr' in Hrun. injection Hrun as <- _ _.
  apply tsvsafe_prefix; [exact IH|]. apply (run_tsvsafe d). exact Hr'.
Qed.

(* ---- the statements used by Props/C09.v --------------------------------------- *)

Lemma visible_complete d : reachable d -> no_torn_final str_eqb (ckpt_path_matches base) d.
Proof.
  intros Hr n Hn Hl. apply reachable_inv in Hr. destruct Hr as [_ Hi].
  destruct (Hi n Torn Hl Hn) as (r & _ & _ & Hc). discriminate.
Qed.

Lemma holds_round_state d : reachable d -> forall r c, 0 <= r < 10 ^ 8 ->
  lookup d (checkpoint_path base r) = Some c -> c = Whole (save (st r)) /\ r <= R.
Proof.
  intros Hr r c Hb Hl. apply reachable_inv in Hr. destruct Hr as [_ Hi].
  destruct (name_ckpt r Hb) as [Hm Hk]. destruct (Hi _ c Hl Hm) as (r' & Hk' & Hr' & ->).
  rewrite Hk in Hk'. injection Hk' as <-. split; [reflexivity|lia].
Qed.

Lemma rerun_completes d : reachable d -> exists tr, run step init save load tsv cf d = Some (tr, st R, R).
Proof. intros Hr. destruct (run_spec d (reachable_inv d Hr)) as (tr & H & _). eauto. Qed.

Lemma retention d tr s r : reachable d -> run step init save load tsv cf d = Some (tr, s, r) ->
  forall m r', nth_error tr m = Some (ESaved r') ->
    (ckpt_count (apply_evs d (firstn (Datatypes.S m) tr)) <= Z.to_nat (c_keep cf))%nat.
Proof. intros Hr Hrun. apply (run_RT d tr s r); [apply (reachable_inv d Hr)|exact Hrun]. Qed.

Lemma resume_equals_uninterrupted d0 ks : fresh d0 -> exists ds tr df tr0 df0,
  history step init save load tsv cf d0 ks = Some (ds, tr, df, st R, R) /\
  history step init save load tsv cf d0 [] = Some ([], tr0, df0, st R, R) /\
  forall i, (i < c_nev cf)%nat ->
    lookup df (tsv_name (Z.of_nat i)) = Some (Whole (tsv (Z.of_nat i) (st R) R)) /\
    lookup df0 (tsv_name (Z.of_nat i)) = lookup df (tsv_name (Z.of_nat i)).
Proof.
  intros Hf. assert (Hi := Inv_fresh d0 Hf).
  destruct (history_spec ks d0 Hi) as (ds & tr & df & H & _ & _ & Ht).
  destruct (history_spec [] d0 Hi) as (ds0 & tr0 & df0 & H0 & _ & _ & Ht0).
  assert (ds0 = []) as ->.
  { cbn [history] in H0. destruct (run step init save load tsv cf d0) as [[[? ?] ?]|]; [|discriminate]. now injection H0. }
  exists ds, tr, df, tr0, df0. split; [exact H|]. split; [exact H0|].
  intros i Hi'. split; [now apply Ht|]. now rewrite Ht, Ht0.
Qed.

Lemma history_dirs_reachable d0 ks ds tr df s r : fresh d0 ->
  history step init save load tsv cf d0 ks = Some (ds, tr, df, s, r) -> Forall reachable ds /\ reachable df.
Proof. intros Hf. apply history_reachable. now constructor. Qed.

(* ---- files of somebody else are never touched ------------------------------------------ *)

Definition foreign (n : str) : Prop :=
  matched n = false /\ (forall r, n <> checkpoint_path base r) /\
  (forall r, n <> tmp_path (checkpoint_path base r)) /\ (forall i, n <> tsv_name i).

Definition keeps (n : str) (e : ev) : Prop :=
  match e with
  | ECr m | ECl m _ | ERm m => m <> n
  | ERn a b => a <> n /\ b <> n
  | _ => True
  end.

Lemma keeps_step n d e : keeps n e -> lookup (apply_ev d e) n = lookup d n.
Proof.
  intros H. destruct e; cbn [apply_ev fs_step AtomFS.apply keeps] in *; try reflexivity.
  - rewrite (lookup_set str_eqb str_eqb_spec), (eqb_neq str_eqb str_eqb_spec) by exact H. reflexivity.
  - rewrite (lookup_set str_eqb str_eqb_spec), (eqb_neq str_eqb str_eqb_spec) by exact H. reflexivity.
  - destruct H as [Ha Hb]. destruct (lookup d a); [|reflexivity].
    rewrite (lookup_set str_eqb str_eqb_spec), (eqb_neq str_eqb str_eqb_spec) by exact Hb.
    rewrite (lookup_del str_eqb str_eqb_spec), (eqb_neq str_eqb str_eqb_spec) by exact Ha. reflexivity.
  - rewrite (lookup_del str_eqb str_eqb_spec), (eqb_neq str_eqb str_eqb_spec) by exact H. reflexivity.
Qed.

Lemma keeps_prefix n es : forall d m, Forall (keeps n) es -> lookup (apply_evs d (firstn m es)) n = lookup d n.
Proof.
  induction es as [|e es IH]; intros d m H; [now rewrite firstn_nil|].
  destruct m as [|m]; [reflexivity|]. inversion H; subst. cbn [firstn apply_evs fold_left].
  fold (apply_evs (apply_ev d e) (firstn m es)). rewrite IH by assumption. now apply keeps_step.
Qed.

Lemma save_keeps n d s r evs : foreign n -> save_events save (c_keep cf) d s r = Some evs -> Forall (keeps n) evs.
Proof.
  intros (Hm & Hc & Ht & _). unfold save_events. rewrite gcp.
  set (t := tmp_path (checkpoint_path base r)). set (d1 := apply_evs d _).
  set (paths := sort_by keyf (filter matched (names d1))). set (X := remove_checkpoint_paths paths (c_keep cf)).
  intros H.
  assert (evs = [ECr t; EWr t; ECl t (save s); ERn t (checkpoint_path base r)] ++ [EGl] ++ map (@ERm B) X ++ [ESaved r])
    as -> by (injection H as <-; reflexivity).
  assert (Htn : t <> n) by (intros E; exact (Ht r (eq_sym E))).
  assert (Hpn : checkpoint_path base r <> n) by (intros E; exact (Hc r (eq_sym E))).
  apply Forall_app. split; [repeat constructor; assumption|].
  constructor; [exact I|]. apply Forall_app. split; [|repeat constructor].
  apply Forall_forall. intros e He. apply in_map_iff in He. destruct He as (x & <- & Hx). cbn [keeps].
  intros ->. unfold X, remove_checkpoint_paths, py_upto in Hx.
  assert (In n paths) as Hp by (destruct (0 <=? - c_keep cf); eapply In_firstn'; exact Hx).
  apply sort_by_In, filter_In in Hp. destruct Hp as [_ Hp]. congruence.
Qed.

Lemma rounds_keeps n start : foreign n -> forall ks j d s tr s',
  rounds step save cf start ks j d s = Some (tr, s') -> Forall (keeps n) tr.
Proof.
  intros Hf. induction ks as [|k ks IH]; intros j d s tr s' H; cbn [rounds] in H.
  - injection H as <- _. constructor.
  - destruct (if should_save_checkpoint (c_freq cf) k start then save_events save (c_keep cf) d (step s j) k else Some [])
      as [sv|] eqn:Esv; [|discriminate].
    set (e1 := ERound j :: sv ++ (if should_run_eval (c_evf cf) k start then [EPe k] else [])) in *.
    destruct (rounds step save cf start ks (j + 1) (apply_evs d e1) (step s j)) as [[e2 s'']|] eqn:E2; [|discriminate].
    assert (Htr : tr = e1 ++ e2) by (injection H as <- _; reflexivity). rewrite Htr. apply Forall_app. split; [|eapply IH; exact E2].
    unfold e1. constructor; [exact I|]. apply Forall_app. split.
    + destruct (should_save_checkpoint (c_freq cf) k start); [eapply save_keeps; [exact Hf|exact Esv]|injection Esv as <-; constructor].
    + destruct (should_run_eval _ _ _); repeat constructor.
Qed.

Lemma run_keeps n d tr s r : foreign n -> run step init save load tsv cf d = Some (tr, s, r) -> Forall (keeps n) tr.
Proof.
  intros Hf. unfold run. destruct (load_latest_select base (names d)) as [sel|]; [|discriminate].
  destruct (match sel with None => Some ([], init) | Some (p, _) => _ end) as [[rd s0]|] eqn:Erd; [|discriminate].
  destruct (rounds step save cf _ _ _ d s0) as [[tr0 s1]|] eqn:Er; [|discriminate].
  intros H. injection H as <- _ _.
  assert (Forall (keeps n) rd) as Hrd.
  { destruct sel as [[p ?]|]; [|injection Erd as <- _; constructor].
    destruct (lookup d p) as [[b|]|]; try discriminate. injection Erd as <- _. repeat constructor. }
  constructor; [exact I|]. constructor; [exact I|]. apply Forall_app. split; [exact Hrd|].
  apply Forall_app. split; [eapply rounds_keeps; [exact Hf|exact Er]|].
  destruct Hf as (_ & _ & _ & Hts).
  unfold final_events. apply Forall_forall. intros e He. apply in_flat_map in He. destruct He as (i & _ & He).
  cbn [In] in He. destruct He as [<-|[<-|[<-|[]]]]; cbn [keeps]; try exact I; intros E; exact (Hts _ (eq_sym E)).
Qed.

Lemma foreign_untouched n d tr s r m : foreign n -> run step init save load tsv cf d = Some (tr, s, r) ->
  lookup (apply_evs d (firstn m tr)) n = lookup d n.
Proof. intros Hf Hrun. apply keeps_prefix. eapply run_keeps; eassumption. Qed.

End Proofs.

Lemma state_io_anchored : save_state_is_plain_pickle = true /\ load_state_is_plain_unpickle = true.
Proof. split; reflexivity. Qed.

Lemma fresh_examples : @fresh (list Z) [] /\ @fresh (list Z) foreign_dir.
Proof.
  split; [apply fresh_nil|]. split; [|split].
  - vm_compute. repeat constructor; cbn; intuition discriminate.
  - intros n Hn. vm_compute in Hn. repeat (destruct Hn as [<-|Hn]; [reflexivity|]). destruct Hn.
  - intros i. reflexivity.
Qed.

Lemma process_independent :
  checkpoint_code_is_process_independent = true /\ experiment_loop_is_process_independent = true.
Proof. split; reflexivity. Qed.
