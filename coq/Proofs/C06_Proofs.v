(* C06 proofs about Model/C06_Model.v *)
From Coq Require Import ZArith QArith Qabs List Bool Lia Lqa Setoid Morphisms.
From FV Require Import Common.ListX Common.Batch Common.CMonoid Common.NanQ Common.QVec gen.Gen_util gen.Gen_tree_util
  Model.C06_Model.
Import ListNotations.
Local Open Scope Q_scope.

(* ---------- safe_div (translated from fedjax/core/util.py) ---------- *)
Lemma safe_div_Some a b : safe_div (Some a) (Some b) = if Qeq_bool b 0 then Some 0 else Some (a / b).
Proof.
  unfold safe_div. cbn. destruct (Qeq_bool b 0) eqn:E; cbn; [reflexivity|]. rewrite E. reflexivity.
Qed.

Lemma Qeq_bool_congr a b : a == b -> Qeq_bool a 0 = Qeq_bool b 0.
Proof.
  intros H. destruct (Qeq_bool a 0) eqn:Ea, (Qeq_bool b 0) eqn:Eb; try reflexivity.
  - apply Qeq_bool_iff in Ea. apply Qeq_bool_neq in Eb. exfalso. apply Eb. rewrite <- H. exact Ea.
  - apply Qeq_bool_iff in Eb. apply Qeq_bool_neq in Ea. exfalso. apply Ea. rewrite H. exact Eb.
Qed.

Definition qdiv0 (a b : Q) : Q := if Qeq_bool b 0 then 0 else a / b.

Lemma safe_div_qdiv0 a b : safe_div (Some a) (Some b) = Some (qdiv0 a b).
Proof. rewrite safe_div_Some. unfold qdiv0. now destruct (Qeq_bool b 0). Qed.

Lemma qdiv0_congr a a' b b' : a == a' -> b == b' -> qdiv0 a b == qdiv0 a' b'.
Proof.
  intros Ha Hb. unfold qdiv0. rewrite (Qeq_bool_congr b b' Hb). destruct (Qeq_bool b' 0); [reflexivity|].
  rewrite Ha, Hb. reflexivity.
Qed.

(* ---------- masked sums ---------- *)
Lemma vdot_mask_strip : forall vals m, vdot_mask vals m == qsum (strip vals m).
Proof.
  unfold vdot_mask. induction vals as [|v vals IH]; intros [|b m]; cbn; try reflexivity.
  rewrite IH. destruct b; cbn; ring.
Qed.

Lemma vdot_mask_l_strip : forall vals m, vdot_mask_l m vals == qsum (strip vals m).
Proof.
  unfold vdot_mask_l. induction vals as [|v vals IH]; intros [|b m]; cbn; try reflexivity.
  rewrite IH. destruct b; cbn; ring.
Qed.

Lemma qlen_cons {A} (x : A) l : qlen (x :: l) == 1 + qlen l.
Proof. unfold qlen. cbn [length]. rewrite Nat2Z.inj_succ, <- Z.add_1_l, inject_Z_plus. reflexivity. Qed.
Lemma qlen_nil {A} : @qlen A [] == 0. Proof. reflexivity. Qed.
Lemma qlen_app {A} (l1 l2 : list A) : qlen (l1 ++ l2) == qlen l1 + qlen l2.
Proof. unfold qlen. rewrite app_length, Nat2Z.inj_add, inject_Z_plus. reflexivity. Qed.
Lemma qlen_nonneg {A} (l : list A) : 0 <= qlen l.
Proof. unfold qlen. change 0 with (inject_Z 0). rewrite <- Zle_Qle. lia. Qed.
Lemma qlen_zero {A} (l : list A) : qlen l == 0 -> l = [].
Proof.
  unfold qlen. change 0 with (inject_Z 0). rewrite inject_Z_injective. destruct l; [reflexivity|cbn; lia].
Qed.

Lemma count_strip : forall (vals : list Q) m, length vals = length m -> count m == qlen (strip vals m).
Proof.
  unfold count. induction vals as [|v vals IH]; intros [|b m] H; cbn in H; try lia; [reflexivity|].
  cbn [map qsum strip]. rewrite IH by lia. destruct b; cbn [qm]; [rewrite qlen_cons|]; ring.
Qed.

Lemma count_all_false m : Forall (fun b => b = false) m -> count m == 0.
Proof. unfold count. induction 1 as [|b m Hb _ IH]; cbn; [reflexivity|]. subst. rewrite IH. cbn. ring. Qed.

(* mean of a list, 0 for the empty list *)
Definition mean_q (l : list Q) : Q := qdiv0 (qsum l) (qlen l).
Definition dq (r : option Q) : Q := match r with Some d => d | None => 0 end.

(* ---------- one batch ---------- *)
Definition wf_mask (vals : list Q) (m : list bool) : Prop := length vals = length m.

Lemma add_reg_Some x r : add_reg (Some x) r = Some (match r with Some d => x + d | None => x end).
Proof. destruct r; reflexivity. Qed.

Lemma add_reg_eq x y r : x == y -> NanQ.eq (add_reg (Some x) r) (Some (y + dq r)).
Proof. intros H. destruct r; cbn; rewrite H; ring. Qed.

Lemma batch_mean_masked vals m : batch_mean vals (Some m) = Some (qdiv0 (vdot_mask vals m) (count m)).
Proof. apply safe_div_qdiv0. Qed.

Lemma masked_mean_closed vals m : wf_mask vals m -> qdiv0 (vdot_mask vals m) (count m) == mean_q (strip vals m).
Proof. intros H. apply qdiv0_congr; [apply vdot_mask_strip|now apply count_strip]. Qed.

Lemma scalar_loss_masked_closed vals m r : wf_mask vals m ->
  NanQ.eq (scalar_loss vals (Some m) r) (Some (mean_q (strip vals m) + dq r)).
Proof.
  intros H. unfold scalar_loss. rewrite batch_mean_masked. apply add_reg_eq. now apply masked_mean_closed.
Qed.

Lemma scalar_loss_unmasked_closed vals r : vals <> [] ->
  NanQ.eq (scalar_loss vals None r) (Some (mean_q vals + dq r)).
Proof.
  intros H. unfold scalar_loss, batch_mean, mean_q, qdiv0. cbn [NanQ.div].
  destruct (Qeq_bool (qlen vals) 0) eqn:E.
  - apply Qeq_bool_iff in E. apply qlen_zero in E. contradiction.
  - apply add_reg_eq. reflexivity.
Qed.

Lemma grad_padded_eq_unpadded vals m r : wf_mask vals m -> strip vals m <> [] ->
  NanQ.eq (scalar_loss vals (Some m) r) (scalar_loss (strip vals m) None r).
Proof.
  intros H Hne. rewrite scalar_loss_masked_closed by exact H. symmetry. now apply scalar_loss_unmasked_closed.
Qed.

Lemma grad_padding_irrelevant vals m vals' m' r : wf_mask vals m -> wf_mask vals' m' ->
  strip vals m = strip vals' m' -> NanQ.eq (scalar_loss vals (Some m) r) (scalar_loss vals' (Some m') r).
Proof.
  intros H H' E. rewrite !scalar_loss_masked_closed by assumption. now rewrite E.
Qed.

Lemma all_padded_is_reg_only vals m r : Forall (fun b => b = false) m ->
  scalar_loss vals (Some m) r = add_reg (Some 0) r.
Proof.
  intros H. unfold scalar_loss. rewrite batch_mean_masked. unfold qdiv0.
  apply count_all_false in H. apply Qeq_bool_iff in H. now rewrite H.
Qed.

(* ---------- average loss over batches ---------- *)
Definition sreal (b : sbatch) : list Q := match snd b with Some m => strip (fst b) m | None => fst b end.
Definition wf_s (b : sbatch) : Prop := match snd b with Some m => wf_mask (fst b) m | None => True end.
Definition sall (bs : list sbatch) : list Q := concat (map sreal bs).

Lemma avg_fold bs : Forall wf_s bs -> forall acc,
  fst (fold_left avg_step bs acc) == fst acc + qsum (sall bs) /\
  snd (fold_left avg_step bs acc) == snd acc + qlen (sall bs).
Proof.
  induction 1 as [|b bs Hb _ IH]; intros acc.
  - unfold sall. cbn [map concat fold_left qsum]. rewrite qlen_nil. split; ring.
  - cbn [fold_left]. destruct (IH (avg_step acc b)) as [I1 I2]. rewrite I1, I2.
    unfold sall. cbn [map concat]. rewrite qsum_app, qlen_app. fold (sall bs).
    destruct b as [vals [m|]]; unfold avg_step, sreal, wf_s in *; cbn [fst snd] in *.
    + rewrite vdot_mask_l_strip, (count_strip vals m Hb). split; ring.
    + split; ring.
Qed.

Lemma avg_loss_closed bs r : Forall wf_s bs -> NanQ.eq (avg_loss bs r) (Some (mean_q (sall bs) + dq r)).
Proof.
  intros H. unfold avg_loss. rewrite safe_div_qdiv0. apply add_reg_eq.
  destruct (avg_fold bs H (0, 0)) as [I1 I2]. cbn [fst snd] in *. apply qdiv0_congr; [rewrite I1|rewrite I2]; ring.
Qed.

Lemma avg_loss_geometry_free bs bs' r : Forall wf_s bs -> Forall wf_s bs' -> sall bs = sall bs' ->
  NanQ.eq (avg_loss bs r) (avg_loss bs' r).
Proof. intros H H' E. rewrite !avg_loss_closed by assumption. now rewrite E. Qed.

Lemma avg_loss_empty bs r : Forall wf_s bs -> sall bs = [] -> NanQ.eq (avg_loss bs r) (Some (dq r)).
Proof. intros H E. rewrite avg_loss_closed by exact H. rewrite E. cbn. unfold mean_q, qdiv0. cbn. ring. Qed.

(* ---------- Mime full-batch gradient ---------- *)
Definition mreal (b : mbatch) : list Q := strip (fst b) (snd b).
Definition wf_m (b : mbatch) : Prop := wf_mask (fst b) (snd b).
Definition mall (bs : list mbatch) : list Q := concat (map mreal bs).
Definition call (cl : list (list mbatch)) : list Q := concat (map mall cl).

Definition gval (dr : option Q) (b : mbatch) : Q :=
  let base := qdiv0 (vdot_mask (fst b) (snd b)) (count (snd b)) in
  match dr with Some d => base + d | None => base end.
Definition mstep_q (dr : option Q) (st : Q * Q) (b : mbatch) : Q * Q :=
  (gval dr b * count (snd b) + fst st, snd st + count (snd b)).
Definition somep (p : Q * Q) : NanQ.t * NanQ.t := (Some (fst p), Some (snd p)).

Lemma mime_step_somep dr st b : mime_step dr (somep st) b = somep (mstep_q dr st b).
Proof.
  unfold mime_step, mstep_q, somep, scalar_loss, gval. rewrite batch_mean_masked, add_reg_Some.
  destruct dr; reflexivity.
Qed.

Lemma mime_fold_somep dr bs : forall st, fold_left (mime_step dr) bs (somep st) = somep (fold_left (mstep_q dr) bs st).
Proof. induction bs as [|b bs IH]; intros st; [reflexivity|]. cbn [fold_left]. rewrite mime_step_somep. apply IH. Qed.

Lemma mime_client_somep dr bs : mime_client dr bs = somep (fold_left (mstep_q dr) bs (0, 0)).
Proof. apply (mime_fold_somep dr bs (0, 0)). Qed.

Lemma gval_times_count dr b : wf_m b -> gval dr b * count (snd b) == qsum (mreal b) + dq dr * qlen (mreal b).
Proof.
  intros H. destruct b as [vals m]. unfold wf_m, mreal, gval, qdiv0 in *. cbn [fst snd] in *.
  pose proof (count_strip vals m H) as Hc. pose proof (vdot_mask_strip vals m) as Hv.
  destruct (Qeq_bool (count m) 0) eqn:E.
  - apply Qeq_bool_iff in E. assert (Hz : strip vals m = []) by (apply qlen_zero; rewrite <- Hc; exact E).
    rewrite Hz, E. cbn [qsum]. rewrite qlen_nil. destruct dr; cbn [dq]; ring.
  - apply Qeq_bool_neq in E. rewrite <- Hc, <- Hv. destruct dr; cbn [dq]; field; exact E.
Qed.

Lemma mstep_fold dr bs : Forall wf_m bs -> forall st,
  fst (fold_left (mstep_q dr) bs st) == fst st + qsum (mall bs) + dq dr * qlen (mall bs) /\
  snd (fold_left (mstep_q dr) bs st) == snd st + qlen (mall bs).
Proof.
  induction 1 as [|b bs Hb _ IH]; intros st.
  - unfold mall. cbn [map concat fold_left qsum]. rewrite qlen_nil. split; ring.
  - cbn [fold_left]. destruct (IH (mstep_q dr st b)) as [I1 I2]. rewrite I1, I2.
    unfold mall. cbn [map concat]. rewrite qsum_app, qlen_app. fold (mall bs).
    unfold mstep_q. cbn [fst snd]. rewrite (gval_times_count dr b Hb).
    rewrite (count_strip (fst b) (snd b) Hb). fold (mreal b). split; ring.
Qed.

Definition padd_q (a b : Q * Q) : Q * Q := (fst a + fst b, snd a + snd b).
Lemma pair_add_somep a b : pair_add (somep a) (somep b) = somep (padd_q a b).
Proof. reflexivity. Qed.
Lemma pair_fold_somep l : forall a, fold_left pair_add (map somep l) (somep a) = somep (fold_left padd_q l a).
Proof. induction l as [|x l IH]; intros a; [reflexivity|]. cbn [map fold_left]. rewrite pair_add_somep. apply IH. Qed.

Lemma padd_fold dr cl : Forall (Forall wf_m) cl -> forall a,
  fst (fold_left padd_q (map (fun bs => fold_left (mstep_q dr) bs (0, 0)) cl) a) == fst a + qsum (call cl) + dq dr * qlen (call cl) /\
  snd (fold_left padd_q (map (fun bs => fold_left (mstep_q dr) bs (0, 0)) cl) a) == snd a + qlen (call cl).
Proof.
  induction 1 as [|bs cl Hbs _ IH]; intros a.
  - unfold call. cbn [map concat fold_left qsum]. rewrite qlen_nil. split; ring.
  - cbn [map fold_left]. destruct (IH (padd_q a (fold_left (mstep_q dr) bs (0, 0)))) as [I1 I2]. rewrite I1, I2.
    destruct (mstep_fold dr bs Hbs (0, 0)) as [J1 J2]. unfold padd_q. cbn [fst snd] in *. rewrite J1, J2.
    unfold call. cbn [map concat]. rewrite qsum_app, qlen_app. fold (call cl). split; ring.
Qed.

Lemma inv_weight_pos w : 0 < w -> inv_weight (Some w) = Some (1 / w).
Proof.
  intros H. unfold inv_weight. cbn. apply Qltb_lt in H. rewrite H. cbn.
  destruct (Qeq_bool w 0) eqn:E; [|reflexivity]. apply Qeq_bool_iff in E. apply Qltb_lt in H. lra.
Qed.
Lemma inv_weight_nonpos w : w <= 0 -> inv_weight (Some w) = Some 0.
Proof. intros H. unfold inv_weight. cbn. apply Qltb_ge in H. now rewrite H. Qed.

Lemma mime_fullbatch_closed dr cl : cl <> [] -> Forall (Forall wf_m) cl ->
  NanQ.eq (mime_fullbatch dr cl)
          (Some (if Qeq_bool (qlen (call cl)) 0 then 0 else mean_q (call cl) + dq dr)).
Proof.
  intros Hne H. unfold mime_fullbatch. destruct cl as [|bs cl]; [contradiction|].
  cbn [map pair_sum]. rewrite mime_client_somep.
  rewrite (map_ext _ (fun bs => somep (fold_left (mstep_q dr) bs (0, 0)))) by (intros; apply mime_client_somep).
  rewrite <- (map_map (fun bs => fold_left (mstep_q dr) bs (0, 0)) somep), pair_fold_somep.
  inversion H as [|? ? Hbs Hcl]; subst.
  destruct (padd_fold dr cl Hcl (fold_left (mstep_q dr) bs (0, 0))) as [I1 I2].
  destruct (mstep_fold dr bs Hbs (0, 0)) as [J1 J2]. cbn [fst snd] in J1, J2.
  set (tot := fold_left padd_q _ _) in *.
  assert (T1 : fst tot == qsum (call (bs :: cl)) + dq dr * qlen (call (bs :: cl))).
  { rewrite I1, J1. unfold call. cbn [map concat]. rewrite qsum_app, qlen_app. ring. }
  assert (T2 : snd tot == qlen (call (bs :: cl))).
  { rewrite I2, J2. unfold call. cbn [map concat]. rewrite qlen_app. ring. }
  unfold somep. cbn [fst snd]. pose proof (qlen_nonneg (call (bs :: cl))) as Hnn.
  unfold mean_q, qdiv0. destruct (Qeq_bool (qlen (call (bs :: cl))) 0) eqn:E.
  - apply Qeq_bool_iff in E. rewrite inv_weight_nonpos by (rewrite T2, E; apply Qle_refl).
    cbn [NanQ.mul NanQ.lift2 NanQ.eq]. ring.
  - apply Qeq_bool_neq in E. rewrite inv_weight_pos by (rewrite T2; lra).
    cbn [NanQ.mul NanQ.lift2 NanQ.eq]. rewrite T1, T2. field. exact E.
Qed.

Lemma mime_fullbatch_geometry_free dr cl cl' : cl <> [] -> cl' <> [] ->
  Forall (Forall wf_m) cl -> Forall (Forall wf_m) cl' -> call cl = call cl' ->
  NanQ.eq (mime_fullbatch dr cl) (mime_fullbatch dr cl').
Proof. intros N N' H H' E. rewrite !mime_fullbatch_closed by assumption. now rewrite E. Qed.

(* the per-coordinate accumulation is the translated tree_util arithmetic on a one-leaf tree *)
Lemma mime_step_is_tree_util dr st b :
  let g := scalar_loss (fst b) (Some (snd b)) dr in
  let num := Some (count (snd b)) in
  tree_add (tree_weight [g] num) [fst st] = [fst (mime_step dr st b)].
Proof. reflexivity. Qed.
Lemma inv_weight_is_tree_util x w : tree_inverse_weight [x] w = [NanQ.mul x (inv_weight w)].
Proof. reflexivity. Qed.

(* ---------- per-domain sums ---------- *)
Definition seg_at (d : Z) (vals : list Q) (ids : list Z) : Q :=
  qsum (map2 (fun v i => if (i =? d)%Z then v else 0) vals ids).
Definition dvals (b : dbatch) : list Q := fst (fst b).
Definition dmask (b : dbatch) : list bool := snd (fst b).
Definition dids (b : dbatch) : list Z := snd b.
(* the real (loss, domain id) pairs and the real domain ids of a batch *)
Definition dreal (b : dbatch) : list (Q * Z) := strip (combine (dvals b) (dids b)) (dmask b).
Definition dreal_ids (b : dbatch) : list Z := strip (dids b) (dmask b).
Definition dom_sum (d : Z) (ps : list (Q * Z)) : Q := qsum (map fst (filter (fun p => (snd p =? d)%Z) ps)).
Definition dom_cnt (d : Z) (ids : list Z) : Q := qlen (filter (fun i => (i =? d)%Z) ids).

Definition ex_of (b : dbatch) : list Q := map2 (fun v b => v * qm b) (dvals b) (dmask b).
Definition dl_at (r : option Q) (d : Z) (a : Q) (b : dbatch) : Q :=
  a + match r with Some r => seg_at d (ex_of b) (dids b) + r | None => seg_at d (ex_of b) (dids b) end.
Definition dn_at (d : Z) (a : Q) (b : dbatch) : Q := a + seg_at d (map qm (dmask b)) (dids b).

Lemma map2_map_seq {A B C} (h : A -> B -> C) (f : nat -> A) (g : nat -> B) l :
  map2 h (map f l) (map g l) = map (fun x => h (f x) (g x)) l.
Proof. induction l as [|x l IH]; cbn; [reflexivity|]. now rewrite IH. Qed.

Lemma domain_step_pointwise nd r F C b :
  domain_step nd r (map F (seq 0 nd), map C (seq 0 nd)) b =
  (map (fun d => dl_at r (Z.of_nat d) (F d) b) (seq 0 nd), map (fun d => dn_at (Z.of_nat d) (C d) b) (seq 0 nd)).
Proof.
  destruct b as [[vals m] ids]. unfold domain_step, segment_sum, dl_at, dn_at, seg_at, ex_of, dvals, dmask, dids. cbn [fst snd].
  destruct r; [rewrite map_map|]; rewrite !map2_map_seq; reflexivity.
Qed.

Lemma domain_fold_pointwise nd r bs : forall F C,
  fold_left (domain_step nd r) bs (map F (seq 0 nd), map C (seq 0 nd)) =
  (map (fun d => fold_left (dl_at r (Z.of_nat d)) bs (F d)) (seq 0 nd),
   map (fun d => fold_left (dn_at (Z.of_nat d)) bs (C d)) (seq 0 nd)).
Proof.
  induction bs as [|b bs IH]; intros F C; [reflexivity|].
  cbn [fold_left]. rewrite domain_step_pointwise. apply (IH (fun d => dl_at r (Z.of_nat d) (F d) b) (fun d => dn_at (Z.of_nat d) (C d) b)).
Qed.

Lemma repeat_map_seq {A} (x : A) n : repeat x n = map (fun _ => x) (seq 0 n).
Proof. generalize 0%nat. induction n as [|n IH]; intros a; cbn; [reflexivity|]. now rewrite (IH (S a)). Qed.

Lemma domain_metrics_pointwise nd r bs :
  domain_metrics nd r bs =
  (map (fun d => fold_left (dl_at r (Z.of_nat d)) bs 0) (seq 0 nd),
   map (fun d => fold_left (dn_at (Z.of_nat d)) bs 0) (seq 0 nd)).
Proof. unfold domain_metrics. rewrite (repeat_map_seq 0 nd). apply (domain_fold_pointwise nd r bs (fun _ => 0) (fun _ => 0)). Qed.

Lemma seg_loss_strip d : forall vals m ids,
  seg_at d (map2 (fun v b => v * qm b) vals m) ids == dom_sum d (strip (combine vals ids) m).
Proof.
  unfold seg_at, dom_sum. induction vals as [|v vals IH]; intros m ids; [reflexivity|].
  destruct m as [|b m]; [destruct ids; reflexivity|]. destruct ids as [|i ids]; [reflexivity|].
  cbn [map2 combine strip qsum]. rewrite IH. destruct b; cbn [qm].
  - cbn [filter snd]. destruct (i =? d)%Z; cbn [map fst qsum]; ring.
  - destruct (i =? d)%Z; ring.
Qed.

Lemma seg_cnt_strip d : forall m ids, seg_at d (map qm m) ids == dom_cnt d (strip ids m).
Proof.
  unfold seg_at, dom_cnt. induction m as [|b m IH]; intros ids.
  - destruct ids; reflexivity.
  - destruct ids as [|i ids]; [reflexivity|].
    cbn [map map2 strip qsum]. rewrite IH. destruct b; cbn [qm filter].
    + destruct (i =? d)%Z; [rewrite qlen_cons|]; ring.
    + destruct (i =? d)%Z; ring.
Qed.

Lemma strip_nil_l {A} (m : list bool) : strip (@nil A) m = [].
Proof. destruct m; reflexivity. Qed.

Lemma dom_sum_app d l1 l2 : dom_sum d (l1 ++ l2) == dom_sum d l1 + dom_sum d l2.
Proof. unfold dom_sum. rewrite filter_app, map_app. apply qsum_app. Qed.
Lemma dom_cnt_app d l1 l2 : dom_cnt d (l1 ++ l2) == dom_cnt d l1 + dom_cnt d l2.
Proof. unfold dom_cnt. rewrite filter_app. apply qlen_app. Qed.

Lemma dl_fold d bs : forall a,
  fold_left (dl_at None d) bs a == a + dom_sum d (concat (map dreal bs)).
Proof.
  induction bs as [|b bs IH]; intros a; [unfold dom_sum; cbn [fold_left map concat filter qsum]; ring|].
  cbn [fold_left map concat]. rewrite IH, dom_sum_app. unfold dl_at, ex_of, dreal. rewrite seg_loss_strip. ring.
Qed.
Lemma dn_fold d bs : forall a,
  fold_left (dn_at d) bs a == a + dom_cnt d (concat (map dreal_ids bs)).
Proof.
  induction bs as [|b bs IH]; intros a; [unfold dom_cnt; cbn [fold_left map concat filter]; rewrite qlen_nil; ring|].
  cbn [fold_left map concat]. rewrite IH, dom_cnt_app. unfold dn_at, dreal_ids. rewrite seg_cnt_strip. ring.
Qed.

Lemma Forall2_map_seq (f g : nat -> Q) n : (forall d, f d == g d) -> Forall2 Qeq (map f (seq 0 n)) (map g (seq 0 n)).
Proof. intros H. generalize 0%nat. induction n as [|n IH]; intros a; cbn; constructor; [apply H|apply IH]. Qed.

Lemma domain_sums_closed nd bs :
  Forall2 Qeq (fst (domain_metrics nd None bs))
              (map (fun d => dom_sum (Z.of_nat d) (concat (map dreal bs))) (seq 0 nd)) /\
  Forall2 Qeq (snd (domain_metrics nd None bs))
              (map (fun d => dom_cnt (Z.of_nat d) (concat (map dreal_ids bs))) (seq 0 nd)).
Proof.
  rewrite domain_metrics_pointwise. cbn [fst snd]. split; apply Forall2_map_seq; intros d.
  - rewrite dl_fold. ring.
  - rewrite dn_fold. ring.
Qed.

Lemma Forall2_Qeq_trans l1 l2 l3 : Forall2 Qeq l1 l2 -> Forall2 Qeq l2 l3 -> Forall2 Qeq l1 l3.
Proof.
  intros H. revert l3. induction H as [|x y l1 l2 Hxy _ IH]; intros l3 H'; inversion H'; subst; constructor.
  - now rewrite Hxy.
  - now apply IH.
Qed.
Lemma Forall2_Qeq_sym l1 l2 : Forall2 Qeq l1 l2 -> Forall2 Qeq l2 l1.
Proof. induction 1; constructor; [now symmetry|assumption]. Qed.

Lemma domain_sums_geometry_free nd bs bs' :
  concat (map dreal bs) = concat (map dreal bs') -> concat (map dreal_ids bs) = concat (map dreal_ids bs') ->
  Forall2 Qeq (fst (domain_metrics nd None bs)) (fst (domain_metrics nd None bs')) /\
  Forall2 Qeq (snd (domain_metrics nd None bs)) (snd (domain_metrics nd None bs')).
Proof.
  intros E1 E2. destruct (domain_sums_closed nd bs) as [A1 A2]. destruct (domain_sums_closed nd bs') as [B1 B2].
  rewrite E1 in A1. rewrite E2 in A2. split; eapply Forall2_Qeq_trans; try eassumption; now apply Forall2_Qeq_sym.
Qed.

(* with a regulariser the model (and the code) adds r once per batch to every domain *)
Lemma dl_fold_reg r d bs : forall a,
  fold_left (dl_at (Some r) d) bs a == a + dom_sum d (concat (map dreal bs)) + qlen bs * r.
Proof.
  induction bs as [|b bs IH]; intros a; [unfold dom_sum; cbn [fold_left map concat filter qsum]; rewrite qlen_nil; ring|].
  cbn [fold_left map concat]. rewrite IH, dom_sum_app, qlen_cons. unfold dl_at, ex_of, dreal. rewrite seg_loss_strip. ring.
Qed.

Lemma domain_sums_regularizer_closed nd r bs :
  Forall2 Qeq (fst (domain_metrics nd (Some r) bs))
              (map (fun d => dom_sum (Z.of_nat d) (concat (map dreal bs)) + qlen bs * r) (seq 0 nd)).
Proof.
  rewrite domain_metrics_pointwise. cbn [fst]. apply Forall2_map_seq. intros d. rewrite dl_fold_reg. ring.
Qed.

Lemma domain_sums_regularizer_refuted :
  exists nd r bs bs',
    concat (map dreal bs) = concat (map dreal bs') /\ concat (map dreal_ids bs) = concat (map dreal_ids bs') /\
    ~ Forall2 Qeq (fst (domain_metrics nd (Some r) bs)) (fst (domain_metrics nd (Some r) bs')).
Proof.
  exists 2%nat, 1,
    [([4; 16], [true; true], [0; 1]%Z)],
    [([4], [true], [0%Z]); ([16; 0], [true; false], [1; 0]%Z)].
  split; [reflexivity|]. split; [reflexivity|].
  intros H. inversion H as [|? ? ? ? Hx _]; subst. vm_compute in Hx. discriminate.
Qed.

Lemma mime_fullbatch_nonempty dr cl : cl <> [] -> Forall (Forall wf_m) cl -> call cl <> [] ->
  NanQ.eq (mime_fullbatch dr cl) (Some (mean_q (call cl) + dq dr)).
Proof.
  intros N H R. rewrite mime_fullbatch_closed by assumption.
  destruct (Qeq_bool (qlen (call cl)) 0) eqn:E; [|reflexivity].
  apply Qeq_bool_iff in E. apply qlen_zero in E. contradiction.
Qed.

(* ====================================================================== *)
(* The kernels translated from models.py / mime.py / mime_lite.py /         *)
(* agnostic_fed_avg.py equal the specification functions of the model.      *)
(* ====================================================================== *)
Lemma inj_sum a : NanQ.sum (inj a) = Some (qsum a).
Proof. unfold inj. rewrite NanQ.sum_Some. f_equal; try (symmetry; apply qsum_fold_right). Qed.
Lemma injm_map m : injm m = inj (map qm m).
Proof. unfold injm, inj. now rewrite map_map. Qed.
Lemma injm_sum m : NanQ.sum (injm m) = Some (count m).
Proof. rewrite injm_map. apply inj_sum. Qed.
Lemma inj_len a : nq_len (inj a) = Some (qlen a).
Proof. unfold nq_len, inj, qlen. now rewrite map_length. Qed.
Lemma inj_map2 (f : Q -> Q -> Q) a b : map2 (NanQ.lift2 f) (inj a) (inj b) = inj (map2 f a b).
Proof. unfold inj. revert b. induction a as [|x a IH]; intros [|y b]; cbn; try reflexivity. now rewrite IH. Qed.
Lemma inj_vdot a m : nq_vdot (inj a) (injm m) = Some (vdot_mask a m).
Proof.
  unfold nq_vdot, vdot_mask. rewrite injm_map. change NanQ.mul with (NanQ.lift2 Qmult).
  rewrite inj_map2, inj_sum, map2_map_r. reflexivity.
Qed.
Lemma inj_vdot_l a m : nq_vdot (injm m) (inj a) = Some (vdot_mask_l m a).
Proof.
  unfold nq_vdot, vdot_mask_l. rewrite injm_map. change NanQ.mul with (NanQ.lift2 Qmult).
  rewrite inj_map2, inj_sum, map2_map_l. reflexivity.
Qed.

Lemma t_scalar_loss_spec vals m r : t_scalar_loss vals m r = scalar_loss vals m r.
Proof.
  unfold t_scalar_loss, gen_scalar_loss, scalar_loss, batch_mean, add_reg, nq_mean.
  destruct m as [m|]; cbn [option_map].
  - rewrite injm_sum, inj_vdot. destruct r; reflexivity.
  - rewrite inj_sum, inj_len. destruct r; reflexivity.
Qed.

Lemma t_avg_step_spec acc b : t_avg_step (somep acc) b = somep (avg_step acc b).
Proof.
  unfold t_avg_step, gen_avg_step, avg_step, somep. destruct b as [vals [m|]]; cbn [fst snd option_map].
  - rewrite inj_vdot_l, injm_sum. reflexivity.
  - rewrite inj_sum, inj_len. reflexivity.
Qed.

Lemma t_avg_fold bs : forall acc, fold_left t_avg_step bs (somep acc) = somep (fold_left avg_step bs acc).
Proof. induction bs as [|b bs IH]; intros acc; [reflexivity|]. cbn [fold_left]. rewrite t_avg_step_spec. apply IH. Qed.

Lemma t_avg_loss_spec bs r : t_avg_loss bs r = avg_loss bs r.
Proof.
  unfold t_avg_loss, avg_loss. change (NanQ.zero, NanQ.zero) with (somep (0, 0)). rewrite t_avg_fold.
  unfold gen_finalize_avg, add_reg, somep. cbn [fst snd]. destruct r; reflexivity.
Qed.

Definition one_leaf (st : NanQ.t * NanQ.t) : list NanQ.t * NanQ.t := ([fst st], snd st).

Lemma t_mime_step_spec dr st b : t_mime_step dr (one_leaf st) b = one_leaf (mime_step dr st b).
Proof.
  unfold t_mime_step, gen_mime_client_step, mime_step, one_leaf. cbn [fst snd].
  rewrite t_scalar_loss_spec, injm_sum. reflexivity.
Qed.

Lemma t_mime_client_spec dr bs : t_mime_client dr bs = one_leaf (mime_client dr bs).
Proof.
  unfold t_mime_client, mime_client. change ([NanQ.zero], NanQ.zero) with (one_leaf (NanQ.zero, NanQ.zero)).
  generalize (NanQ.zero, NanQ.zero). induction bs as [|b bs IH]; intros st; [reflexivity|].
  cbn [fold_left]. rewrite t_mime_step_spec. apply IH.
Qed.

Lemma tpair_fold l : forall a, fold_left tpair_add (map one_leaf l) (one_leaf a) = one_leaf (fold_left pair_add l a).
Proof. induction l as [|x l IH]; intros a; [reflexivity|]. cbn [map fold_left]. apply (IH (pair_add a x)). Qed.

Lemma t_mime_fullbatch_spec lite dr cl : t_mime_fullbatch lite dr cl = mime_fullbatch dr cl.
Proof.
  unfold t_mime_fullbatch, mime_fullbatch.
  rewrite (map_ext _ (fun bs => one_leaf (mime_client dr bs))) by (intros; apply t_mime_client_spec).
  rewrite <- (map_map (mime_client dr) one_leaf).
  assert (E : tpair_sum (map one_leaf (map (mime_client dr) cl)) = one_leaf (pair_sum (map (mime_client dr) cl))).
  { destruct (map (mime_client dr) cl) as [|x l]; [reflexivity|]. cbn [map tpair_sum pair_sum]. apply tpair_fold. }
  rewrite E. unfold one_leaf. cbn [fst snd]. destruct lite; reflexivity.
Qed.

Lemma inj_segment_sum vals ids nd : nq_segment_sum (inj vals) ids nd = inj (segment_sum vals ids nd).
Proof.
  unfold nq_segment_sum, segment_sum, inj. rewrite map_map. apply map_ext. intros d.
  rewrite (qsum_fold_right _), <- (NanQ.sum_Some). f_equal.
  revert ids. induction vals as [|v vals IH]; intros [|i ids]; cbn; try reflexivity.
  rewrite IH. now destruct (i =? Z.of_nat d)%Z.
Qed.

Lemma inj_map2_plus a b : map2 NanQ.add (inj a) (inj b) = inj (map2 Qplus a b).
Proof. apply (inj_map2 Qplus). Qed.

Lemma t_domain_step_spec nd r st b :
  t_domain_step nd r (inj (fst st), inj (snd st)) b =
  (inj (fst (domain_step nd r st b)), inj (snd (domain_step nd r st b))).
Proof.
  destruct b as [[vals m] ids]. unfold t_domain_step, gen_domain_step, domain_step. cbn [fst snd].
  rewrite injm_map. change NanQ.mul with (NanQ.lift2 Qmult). rewrite inj_map2, !inj_segment_sum, map2_map_r.
  destruct r as [r|]; cbn [option_map].
  - f_equal; [|apply inj_map2_plus]. rewrite <- inj_map2_plus. f_equal. unfold inj. rewrite !map_map. reflexivity.
  - f_equal; apply inj_map2_plus.
Qed.

Lemma t_domain_metrics_spec nd r bs :
  t_domain_metrics nd r bs = (inj (fst (domain_metrics nd r bs)), inj (snd (domain_metrics nd r bs))).
Proof.
  unfold t_domain_metrics, domain_metrics.
  assert (E : repeat NanQ.zero nd = inj (repeat 0 nd)) by (unfold inj; clear; induction nd as [|n IHn]; cbn; [reflexivity|now rewrite <- IHn]).
  rewrite E. change (inj (repeat 0 nd), inj (repeat 0 nd)) with (inj (fst (repeat 0 nd, repeat 0 nd)), inj (snd (repeat 0 nd, repeat 0 nd))).
  generalize (repeat 0 nd, repeat 0 nd). induction bs as [|b bs IH]; intros st; [reflexivity|].
  cbn [fold_left]. rewrite t_domain_step_spec. apply IH.
Qed.

Lemma translated_kernels :
  (forall vals m r, t_scalar_loss vals m r = scalar_loss vals m r) /\
  (forall bs r, t_avg_loss bs r = avg_loss bs r) /\
  (forall dr bs, t_mime_client dr bs = ([fst (mime_client dr bs)], snd (mime_client dr bs))) /\
  (forall lite dr cl, t_mime_fullbatch lite dr cl = mime_fullbatch dr cl) /\
  (forall nd r bs, t_domain_metrics nd r bs = (inj (fst (domain_metrics nd r bs)), inj (snd (domain_metrics nd r bs)))).
Proof.
  split; [exact t_scalar_loss_spec|]. split; [exact t_avg_loss_spec|]. split; [exact t_mime_client_spec|].
  split; [exact t_mime_fullbatch_spec|exact t_domain_metrics_spec].
Qed.

(* ---------- the sum over clients is the translated tree_util.tree_sum ---------- *)
(* a client output (grads_sum, num_sum) as the flat leaf list jax.tree_util sees *)
Definition flat (p : list NanQ.t * NanQ.t) : list NanQ.t := fst p ++ [snd p].

Lemma flat_tpair_add a b : length (fst a) = 1%nat -> length (fst b) = 1%nat ->
  tree_add_eq (flat a) (flat b) = flat (tpair_add a b) /\ length (fst (tpair_add a b)) = 1%nat.
Proof.
  destruct a as [[|x [|? ?]] n], b as [[|y [|? ?]] m]; cbn; intros Ha Hb; try discriminate. split; reflexivity.
Qed.

Lemma tree_sum_fold l : forall acc, length (fst acc) = 1%nat -> Forall (fun p => length (fst p) = 1%nat) l ->
  fold_left tree_sum_step (map flat l) (Some (flat acc)) = Some (flat (fold_left tpair_add l acc)).
Proof.
  induction l as [|y l IH]; intros acc Ha Hl; [reflexivity|].
  inversion Hl as [|? ? Hy Hl']; subst. cbn [map fold_left].
  destruct (flat_tpair_add acc y Ha Hy) as [E L]. unfold tree_sum_step at 2. cbv zeta. rewrite E. apply IH; assumption.
Qed.

Lemma tpair_sum_is_tree_sum l : l <> [] -> Forall (fun p => length (fst p) = 1%nat) l ->
  tree_sum (map flat l) = Some (flat (tpair_sum l)).
Proof.
  intros Hne Hl. destruct l as [|x l]; [contradiction|]. inversion Hl as [|? ? Hx Hl']; subst.
  unfold tree_sum, tree_sum_init. cbn [map fold_left tpair_sum]. unfold tree_sum_step at 2. cbv zeta. unfold copy_tree.
  now apply tree_sum_fold.
Qed.

Lemma t_mime_client_one_leaf dr bs : length (fst (t_mime_client dr bs)) = 1%nat.
Proof. rewrite t_mime_client_spec. reflexivity. Qed.

Lemma mime_clients_tree_sum dr cl : cl <> [] ->
  tree_sum (map flat (map (t_mime_client dr) cl)) = Some (flat (tpair_sum (map (t_mime_client dr) cl))).
Proof.
  intros H. apply tpair_sum_is_tree_sum.
  - destruct cl; [contradiction|discriminate].
  - apply Forall_forall. intros p Hp. apply in_map_iff in Hp. destruct Hp as (bs & <- & _). apply t_mime_client_one_leaf.
Qed.
