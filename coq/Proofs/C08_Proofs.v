(* C08 proofs: the three implementation models refine the abstract view. *)
From Coq Require Import ZArith NArith List Bool Lia Permutation Sorted.
From FV Require Import Common.ListX Common.Bytes Common.PyIter.
From FV Require Import gen.Gen_client_datasets_pre gen.Gen_federated_data gen.Gen_in_memory_federated_data gen.Gen_sqlite_federated_data.
From FV Require Import Model.C08_Model.
From FV Require Model.C15_Model Proofs.C15_Proofs.
Import ListNotations.
Local Open Scope Z_scope.

(* ------------------------------------------------------------------ *)
(* A. the translated kernels and their specifications                   *)

Lemma intersect_spec cs ce ns ne :
  intersect_slice_ranges cs ce ns ne = Some (omax cs ns, omin ce ne).
Proof. destruct cs, ce, ns, ne; reflexivity. Qed.

Lemma in_range_intersect cs ce ns ne i :
  in_range (omax cs ns, omin ce ne) i = in_range (cs, ce) i && in_range (ns, ne) i.
Proof.
  unfold in_range. destruct cs, ce, ns, ne; cbn [omax omin fst snd];
    rewrite ?bleb_bmax, ?bltb_bmin;
    repeat match goal with |- context [bleb ?a ?b] => destruct (bleb a b) end;
    repeat match goal with |- context [bltb ?a ?b] => destruct (bltb a b) end; reflexivity.
Qed.

Lemma filter_true {A} (l : list A) : filter (fun _ => true) l = l.
Proof. induction l; cbn; congruence. Qed.

Lemma in_memory_slice_spec ids s e :
  in_memory_slice_ids ids s e = Some (filter (in_range (s, e)) ids).
Proof.
  destruct s as [s|], e as [e|]; cbn; f_equal.
  - apply filter_ext. intros i. unfold in_range; cbn. now rewrite andb_true_r.
  - symmetry. apply filter_true.
Qed.

Lemma subset_slice_spec {Base} (b : Base) ids s e :
  subset_slice b ids s e = Some (b, filter (in_range (s, e)) ids).
Proof.
  destruct s as [s|], e as [e|]; cbn; f_equal; f_equal.
  - apply filter_ext. intros i. unfold in_range; cbn. now rewrite andb_true_r.
  - symmetry. apply filter_true.
Qed.

(* the preprocessor chains: append adds at the end, __call__ folds from the left *)
Lemma client_append_spec {F} (fns : list F) fn : client_preprocessor_append fns fn = fns ++ [fn].
Proof. reflexivity. Qed.

Lemma batch_append_spec {G} (fns : list G) fn : batch_preprocessor_append fns fn = fns ++ [fn].
Proof. reflexivity. Qed.

Lemma run_c_fold i fs r : run_c i fs r = fold_left (fun acc f => app_c i f acc) fs r.
Proof. unfold run_c, client_preprocessor_call. destruct fs; reflexivity. Qed.

Lemma run_b_fold gs r : run_b gs r = fold_left (fun acc g => app_b g acc) gs r.
Proof. unfold run_b, batch_preprocessor_call. destruct gs; reflexivity. Qed.

Lemma observe_spec d : observe d = (fst d, run_b (snd d) (fst d)).
Proof. reflexivity. Qed.

Lemma mem_client_dataset_spec cs bs i r :
  in_memory_client_dataset applyc cs bs i r = Some (client_dataset i cs bs r).
Proof. reflexivity. Qed.

Lemma sql_client_dataset_spec cs bs i r :
  sqlite_client_dataset applyc cs bs i r = Some (client_dataset i cs bs r).
Proof. reflexivity. Qed.

Lemma sqlite_slice_spec (cs : list cfn) (bs : list bfn) st sp s e :
  sqlite_slice st sp cs bs s e = Some (omax st s, omin sp e, cs, bs).
Proof. unfold sqlite_slice. now rewrite intersect_spec. Qed.

Lemma subset_init_spec have ids :
  subset_init have ids true = if forallb (fun i => bmem i have) (bdedup ids) then Some (bdedup ids) else None.
Proof.
  unfold subset_init. induction (bdedup ids) as [|i l IH]; cbn; [reflexivity|].
  destruct (bmem i have); cbn; [|reflexivity].
  destruct (filter (fun i0 => negb (bmem i0 have)) l) eqn:E; cbn in *.
  - destruct (forallb (fun i0 => bmem i0 have) l); [reflexivity|discriminate].
  - destruct (forallb (fun i0 => bmem i0 have) l); [discriminate|reflexivity].
Qed.

Lemma gets_items_pair (get : id -> res dataset) req : for_yield (fun i => (i, get i)) req = gets get req.
Proof. induction req as [|i req IH]; cbn; [reflexivity|]. rewrite IH. reflexivity. Qed.

Lemma for_yield_all {X K D} (item : X -> K * res D) (k : X -> K) (g : X -> D) l :
  (forall x, In x l -> item x = (k x, Val (g x))) -> for_yield item l = (map (fun x => (k x, g x)) l, Done).
Proof.
  induction l as [|x l IH]; intros H; cbn; [reflexivity|].
  rewrite (H x) by now left. rewrite IH by (intros; apply H; now right). reflexivity.
Qed.

Lemma range_where_spec st sp i : sqlite_range_where st sp i = Some (in_range (st, sp) i).
Proof. destruct st, sp; cbn; unfold in_range; cbn; rewrite ?andb_true_r; reflexivity. Qed.

Lemma get_client_in_range_spec st sp i : sqlite_get_client_in_range st sp i = in_range (st, sp) i.
Proof. reflexivity. Qed.

Lemma client_size_in_range_spec st sp i : sqlite_client_size_in_range st sp i = in_range (st, sp) i.
Proof. reflexivity. Qed.

Lemma sql_select_spec st sp (tbl : table) :
  sql_select st sp tbl = Some (filter (fun kv => in_range (st, sp) (fst kv)) tbl).
Proof.
  induction tbl as [|[i r] t IH]; cbn [sql_where filter fst]; [reflexivity|].
  rewrite range_where_spec, IH. reflexivity.
Qed.

Lemma sqlite_client_size_spec st sp (tbl : table) i :
  sqlite_client_size col_num_examples st sp tbl i =
  if in_range (st, sp) i then match bassoc i tbl with Some r => Val (stored_len r) | None => KeyErr end else KeyErr.
Proof. unfold sqlite_client_size, sql_by_key. destruct (bassoc i tbl); reflexivity. Qed.

Lemma sqlite_get_client_spec cs bs st sp (tbl : table) i :
  sqlite_get_client col_data (sql_dataset_of cs bs) st sp tbl i =
  if in_range (st, sp) i then match bassoc i tbl with Some r => Val (client_dataset i cs bs r) | None => KeyErr end else KeyErr.
Proof. unfold sqlite_get_client, sql_by_key. destruct (bassoc i tbl); reflexivity. Qed.

Ltac gen_unfold :=
  unfold sqlite_num_clients, sqlite_client_ids, sqlite_client_sizes, sqlite_read_clients, fetch_all,
         col_data, col_num_examples in *.

(* ------------------------------------------------------------------ *)
(* B. generic list / table facts                                        *)

Lemma bmem_filter p i l : bmem i (filter p l) = bmem i l && p i.
Proof.
  unfold bmem. induction l as [|j l IH]; cbn [filter existsb]; [reflexivity|].
  destruct (p j) eqn:Pj; cbn [existsb]; rewrite IH; destruct (beqb i j) eqn:E; cbn [orb andb]; try reflexivity.
  - apply beqb_eq in E. subst. now rewrite Pj.
  - apply beqb_eq in E. subst. rewrite Pj. now rewrite andb_false_r.
Qed.

Lemma bmem_bsort i l : bmem i (bsort l) = bmem i l.
Proof.
  destruct (bmem i l) eqn:E.
  - apply bmem_In. apply bsort_In. now apply bmem_In.
  - apply bmem_false. rewrite bsort_In. now apply bmem_false.
Qed.

Lemma bdedup_In i l : In i (bdedup l) <-> In i l.
Proof.
  induction l as [|j l IH]; cbn; [tauto|].
  destruct (bmem j l) eqn:E; cbn; rewrite IH; [|tauto].
  apply bmem_In in E. split; [tauto|]. intros [<-|H]; auto.
Qed.

Lemma bdedup_NoDup l : NoDup (bdedup l).
Proof.
  induction l as [|j l IH]; cbn; [constructor|].
  destruct (bmem j l) eqn:E; [assumption|]. constructor; [|assumption].
  rewrite bdedup_In. now apply bmem_false.
Qed.

Lemma bmem_bdedup i l : bmem i (bdedup l) = bmem i l.
Proof.
  destruct (bmem i l) eqn:E.
  - apply bmem_In, bdedup_In. now apply bmem_In.
  - apply bmem_false. rewrite bdedup_In. now apply bmem_false.
Qed.

Lemma forallb_bdedup p l : forallb p (bdedup l) = forallb p l.
Proof.
  destruct (forallb p l) eqn:E.
  - rewrite forallb_forall in *. intros x Hx. apply E. now apply bdedup_In.
  - destruct (forallb p (bdedup l)) eqn:F; [|reflexivity].
    rewrite forallb_forall in F. rewrite <- E. symmetry. apply forallb_forall.
    intros x Hx. apply F. now apply bdedup_In.
Qed.

Lemma filter_filter {A} (p q : A -> bool) l : filter p (filter q l) = filter (fun x => q x && p x) l.
Proof.
  induction l as [|x l IH]; cbn; [reflexivity|].
  destruct (q x); cbn; [destruct (p x); now rewrite IH|apply IH].
Qed.

Lemma NoDup_filter {A} (p : A -> bool) l : NoDup l -> NoDup (filter p l).
Proof.
  induction 1 as [|x l H ND IH]; cbn; [constructor|].
  destruct (p x); [|assumption]. constructor; [|assumption]. rewrite filter_In. tauto.
Qed.

Lemma NoDup_map_fst_filter {V} (p : bytes * V -> bool) (t : list (bytes * V)) :
  NoDup (map fst t) -> NoDup (map fst (filter p t)).
Proof.
  induction t as [|kv t IH]; cbn; [constructor|]. intros ND. inversion ND as [|? ? H ND']; subst.
  destruct (p kv); cbn; auto. constructor; [|auto].
  intros G. apply H. apply in_map_iff in G. destruct G as [x [E Hx]]. apply filter_In in Hx.
  apply in_map_iff. exists x. tauto.
Qed.

Lemma map_fst_filter {V} (p : bytes -> bool) (t : list (bytes * V)) :
  map fst (filter (fun kv => p (fst kv)) t) = filter p (map fst t).
Proof.
  induction t as [|[k v] t IH]; cbn; [reflexivity|]. destruct (p k); cbn; now rewrite IH.
Qed.

(* a duplicate-free list with exactly the elements of `filter P keys` sorts to the same list *)
Lemma bsort_unique_filter (P : id -> bool) keys l :
  NoDup keys -> NoDup l -> (forall i, In i l <-> In i keys /\ P i = true) ->
  bsort l = bsort (filter P keys).
Proof.
  intros NK NL H. apply bsorted_NoDup_unique; try apply bsort_sorted.
  - now apply bsort_NoDup.
  - apply bsort_NoDup. now apply NoDup_filter.
  - intros x. rewrite !bsort_In, filter_In. apply H.
Qed.

Lemma bsort_eq_In l1 l2 i : bsort l1 = bsort l2 -> (In i l1 <-> In i l2).
Proof. intros E. rewrite <- (bsort_In i l1), <- (bsort_In i l2). now rewrite E. Qed.

Lemma bsort_eq_length l1 l2 : bsort l1 = bsort l2 -> length l1 = length l2.
Proof. intros E. rewrite <- (bsort_length l1), <- (bsort_length l2). now rewrite E. Qed.

Lemma bsort_idem l : bsort (bsort l) = bsort l.
Proof. apply bsort_sorted_id, bsort_sorted. Qed.

Lemma omap_all {A B} (f : A -> option B) (g : A -> B) l :
  (forall x, In x l -> f x = Some (g x)) -> omap f l = Some (map g l).
Proof.
  induction l as [|x l IH]; intros H; cbn; [reflexivity|].
  rewrite (H x) by now left. rewrite IH by (intros; apply H; now right). reflexivity.
Qed.

Lemma gets_all (get : id -> res dataset) (g : id -> dataset) l :
  (forall i, In i l -> get i = Val (g i)) -> gets get l = (map (fun i => (i, g i)) l, Done).
Proof.
  induction l as [|x l IH]; intros H; cbn; [reflexivity|].
  rewrite (H x) by now left. rewrite IH by (intros; apply H; now right). reflexivity.
Qed.

Lemma gets_ext (g1 g2 : id -> res dataset) l : (forall i, g1 i = g2 i) -> gets g1 l = gets g2 l.
Proof. intros H. induction l as [|x l IH]; cbn; [reflexivity|]. now rewrite H, IH. Qed.

(* lookups in a duplicate-free sub-table agree with the table *)
Lemma bassoc_sub (t ds : table) (i : id) :
  NoDup (map fst ds) -> NoDup (map fst t) -> incl t ds ->
  bassoc i t = if bmem i (map fst t) then bassoc i ds else None.
Proof.
  intros ND NT Hi. destruct (bmem i (map fst t)) eqn:E.
  - apply bmem_In, in_map_iff in E. destruct E as [[k v] [Ek Hin]]. cbn in Ek. subst.
    rewrite (bassoc_NoDup_In i v t NT Hin). symmetry. apply bassoc_NoDup_In; auto.
  - apply bassoc_None. now apply bmem_false.
Qed.

Lemma bassoc_some_mem {V} (t : list (bytes * V)) i r : bassoc i t = Some r -> bmem i (map fst t) = true.
Proof. intros H. apply bmem_In. apply bassoc_In in H. apply in_map_iff. now exists (i, r). Qed.

Lemma bassoc_mem_false {V} (t : list (bytes * V)) i : bmem i (map fst t) = false -> bassoc i t = None.
Proof. intros H. apply bassoc_None. now apply bmem_false. Qed.

Lemma restrict_spec (tbl : table) ids :
  (forall i, In i ids -> In i (map fst tbl)) ->
  exists t, restrict tbl ids = Some t /\ map fst t = ids /\ incl t tbl.
Proof.
  unfold restrict. induction ids as [|i ids IH]; intros H; cbn.
  - exists []. repeat split. intros x [].
  - destruct IH as [t [E [M I]]]; [intros; apply H; now right|].
    destruct (bassoc i tbl) as [r|] eqn:B.
    + rewrite E. exists ((i, r) :: t). repeat split; [cbn; congruence|].
      intros x [<-|Hx]; [now apply bassoc_In|now apply I].
    + exfalso. apply bassoc_None in B. apply B, H. now left.
Qed.

(* ------------------------------------------------------------------ *)
(* C. what an implementation state denotes                              *)

Definition vis (d : fd) (i : id) : bool :=
  match d with
  | Mem tbl _ _ => bmem i (map fst tbl)
  | Sql tbl st sp _ _ => bmem i (map fst tbl) && in_range (st, sp) i
  | Sub _ ids => bmem i ids
  end.

Fixpoint chain_c (d : fd) : list cfn :=
  match d with Mem _ cs _ => cs | Sql _ _ _ cs _ => cs | Sub b _ => chain_c b end.
Fixpoint chain_b (d : fd) : list bfn :=
  match d with Mem _ _ bs => bs | Sql _ _ _ _ bs => bs | Sub b _ => chain_b b end.

Fixpoint wf (ds : table) (d : fd) : Prop :=
  match d with
  | Mem tbl _ _ => NoDup (map fst tbl) /\ incl tbl ds
  | Sql tbl _ _ _ _ => tbl = ds
  | Sub b ids => wf ds b /\ NoDup ids /\ (forall i, In i ids -> vis b i = true)
  end.

Section Denote.
Variable ds : table.
Hypothesis ND : NoDup (map fst ds).
Notation keys := (map fst ds).

Lemma vis_in_ds d i : wf ds d -> vis d i = true -> bmem i keys = true.
Proof.
  revert i. induction d as [tbl cs bs|tbl st sp cs bs|b IH ids]; cbn; intros i W H.
  - destruct W as [_ I]. apply bmem_In in H. apply bmem_In. apply in_map_iff in H.
    destruct H as [x [<- Hx]]. apply in_map. now apply I.
  - subst. now apply andb_true_iff in H.
  - destruct W as [Wb [_ Hs]]. apply bmem_In in H. apply IH; auto.
Qed.

(* the content of a visible client *)
Definition content (d : fd) (i : id) : dataset :=
  client_dataset i (chain_c d) (chain_b d) (match bassoc i ds with Some r => r | None => [] end).

Lemma fd_get_char d i : wf ds d ->
  fd_get d i = if vis d i then match bassoc i ds with
                               | Some r => Val (client_dataset i (chain_c d) (chain_b d) r)
                               | None => KeyErr end
               else KeyErr.
Proof.
  induction d as [tbl cs bs|tbl st sp cs bs|b IH ids]; cbn [fd_get vis chain_c chain_b wf]; intros W.
  - destruct W as [NT I]. unfold in_memory_get_client, mem_dataset_of.
    rewrite (bassoc_sub tbl ds i ND NT I). destruct (bmem i (map fst tbl)); reflexivity.
  - subst. rewrite sqlite_get_client_spec. destruct (in_range (st, sp) i); rewrite ?andb_true_r, ?andb_false_r; [|reflexivity].
    destruct (bmem i keys) eqn:E; [reflexivity|]. now rewrite bassoc_mem_false.
  - destruct W as [Wb [_ Hs]]. unfold subset_get_client_raises, subset_client_size_raises.
    destruct (bmem i ids) eqn:E; cbn [negb]; [|reflexivity].
    rewrite IH by assumption. rewrite Hs by now apply bmem_In. reflexivity.
Qed.

Lemma fd_size_char d i : wf ds d ->
  fd_size d i = if vis d i then match bassoc i ds with Some r => Val (stored_len r) | None => KeyErr end
                else KeyErr.
Proof.
  induction d as [tbl cs bs|tbl st sp cs bs|b IH ids]; cbn [fd_size vis wf]; intros W.
  - destruct W as [NT I]. unfold in_memory_client_size, mem_num_examples_of.
    rewrite (bassoc_sub tbl ds i ND NT I). destruct (bmem i (map fst tbl)); reflexivity.
  - subst. rewrite sqlite_client_size_spec. destruct (in_range (st, sp) i); rewrite ?andb_true_r, ?andb_false_r; [|reflexivity].
    destruct (bmem i keys) eqn:E; [reflexivity|]. now rewrite bassoc_mem_false.
  - destruct W as [Wb [_ Hs]]. unfold subset_get_client_raises, subset_client_size_raises.
    destruct (bmem i ids) eqn:E; cbn [negb]; [|reflexivity].
    rewrite IH by assumption. rewrite Hs by now apply bmem_In. reflexivity.
Qed.

Lemma vis_lookup d i : wf ds d -> vis d i = true -> exists r, bassoc i ds = Some r.
Proof.
  intros W H. apply (vis_in_ds d i W) in H. destruct (bassoc i ds) as [r|] eqn:E; [now exists r|].
  apply bassoc_None in E. apply bmem_In in H. contradiction.
Qed.

Lemma fd_get_vis d i : wf ds d -> vis d i = true -> fd_get d i = Val (content d i).
Proof.
  intros W H. rewrite fd_get_char, H by assumption. unfold content.
  destruct (vis_lookup d i W H) as [r ->]. reflexivity.
Qed.

Lemma fd_get_no_crash d i : wf ds d -> fd_get d i <> Crash.
Proof. intros W. rewrite fd_get_char by assumption. destruct (vis d i); [destruct (bassoc i ds)|]; congruence. Qed.

(* get_clients is the request-order walk over get_client in every implementation *)
Lemma sub_filter_gets (get : id -> res dataset) ids req :
  (forall i, get i <> Crash) ->
  subset_get_clients ids (gets get req) =
  gets (fun i => if bmem i ids then get i else KeyErr) req.
Proof.
  intros NC. unfold subset_get_clients. induction req as [|i req IH]; [reflexivity|].
  cbn [gets]. destruct (get i) as [dd| |] eqn:G.
  - destruct (gets get req) as [l e] eqn:E. cbn [fst snd for_raise_yield] in *.
    unfold subset_get_clients_raises, subset_get_clients_item in *.
    destruct (bmem i ids) eqn:B; cbn [negb]; [|reflexivity]. rewrite IH.
    destruct (gets (fun i0 => if bmem i0 ids then get i0 else KeyErr) req); reflexivity.
  - cbn [fst snd for_raise_yield]. destruct (bmem i ids); reflexivity.
  - exfalso. now apply (NC i).
Qed.

Lemma fd_gets_char d req : wf ds d -> fd_gets d req = gets (fd_get d) req.
Proof.
  revert req. induction d as [tbl cs bs|tbl st sp cs bs|b IH ids]; intros req W;
    [apply (gets_items_pair (fd_get (Mem tbl cs bs)))|apply (gets_items_pair (fd_get (Sql tbl st sp cs bs)))|].
  cbn [fd_gets]. destruct W as [Wb [Hn Hs]]. rewrite IH by assumption.
  rewrite (sub_filter_gets (fd_get b) ids req (fun i => fd_get_no_crash b i Wb)). apply gets_ext.
  intros i. cbn [fd_get]. unfold subset_get_client_raises. destruct (bmem i ids); reflexivity.
Qed.

(* the ids of a view: every enumeration sorts to the sorted visible keys *)
Definition view_ids (d : fd) : list id := bsort (filter (vis d) keys).

Lemma fd_ids_char d : wf ds d -> exists o, fd_ids d = Val o /\ bsort o = view_ids d.
Proof.
  unfold view_ids. destruct d as [tbl cs bs|tbl st sp cs bs|b ids]; cbn [fd_ids vis wf]; intros W.
  - exists (bsort (mem_ids tbl)). split; [reflexivity|]. unfold mem_ids, in_memory_init_client_ids. rewrite !bsort_idem.
    destruct W as [NT I]. apply bsort_unique_filter; auto. intros i. split.
    + intros H. split; [|now apply bmem_In]. apply in_map_iff in H. destruct H as [x [<- Hx]].
      apply in_map. now apply I.
    + intros [_ H]. now apply bmem_In.
  - subst. gen_unfold; rewrite sql_select_spec; cbn [option_map]. eexists; split; [reflexivity|]. rewrite map_fst_filter. f_equal.
    apply filter_ext_in. intros i Hi. apply bmem_In in Hi. unfold vis. now rewrite Hi.
  - destruct W as [Wb [Hn Hs]]. exists (bsort ids). split; [reflexivity|]. rewrite bsort_idem.
    apply bsort_unique_filter; auto. intros i. split.
    + intros H. split; [|now apply bmem_In]. apply bmem_In. apply (vis_in_ds b i Wb). now apply Hs.
    + intros [_ H]. now apply bmem_In.
Qed.

Lemma fd_ids_In d o i : wf ds d -> fd_ids d = Val o -> (In i o <-> vis d i = true /\ In i keys).
Proof.
  intros W E. destruct (fd_ids_char d W) as [o' [E' S]]. rewrite E in E'. injection E' as <-.
  rewrite <- (bsort_In i o), S. unfold view_ids. rewrite bsort_In, filter_In. tauto.
Qed.

Lemma fd_num_char d : wf ds d -> fd_num d = Val (Z.of_nat (length (view_ids d))).
Proof.
  intros W. destruct (fd_ids_char d W) as [o [E S]]. unfold view_ids in *.
  rewrite bsort_length. apply bsort_eq_length in S.
  destruct d as [tbl cs bs|tbl st sp cs bs|b ids]; cbn [fd_num fd_ids] in *;
    unfold in_memory_num_clients, in_memory_client_ids, subset_num_clients, subset_client_ids in *.
  - injection E as <-. rewrite <- S. unfold mem_ids, in_memory_init_client_ids. now rewrite !bsort_length.
  - subst. gen_unfold; rewrite sql_select_spec in *; cbn [option_map] in *. injection E as <-. rewrite <- S. now rewrite map_length.
  - injection E as <-. rewrite <- S. now rewrite bsort_length.
Qed.

Definition size_of (i : id) : Z := spec_size_of ds i.

Lemma fd_sizes_char d : wf ds d ->
  exists o, fd_sizes d = Val (map (fun i => (i, size_of i)) o) /\ bsort o = view_ids d.
Proof.
  unfold view_ids, size_of, spec_size_of.
  induction d as [tbl cs bs|tbl st sp cs bs|b IH ids]; cbn [fd_sizes vis wf]; intros W.
  - destruct (fd_ids_char (Mem tbl cs bs) W) as [o [E S]]. cbn [fd_ids] in E. injection E as <-.
    rewrite bsort_idem in S. exists (mem_ids tbl). split; [|exact S].
    destruct W as [NT I].
    unfold in_memory_client_sizes.
    rewrite (for_yield_all _ (fun i => i) (fun i => match bassoc i ds with Some r => stored_len r | None => 0 end)); [reflexivity|].
    intros i Hi. unfold in_memory_client_sizes_item, mem_num_examples_of.
    unfold mem_ids, in_memory_init_client_ids in Hi. apply (proj1 (bsort_In _ _)) in Hi. rewrite (bassoc_sub tbl ds i ND NT I).
    apply bmem_In in Hi. rewrite Hi. apply bmem_In, in_map_iff in Hi. destruct Hi as [[k v] [Ek Hin]]. cbn in Ek; subst.
    rewrite (bassoc_NoDup_In i v ds ND (I _ Hin)). reflexivity.
  - destruct (fd_ids_char (Sql tbl st sp cs bs) W) as [o [E S]]. cbn [fd_ids] in E. subst tbl.
    gen_unfold; rewrite sql_select_spec in *; cbn [option_map] in *. injection E as <-. eexists; split; [|exact S].
    f_equal. rewrite map_map. apply map_ext_in. intros [k v] Hin. apply filter_In in Hin. destruct Hin as [Hin _].
    cbn [fst snd]. now rewrite (bassoc_NoDup_In k v ds ND Hin).
  - destruct W as [Wb [Hn Hs]]. destruct (IH Wb) as [ob [E S]]. rewrite E.
    exists (filter (fun i => bmem i ids) ob). split.
    + f_equal. clear. unfold subset_client_sizes, for_keep_yield, subset_client_sizes_keeps, subset_client_sizes_item.
      induction ob as [|x ob IH]; cbn; [reflexivity|]. destruct (bmem x ids); cbn; now rewrite IH.
    + rewrite bsort_filter, S, <- bsort_filter, filter_filter. f_equal. apply filter_ext_in.
      intros i _. change (vis (Sub b ids) i) with (bmem i ids).
      destruct (bmem i ids) eqn:B; [|now rewrite andb_false_r].
      rewrite Hs by now apply bmem_In. reflexivity.
Qed.

Lemma fd_clients_char d : wf ds d ->
  exists o, fd_clients d = (map (fun i => (i, content d i)) o, Done) /\ bsort o = view_ids d.
Proof.
  intros W. destruct (fd_ids_char d W) as [o [E S]].
  destruct d as [tbl cs bs|tbl st sp cs bs|b ids]; cbn [fd_clients fd_ids] in *.
  - injection E as <-. rewrite bsort_idem in S. exists (mem_ids tbl). split; [|exact S].
    rewrite fd_gets_char by assumption. apply gets_all. intros i Hi. apply fd_get_vis; [assumption|].
    cbn [vis]. unfold mem_ids, in_memory_init_client_ids in Hi. apply (proj1 (bsort_In _ _)) in Hi. now apply bmem_In.
  - cbn [wf] in W. subst tbl. gen_unfold; rewrite sql_select_spec in *; cbn [option_map] in *. injection E as <-. eexists; split; [|exact S].
    unfold sqlite_clients.
    rewrite (for_yield_all _ (fun kv => fst kv) (fun kv => client_dataset (fst kv) cs bs (snd kv))) by (intros [k v] _; reflexivity).
    f_equal. rewrite !map_map. apply map_ext_in. intros [k v] Hin. apply filter_In in Hin. destruct Hin as [Hin _].
    unfold content. cbn [fst snd chain_c chain_b]. now rewrite (bassoc_NoDup_In k v ds ND Hin).
  - injection E as <-. rewrite bsort_idem in S. exists (bsort ids). split; [|now rewrite bsort_idem].
    rewrite fd_gets_char by assumption. apply gets_all. intros i Hi. apply fd_get_vis; [assumption|].
    cbn [vis]. apply (proj1 (bsort_In _ _)) in Hi. now apply bmem_In.
Qed.

(* ---- D. every operation preserves well-formedness and has the stated effect ---- *)

Lemma fd_slice_char d s e : wf ds d ->
  exists d', fd_slice d s e = Some d' /\ wf ds d' /\
    (forall i, vis d' i = vis d i && in_range (s, e) i) /\ chain_c d' = chain_c d /\ chain_b d' = chain_b d.
Proof.
  induction d as [tbl cs bs|tbl st sp cs bs|b IH ids]; cbn [fd_slice vis wf chain_c chain_b]; intros W.
  - destruct W as [NT I]. rewrite in_memory_slice_spec.
    destruct (restrict_spec tbl (filter (in_range (s, e)) (mem_ids tbl))) as [t [E [M It]]].
    { intros i Hi. apply filter_In in Hi. destruct Hi as [Hi _]. unfold mem_ids, in_memory_init_client_ids in Hi. now apply (proj1 (bsort_In _ _)) in Hi. }
    unfold in_memory_slice_ctor. rewrite E. exists (Mem t cs bs). cbn [wf vis chain_c chain_b]. repeat split; auto.
    + rewrite M. apply NoDup_filter. unfold mem_ids, in_memory_init_client_ids. now apply bsort_NoDup.
    + intros x Hx. apply I, It, Hx.
    + intros i. rewrite M, bmem_filter. unfold mem_ids, in_memory_init_client_ids. now rewrite bmem_bsort.
  - subst. rewrite sqlite_slice_spec. eexists. split; [reflexivity|]. cbn [wf vis chain_c chain_b]. repeat split.
    intros i. rewrite in_range_intersect. now rewrite andb_assoc.
  - destruct W as [Wb [Hn Hs]]. destruct (IH Wb) as [b' [E [Wb' [Hv [Hc Hb]]]]].
    rewrite E, subset_slice_spec. eexists. split; [reflexivity|]. cbn [wf vis chain_c chain_b]. repeat split; auto.
    + now apply NoDup_filter.
    + intros i Hi. apply filter_In in Hi. destruct Hi as [Hi Hr]. rewrite Hv, Hs, Hr by assumption. reflexivity.
    + intros i. apply bmem_filter.
Qed.

Lemma fd_pre_client_char d f : wf ds d ->
  wf ds (fd_pre_client d f) /\ (forall i, vis (fd_pre_client d f) i = vis d i) /\
  chain_c (fd_pre_client d f) = chain_c d ++ [f] /\ chain_b (fd_pre_client d f) = chain_b d.
Proof.
  induction d as [tbl cs bs|tbl st sp cs bs|b IH ids];
    cbn [fd_pre_client vis wf chain_c chain_b in_memory_preprocess_client sqlite_preprocess_client
         subset_preprocess_client client_preprocessor_append]; intros W.
  - repeat split; tauto.
  - repeat split; tauto.
  - destruct W as [Wb [Hn Hs]]. destruct (IH Wb) as [W' [Hv [Hc Hb]]]. repeat split; auto.
    intros i Hi. rewrite Hv. now apply Hs.
Qed.

Lemma fd_pre_batch_char d g : wf ds d ->
  wf ds (fd_pre_batch d g) /\ (forall i, vis (fd_pre_batch d g) i = vis d i) /\
  chain_c (fd_pre_batch d g) = chain_c d /\ chain_b (fd_pre_batch d g) = chain_b d ++ [g].
Proof.
  induction d as [tbl cs bs|tbl st sp cs bs|b IH ids];
    cbn [fd_pre_batch vis wf chain_c chain_b in_memory_preprocess_batch sqlite_preprocess_batch
         subset_preprocess_batch batch_preprocessor_append]; intros W.
  - repeat split; tauto.
  - repeat split; tauto.
  - destruct W as [Wb [Hn Hs]]. destruct (IH Wb) as [W' [Hv [Hc Hb]]]. repeat split; auto.
    intros i Hi. rewrite Hv. now apply Hs.
Qed.

Lemma fd_subset_char d ids : wf ds d ->
  if forallb (vis d) ids
  then exists d', fd_subset d ids = Some d' /\ wf ds d' /\ (forall i, vis d' i = bmem i ids) /\
                  chain_c d' = chain_c d /\ chain_b d' = chain_b d
  else fd_subset d ids = None.
Proof.
  intros W. unfold fd_subset. destruct (fd_ids_char d W) as [o [E S]]. rewrite E, subset_init_spec.
  assert (H : forallb (fun i => bmem i o) (bdedup ids) = forallb (vis d) ids).
  { rewrite forallb_bdedup. destruct (forallb (vis d) ids) eqn:F.
    - rewrite forallb_forall in *. intros i Hi. apply bmem_In. apply (fd_ids_In d o i W E). split; [now apply F|].
      apply bmem_In. apply (vis_in_ds d i W). now apply F.
    - destruct (forallb (fun i => bmem i o) ids) eqn:G; [|reflexivity]. rewrite <- F. symmetry.
      rewrite forallb_forall in *. intros i Hi. specialize (G i Hi). apply bmem_In in G.
      now apply (fd_ids_In d o i W E) in G. }
  rewrite H. destruct (forallb (vis d) ids) eqn:F; [|reflexivity].
  eexists. split; [reflexivity|]. cbn [wf vis chain_c chain_b]. repeat split; auto.
  - apply bdedup_NoDup.
  - intros i Hi. apply (proj1 (bdedup_In _ _)) in Hi. rewrite forallb_forall in F. now apply F.
  - intros i. apply bmem_bdedup.
Qed.

(* ---- E. the refinement relation and its preservation ---- *)

Definition R (d : fd) (v : view) : Prop :=
  wf ds d /\ (forall i, vis d i = spec_has ds v i) /\ chain_c d = v_c v /\ chain_b d = v_b v.

Lemma forallb_ext_eq {A} (p q : A -> bool) l : (forall x, p x = q x) -> forallb p l = forallb q l.
Proof. intros H. induction l; cbn; [reflexivity|]. now rewrite H, IHl. Qed.

Lemma step_refines d v o : R d v ->
  match fd_apply d o, spec_apply ds v o with
  | Applied d', Some v' => R d' v'
  | Refused, None => True
  | _, _ => False
  end.
Proof.
  intros [W [Hv [Hc Hb]]]. destruct o as [s e|ids|f|g]; cbn [fd_apply spec_apply].
  - destruct (fd_slice_char d s e W) as [d' [E [W' [Hv' [Hc' Hb']]]]]. rewrite E.
    repeat split; cbn [v_c v_b]; try congruence.
    intros i. rewrite Hv', Hv. unfold spec_has, visible. cbn [v_ranges v_subsets forallb].
    destruct (bmem i keys), (in_range (s, e) i), (forallb (fun r => in_range r i) (v_ranges v)),
      (forallb (bmem i) (v_subsets v)); reflexivity.
  - pose proof (fd_subset_char d ids W) as H.
    rewrite (forallb_ext_eq (vis d) (spec_has ds v) ids Hv) in H.
    destruct (forallb (spec_has ds v) ids) eqn:F.
    + destruct H as [d' [E [W' [Hv' [Hc' Hb']]]]]. rewrite E.
      repeat split; cbn [v_c v_b]; try congruence.
      intros i. rewrite Hv'. unfold spec_has, visible. cbn [v_ranges v_subsets forallb].
      destruct (bmem i ids) eqn:B; [|now rewrite !andb_false_r].
      rewrite forallb_forall in F. apply bmem_In in B. specialize (F i B). unfold spec_has, visible in F.
      apply andb_true_iff in F. destruct F as [F1 F2]. apply andb_true_iff in F2. destruct F2 as [F2 F3].
      now rewrite F1, F2, F3.
    + now rewrite H.
  - destruct (fd_pre_client_char d f W) as [W' [Hv' [Hc' Hb']]].
    repeat split; cbn [v_c v_b]; try congruence. intros i. now rewrite Hv', Hv.
  - destruct (fd_pre_batch_char d g W) as [W' [Hv' [Hc' Hb']]].
    repeat split; cbn [v_c v_b]; try congruence. intros i. now rewrite Hv', Hv.
Qed.

Lemma run_refines ops : forall d v, R d v ->
  exists d' fl, fd_run d ops = Some (d', fl) /\ snd (spec_run ds v ops) = fl /\
                R d' (fst (spec_run ds v ops)).
Proof.
  induction ops as [|o ops IH]; intros d v HR; cbn [fd_run spec_run].
  - exists d, []. split; [reflexivity|]. split; [reflexivity|exact HR].
  - pose proof (step_refines d v o HR) as S.
    destruct (fd_apply d o) as [d1| |], (spec_apply ds v o) as [v1|]; try contradiction.
    + destruct (IH d1 v1 S) as [d' [fl [E [E2 HR']]]]. rewrite E.
      destruct (spec_run ds v1 ops) as [w fl'] eqn:Es. cbn [fst snd] in *. subst fl'.
      exists d', (false :: fl). split; [reflexivity|]. split; [reflexivity|exact HR'].
    + destruct (IH d v HR) as [d' [fl [E [E2 HR']]]]. rewrite E.
      destruct (spec_run ds v ops) as [w fl'] eqn:Es. cbn [fst snd] in *. subst fl'.
      exists d', (true :: fl). split; [reflexivity|]. split; [reflexivity|exact HR'].
Qed.

Lemma init_refines p : exists d, fd_init p ds = Some d /\ R d view0.
Proof.
  assert (H0 : forall i, spec_has ds view0 i = bmem i keys).
  { intros i. unfold spec_has, visible. cbn. now rewrite andb_true_r. }
  assert (WM : wf ds (Mem ds [] [])) by (cbn; split; [assumption|apply incl_refl]).
  assert (WS : wf ds (Sql ds None None [] [])) by reflexivity.
  destruct p; cbn [fd_init].
  - eexists; split; [reflexivity|]. split; [exact WM|]. split; [|split; reflexivity]. intros i. now rewrite H0.
  - eexists; split; [reflexivity|]. split; [exact WS|]. split; [|split; reflexivity].
    intros i. rewrite H0. cbn. now rewrite andb_true_r.
  - pose proof (fd_subset_char (Mem ds [] []) keys WM) as H.
    assert (F : forallb (vis (Mem ds [] [])) keys = true) by (apply forallb_forall; intros i Hi; now apply bmem_In).
    rewrite F in H. destruct H as [d' [E [W' [Hv' [Hc' Hb']]]]]. exists d'. split; [exact E|].
    split; [exact W'|]. split; [|split; assumption]. intros i. now rewrite Hv', H0.
  - pose proof (fd_subset_char (Sql ds None None [] []) keys WS) as H.
    assert (F : forallb (vis (Sql ds None None [] [])) keys = true).
    { apply forallb_forall; intros i Hi. cbn. rewrite andb_true_r. now apply bmem_In. }
    rewrite F in H. destruct H as [d' [E [W' [Hv' [Hc' Hb']]]]]. exists d'. split; [exact E|].
    split; [exact W'|]. split; [|split; assumption]. intros i. now rewrite Hv', H0.
Qed.

(* ---- F. observations of a related pair coincide ---- *)

Lemma view_ids_spec d v : R d v -> view_ids d = spec_ids ds v.
Proof.
  intros [W [Hv _]]. unfold view_ids, spec_ids. f_equal. apply filter_ext_in. intros i Hi.
  rewrite Hv. unfold spec_has. apply bmem_In in Hi. now rewrite Hi.
Qed.

Lemma content_spec d v i : R d v -> content d i = spec_dataset_of ds v i.
Proof. intros [_ [_ [Hc Hb]]]. unfold content, spec_dataset_of. now rewrite Hc, Hb. Qed.

Lemma fd_get_spec d v i : R d v -> fd_get d i = spec_get ds v i.
Proof.
  intros [W [Hv [Hc Hb]]]. rewrite fd_get_char, Hv, Hc, Hb by assumption. unfold spec_get, spec_has.
  destruct (bmem i keys) eqn:E; [reflexivity|]. cbn. rewrite bassoc_mem_false by assumption.
  now destruct (visible v i).
Qed.

Lemma fd_size_spec d v i : R d v -> fd_size d i = spec_size ds v i.
Proof.
  intros [W [Hv [Hc Hb]]]. rewrite fd_size_char, Hv by assumption. unfold spec_size, spec_has.
  destruct (bmem i keys) eqn:E; [reflexivity|]. cbn. rewrite bassoc_mem_false by assumption.
  now destruct (visible v i).
Qed.

Lemma fd_gets_spec d v req : R d v -> fd_gets d req = spec_gets ds v req.
Proof.
  intros HR. rewrite fd_gets_char by apply HR. unfold spec_gets. apply gets_ext.
  intros i. now apply fd_get_spec.
Qed.

End Denote.

(* ------------------------------------------------------------------ *)
(* the observational equivalence stated by C08_impls_refine_spec        *)

Definition obs_equiv (ds : table) (v : view) (d : fd) : Prop :=
  fd_num d = Val (spec_num ds v) /\
  (exists o, fd_ids d = Val o /\ bsort o = spec_ids ds v) /\
  (exists o, fd_sizes d = Val (map (fun i => (i, spec_size_of ds i)) o) /\ bsort o = spec_ids ds v) /\
  (exists o, fd_clients d = (map (fun i => (i, spec_dataset_of ds v i)) o, Done) /\ bsort o = spec_ids ds v) /\
  (forall i, fd_size d i = spec_size ds v i) /\
  (forall i, fd_get d i = spec_get ds v i) /\
  (forall req, fd_gets d req = spec_gets ds v req).

Lemma R_obs_equiv ds d v : NoDup (map fst ds) -> R ds d v -> obs_equiv ds v d.
Proof.
  intros ND HR. pose proof HR as [W _]. unfold obs_equiv, spec_num.
  rewrite <- (view_ids_spec ds d v HR). repeat split.
  - now apply fd_num_char.
  - now apply fd_ids_char.
  - now apply fd_sizes_char.
  - destruct (fd_clients_char ds ND d W) as [o [E S]]. exists o. split; [|exact S]. rewrite E. f_equal.
    apply map_ext. intros i. now rewrite (content_spec ds d v i HR).
  - intros i. now apply fd_size_spec.
  - intros i. now apply fd_get_spec.
  - intros req. now apply fd_gets_spec.
Qed.

Theorem impls_refine_spec : forall (ds : table) (ops : list op) (p : pipeline),
  NoDup (map fst ds) ->
  exists d fl, impl_run p ds ops = Some (d, fl) /\
               snd (spec_run ds view0 ops) = fl /\
               obs_equiv ds (fst (spec_run ds view0 ops)) d.
Proof.
  intros ds ops p ND. unfold impl_run. destruct (init_refines ds ND p) as [d0 [E0 R0]]. rewrite E0.
  destruct (run_refines ds ND ops d0 view0 R0) as [d [fl [E [E2 HR]]]].
  exists d, fl. split; [exact E|]. split; [exact E2|]. now apply R_obs_equiv.
Qed.

Lemma impl_run_R ds ops p : NoDup (map fst ds) ->
  exists d fl, impl_run p ds ops = Some (d, fl) /\ R ds d (fst (spec_run ds view0 ops)).
Proof.
  intros ND. unfold impl_run. destruct (init_refines ds ND p) as [d0 [E0 R0]]. rewrite E0.
  destruct (run_refines ds ND ops d0 view0 R0) as [d [fl [E [E2 HR]]]]. now exists d, fl.
Qed.

(* ------------------------------------------------------------------ *)
(* G. consequences used by the property theorems                        *)

Lemma fd_run_app d ops1 ops2 :
  fd_run d (ops1 ++ ops2) =
  match fd_run d ops1 with
  | Some (d1, fl1) => match fd_run d1 ops2 with Some (d2, fl2) => Some (d2, fl1 ++ fl2) | None => None end
  | None => None
  end.
Proof.
  revert d. induction ops1 as [|o ops1 IH]; intros d; cbn [app fd_run].
  - destruct (fd_run d ops2) as [[d2 fl2]|]; reflexivity.
  - destruct (fd_apply d o) as [d1| |]; [| |reflexivity]; rewrite IH.
    + destruct (fd_run d1 ops1) as [[d1' fl1]|]; [|reflexivity].
      destruct (fd_run d1' ops2) as [[d2 fl2]|]; reflexivity.
    + destruct (fd_run d ops1) as [[d1' fl1]|]; [|reflexivity].
      destruct (fd_run d1' ops2) as [[d2 fl2]|]; reflexivity.
Qed.

Lemma spec_run_app ds v ops1 ops2 :
  fst (spec_run ds v (ops1 ++ ops2)) = fst (spec_run ds (fst (spec_run ds v ops1)) ops2).
Proof.
  revert v. induction ops1 as [|o ops1 IH]; intros v; cbn [app spec_run]; [reflexivity|].
  destruct (spec_apply ds v o) as [v1|].
  - specialize (IH v1). destruct (spec_run ds v1 (ops1 ++ ops2)), (spec_run ds v1 ops1). exact IH.
  - specialize (IH v). destruct (spec_run ds v (ops1 ++ ops2)), (spec_run ds v ops1). exact IH.
Qed.

(* deriving: the child is computed from the parent's value; the parent is the run of the prefix *)
Theorem derive_is_persistent : forall p ds ops more d' fl',
  impl_run p ds (ops ++ more) = Some (d', fl') ->
  exists d fl fl2, impl_run p ds ops = Some (d, fl) /\ fd_run d more = Some (d', fl2) /\ fl' = fl ++ fl2.
Proof.
  intros p ds ops more d' fl'. unfold impl_run. destruct (fd_init p ds) as [d0|]; [|discriminate].
  rewrite fd_run_app. destruct (fd_run d0 ops) as [[d fl]|]; [|discriminate].
  destruct (fd_run d more) as [[d2 fl2]|] eqn:E; [|discriminate].
  intros H. injection H as <- <-. now exists d, fl, fl2.
Qed.

Section Consequences.
Variable ds : table.
Hypothesis ND : NoDup (map fst ds).
Notation keys := (map fst ds).

Lemma spec_ids_In v i : In i (spec_ids ds v) <-> In i keys /\ visible v i = true.
Proof. unfold spec_ids. rewrite bsort_In, filter_In. tauto. Qed.

Lemma spec_ids_NoDup v : NoDup (spec_ids ds v).
Proof. unfold spec_ids. apply bsort_NoDup. now apply NoDup_filter. Qed.

Lemma ids_of_char p ops :
  exists o, ids_of p ds ops = Some o /\ bsort o = spec_ids ds (fst (spec_run ds view0 ops)).
Proof.
  destruct (impls_refine_spec ds ops p ND) as [d [fl [E [_ [_ [[o [Ei S]] _]]]]]].
  exists o. unfold ids_of. now rewrite E, Ei.
Qed.

Lemma ids_of_In p ops o i : ids_of p ds ops = Some o ->
  (In i o <-> In i keys /\ visible (fst (spec_run ds view0 ops)) i = true).
Proof.
  intros E. destruct (ids_of_char p ops) as [o' [E' S]]. rewrite E in E'. injection E' as <-.
  rewrite <- spec_ids_In, <- S. symmetry. apply bsort_In.
Qed.

Lemma ids_of_NoDup p ops o : ids_of p ds ops = Some o -> NoDup o.
Proof.
  intros E. destruct (ids_of_char p ops) as [o' [E' S]]. rewrite E in E'. injection E' as <-.
  apply (Permutation_NoDup (l := bsort o)); [symmetry; apply bsort_perm|]. rewrite S. apply spec_ids_NoDup.
Qed.

Lemma visible_after_slice v s e ops i :
  visible (fst (spec_run ds v (ops ++ [OSlice s e]))) i =
  in_range (s, e) i && visible (fst (spec_run ds v ops)) i.
Proof.
  rewrite spec_run_app. cbn [spec_run spec_apply fst]. unfold visible. cbn [v_ranges v_subsets forallb].
  now rewrite andb_assoc.
Qed.

Lemma slice_ids p ops s e :
  exists o o', ids_of p ds ops = Some o /\ ids_of p ds (ops ++ [OSlice s e]) = Some o' /\
    (forall i, In i o' <-> In i o /\ in_range (s, e) i = true).
Proof.
  destruct (ids_of_char p ops) as [o [E _]]. destruct (ids_of_char p (ops ++ [OSlice s e])) as [o' [E' _]].
  exists o, o'. split; [exact E|]. split; [exact E'|]. intros i.
  rewrite (ids_of_In p _ o' i E'), (ids_of_In p _ o i E), visible_after_slice, andb_true_iff. tauto.
Qed.

Theorem slice_never_enlarges : forall p ops s e,
  exists o o', ids_of p ds ops = Some o /\ ids_of p ds (ops ++ [OSlice s e]) = Some o' /\
    incl o' o /\ (length o' <= length o)%nat.
Proof.
  intros p ops s e. destruct (slice_ids p ops s e) as [o [o' [E [E' H]]]].
  exists o, o'. split; [exact E|]. split; [exact E'|].
  assert (I : incl o' o) by (intros i Hi; now apply H in Hi).
  split; [exact I|]. apply NoDup_incl_length; [|exact I]. now apply (ids_of_NoDup p _ o' E').
Qed.

Lemma in_range_empty s e i : bleb e s = true -> in_range (Some s, Some e) i = false.
Proof.
  intros H. unfold in_range; cbn. destruct (bleb s i) eqn:A; [|reflexivity]. cbn.
  destruct (bltb i e) eqn:B; [|reflexivity].
  pose proof (bleb_bltb_trans s i e A B) as C. rewrite bltb_negb_bleb, H in C. discriminate.
Qed.

Theorem range_is_half_open : forall p ops s e,
  exists o o', ids_of p ds ops = Some o /\ ids_of p ds (ops ++ [OSlice s e]) = Some o' /\
    (* exactly the ids of the parent with start <= id < stop *)
    (forall i, In i o' <-> In i o /\ in_range (s, e) i = true) /\
    (* start >= stop: nothing *)
    (forall s0 e0, s = Some s0 -> e = Some e0 -> bleb e0 s0 = true -> o' = []) /\
    (* a second slice gives the intersection of the two ranges, never more *)
    (forall s2 e2, exists o2 oi,
        ids_of p ds (ops ++ [OSlice s e; OSlice s2 e2]) = Some o2 /\
        ids_of p ds (ops ++ [OSlice (omax s s2) (omin e e2)]) = Some oi /\
        (forall i, In i o2 <-> In i oi) /\
        (forall i, In i o2 <-> In i o /\ in_range (s, e) i = true /\ in_range (s2, e2) i = true)).
Proof.
  intros p ops s e. destruct (slice_ids p ops s e) as [o [o' [E [E' H]]]].
  exists o, o'. split; [exact E|]. split; [exact E'|]. split; [exact H|]. split.
  - intros s0 e0 -> -> Hle. destruct o' as [|i o']; [reflexivity|]. exfalso.
    destruct (proj1 (H i) (or_introl eq_refl)) as [_ Hr]. now rewrite in_range_empty in Hr.
  - intros s2 e2.
    destruct (slice_ids p (ops ++ [OSlice s e]) s2 e2) as [o1 [o2 [E1 [E2 H2]]]].
    rewrite <- app_assoc in E2. cbn [app] in E2. rewrite E' in E1. injection E1 as <-.
    destruct (slice_ids p ops (omax s s2) (omin e e2)) as [o0 [oi [E0 [Ei Hi]]]].
    rewrite E in E0. injection E0 as <-.
    exists o2, oi. split; [exact E2|]. split; [exact Ei|].
    assert (K : forall i, In i o2 <-> In i o /\ in_range (s, e) i = true /\ in_range (s2, e2) i = true).
    { intros i. rewrite H2, H. tauto. }
    split; [|exact K]. intros i. rewrite K, Hi, in_range_intersect, andb_true_iff. tauto.
Qed.

Lemma gets_keyerr (get : id -> res dataset) req i :
  (forall j, get j <> Crash) -> In i req -> get i = KeyErr -> snd (gets get req) = EKey.
Proof.
  intros NC. induction req as [|j req IH]; intros Hin G; [destruct Hin|]. cbn [gets].
  destruct (get j) as [dd| |] eqn:Gj.
  - destruct Hin as [->|Hin]; [congruence|]. specialize (IH Hin G).
    destruct (gets get req) as [l e]. exact IH.
  - reflexivity.
  - exfalso. now apply (NC j).
Qed.

Lemma impl_run_state p ops :
  exists d fl o, impl_run p ds ops = Some (d, fl) /\ fd_ids d = Val o /\ ids_of p ds ops = Some o /\
                 R ds d (fst (spec_run ds view0 ops)).
Proof.
  destruct (impl_run_R ds ops p ND) as [d [fl [E HR]]].
  destruct (fd_ids_char ds ND d (proj1 HR)) as [o [Ei _]].
  exists d, fl, o. unfold ids_of. rewrite E, Ei. repeat split; auto; apply HR.
Qed.

Theorem outside_view_keyerror : forall p ops,
  exists d fl o, impl_run p ds ops = Some (d, fl) /\ fd_ids d = Val o /\
    (forall i, ~ In i o ->
       fd_get d i = KeyErr /\ fd_size d i = KeyErr /\
       (forall req, In i req -> snd (fd_gets d req) = EKey)) /\
    (forall i, In i o -> (exists dd, fd_get d i = Val dd) /\ (exists z, fd_size d i = Val z)).
Proof.
  intros p ops. destruct (impl_run_state p ops) as [d [fl [o [E [Ei [Eo HR]]]]]].
  exists d, fl, o. split; [exact E|]. split; [exact Ei|].
  assert (W : wf ds d) by apply HR.
  assert (G : forall i, ~ In i o -> fd_get d i = KeyErr).
  { intros i Hn. rewrite (fd_get_spec ds ND d _ i HR). unfold spec_get.
    destruct (visible (fst (spec_run ds view0 ops)) i) eqn:V; [|reflexivity].
    destruct (bassoc i ds) as [r|] eqn:B; [|reflexivity]. exfalso. apply Hn.
    apply (ids_of_In p ops o i Eo). split; [|exact V]. apply bmem_In. now apply (bassoc_some_mem ds i r). }
  split.
  - intros i Hn. split; [now apply G|]. split.
    + rewrite (fd_size_spec ds ND d _ i HR). unfold spec_size.
      destruct (visible (fst (spec_run ds view0 ops)) i) eqn:V; [|reflexivity].
      destruct (bassoc i ds) as [r|] eqn:B; [|reflexivity]. exfalso. apply Hn.
      apply (ids_of_In p ops o i Eo). split; [|exact V]. apply bmem_In. now apply (bassoc_some_mem ds i r).
    + intros req Hin. rewrite (fd_gets_char ds ND d req W).
      apply (gets_keyerr (fd_get d) req i); auto. intros j. exact (fd_get_no_crash ds ND d j W).
  - intros i Hin. apply (ids_of_In p ops o i Eo) in Hin. destruct Hin as [Hk V].
    destruct (bassoc i ds) as [r|] eqn:B; [|exfalso; apply bassoc_None in B; contradiction].
    split.
    + rewrite (fd_get_spec ds ND d _ i HR). unfold spec_get. rewrite V, B. eauto.
    + rewrite (fd_size_spec ds ND d _ i HR). unfold spec_size. rewrite V, B. eauto.
Qed.

Lemma spec_run_chains ops : forall v,
  v_c (fst (spec_run ds v ops)) = v_c v ++ ops_c ops /\ v_b (fst (spec_run ds v ops)) = v_b v ++ ops_b ops.
Proof.
  unfold ops_c, ops_b. induction ops as [|o ops IH]; intros v; cbn [spec_run flat_map fst].
  - now rewrite !app_nil_r.
  - destruct (spec_apply ds v o) as [v1|] eqn:A.
    + destruct (IH v1) as [I1 I2]. destruct (spec_run ds v1 ops) as [w fl]. cbn [fst] in *. rewrite I1, I2.
      destruct o as [s e|ids|f|g]; cbn [spec_apply] in A.
      * injection A as <-. cbn. split; reflexivity.
      * destruct (forallb (spec_has ds v) ids); [|discriminate]. injection A as <-. cbn. split; reflexivity.
      * injection A as <-. cbn [v_c v_b app]. rewrite <- app_assoc. split; reflexivity.
      * injection A as <-. cbn [v_c v_b app]. rewrite <- app_assoc. split; reflexivity.
    + destruct (IH v) as [I1 I2]. destruct (spec_run ds v ops) as [w fl]. cbn [fst] in *. rewrite I1, I2.
      destruct o as [s e|ids|f|g]; cbn [spec_apply] in A; try discriminate. cbn. split; reflexivity.
Qed.

Lemma run_c_snoc i cs f r : run_c i (cs ++ [f]) r = app_c i f (run_c i cs r).
Proof. rewrite !run_c_fold. now rewrite fold_left_app. Qed.

Lemma run_b_snoc bs g r : run_b (bs ++ [g]) r = app_b g (run_b bs r).
Proof. rewrite !run_b_fold. now rewrite fold_left_app. Qed.

Theorem preprocess_order : forall p ops,
  exists d fl o, impl_run p ds ops = Some (d, fl) /\ fd_ids d = Val o /\
    forall i r, In i o -> In (i, r) ds ->
      (* the dataset: stored rows through the client-level functions in registration order, carrying
         the batch-level functions in registration order *)
      fd_get d i = Val (run_c i (ops_c ops) r, ops_b ops) /\
      (* what is seen: all client-level functions act before any batch-level function *)
      observe (run_c i (ops_c ops) r, ops_b ops) =
        (run_c i (ops_c ops) r, run_b (ops_b ops) (run_c i (ops_c ops) r)).
Proof.
  intros p ops. destruct (impl_run_state p ops) as [d [fl [o [E [Ei [Eo HR]]]]]].
  exists d, fl, o. split; [exact E|]. split; [exact Ei|]. intros i r Hin Hds. split; [|reflexivity].
  apply (ids_of_In p ops o i Eo) in Hin. destruct Hin as [_ V].
  rewrite (fd_get_spec ds ND d _ i HR). unfold spec_get. rewrite V, (bassoc_NoDup_In i r ds ND Hds).
  destruct (spec_run_chains ops view0) as [C1 C2]. rewrite C1, C2. reflexivity.
Qed.

Lemma gets_prefix (get : id -> res dataset) (g : id -> dataset) pre :
  (forall i, In i pre -> get i = Val (g i)) -> forall rest,
  gets get (pre ++ rest) = (map (fun i => (i, g i)) pre ++ fst (gets get rest), snd (gets get rest)).
Proof.
  induction pre as [|x pre IH]; intros H rest; cbn [app gets map].
  - now destruct (gets get rest).
  - rewrite (H x) by now left. rewrite IH by (intros; apply H; now right). reflexivity.
Qed.

Theorem get_clients_request_order : forall p ops,
  exists d fl o (g : id -> dataset), impl_run p ds ops = Some (d, fl) /\ fd_ids d = Val o /\
    (forall i, In i o -> fd_get d i = Val (g i)) /\
    (* every requested id in the view: exactly the request, in request order (repetitions included) *)
    (forall req, (forall i, In i req -> In i o) -> fd_gets d req = (map (fun i => (i, g i)) req, Done)) /\
    (* otherwise: the clients before the first id outside the view, then KeyError *)
    (forall pre i post, (forall j, In j pre -> In j o) -> ~ In i o ->
       fd_gets d (pre ++ i :: post) = (map (fun j => (j, g j)) pre, EKey)).
Proof.
  intros p ops. destruct (impl_run_state p ops) as [d [fl [o [E [Ei [Eo HR]]]]]].
  assert (W : wf ds d) by apply HR.
  exists d, fl, o, (content ds d). split; [exact E|]. split; [exact Ei|].
  assert (G : forall i, In i o -> fd_get d i = Val (content ds d i)).
  { intros i Hin. apply fd_get_vis; auto. now apply (fd_ids_In ds ND d o i W Ei) in Hin. }
  split; [exact G|]. split.
  - intros req H. rewrite (fd_gets_char ds ND d req W). apply gets_all. intros i Hi. apply G. now apply H.
  - intros pre i post Hpre Hout. rewrite (fd_gets_char ds ND d _ W).
    rewrite (gets_prefix (fd_get d) (content ds d) pre) by (intros j Hj; apply G; now apply Hpre).
    cbn [gets]. destruct (outside_view_keyerror p ops) as [d2 [fl2 [o2 [E2 [Ei2 [Hout2 _]]]]]].
    rewrite E in E2. injection E2 as <- <-. rewrite Ei in Ei2. injection Ei2 as <-.
    destruct (Hout2 i Hout) as [-> _]. cbn. now rewrite app_nil_r.
Qed.

End Consequences.

(* ------------------------------------------------------------------ *)
(* the byte order                                                       *)

Theorem bytes_order_total :
  (forall a b, bleb a b = true \/ bleb b a = true) /\
  (forall a b, bleb a b = true -> bleb b a = true -> a = b) /\
  (forall a b c, bleb a b = true -> bleb b c = true -> bleb a c = true) /\
  (forall a b, bltb a b = negb (bleb b a)) /\
  (* an id is below each of its proper extensions; in particular a < a\0 < a\0\0 *)
  (forall a x t, bltb a (a ++ x :: t) = true) /\
  (* a\0 is the immediate successor of a: no id lies strictly between *)
  (forall a c, bltb a c = true -> bltb c (a ++ [0%N]) = true -> False) /\
  (* the empty id is the least id *)
  (forall a, bleb [] a = true).
Proof.
  repeat split.
  - apply bleb_total.
  - apply bleb_antisym.
  - apply bleb_trans.
  - apply bltb_negb_bleb.
  - apply bltb_prefix.
  - apply bytes_succ_zero.
  - apply bleb_nil.
Qed.

Theorem chain_append : forall i cs f bs g r,
  run_c i (cs ++ [f]) r = app_c i f (run_c i cs r) /\ run_b (bs ++ [g]) r = app_b g (run_b bs r).
Proof. intros. split; [apply run_c_snoc|apply run_b_snoc]. Qed.

(* ------------------------------------------------------------------ *)
(* the in-memory dict / python-set iteration order is unobservable      *)

Lemma bassoc_perm {V} (t t' : list (bytes * V)) i :
  NoDup (map fst t) -> Permutation t t' -> bassoc i t = bassoc i t'.
Proof.
  intros N P. assert (N' : NoDup (map fst t')) by (eapply Permutation_NoDup; [apply Permutation_map, P|exact N]).
  destruct (bassoc i t) as [v|] eqn:E.
  - symmetry. apply bassoc_NoDup_In; [exact N'|]. eapply Permutation_in; [exact P|]. now apply bassoc_In.
  - symmetry. apply bassoc_None. apply bassoc_None in E. intros H. apply E.
    eapply Permutation_in; [apply Permutation_map, Permutation_sym, P|exact H].
Qed.

Lemma for_yield_ext {X K D} (f g : X -> K * res D) l : (forall x, f x = g x) -> for_yield f l = for_yield g l.
Proof. intros H. induction l as [|x l IH]; cbn; [reflexivity|]. now rewrite H, IH. Qed.

Lemma omap_ext {A B} (f g : A -> option B) l : (forall x, f x = g x) -> omap f l = omap g l.
Proof. intros H. induction l as [|x l IH]; cbn; [reflexivity|]. now rewrite H, IH. Qed.

Theorem mem_dict_order_irrelevant : forall tbl tbl' cs bs,
  NoDup (map fst tbl) -> Permutation tbl tbl' ->
  let d := Mem tbl cs bs in let d' := Mem tbl' cs bs in
  fd_num d = fd_num d' /\ fd_ids d = fd_ids d' /\ fd_sizes d = fd_sizes d' /\ fd_clients d = fd_clients d' /\
  (forall i, fd_size d i = fd_size d' i /\ fd_get d i = fd_get d' i) /\
  (forall req, fd_gets d req = fd_gets d' req) /\
  (forall s e, fd_slice d s e = fd_slice d' s e).
Proof.
  intros tbl tbl' cs bs N P. cbv zeta.
  assert (M : mem_ids tbl = mem_ids tbl').
  { unfold mem_ids, in_memory_init_client_ids. apply bsort_perm_unique; [exact N|]. now apply Permutation_map. }
  assert (L : forall i, bassoc i tbl = bassoc i tbl') by (intros i; now apply bassoc_perm).
  assert (MD : forall i, mem_dataset_of tbl cs bs i = mem_dataset_of tbl' cs bs i)
    by (intros i; unfold mem_dataset_of; now rewrite L).
  assert (MN : forall i, mem_num_examples_of tbl i = mem_num_examples_of tbl' i)
    by (intros i; unfold mem_num_examples_of; now rewrite L).
  assert (G : forall i, fd_get (Mem tbl cs bs) i = fd_get (Mem tbl' cs bs) i)
    by (intros i; cbn [fd_get]; unfold in_memory_get_client; apply MD).
  assert (GS : forall req, fd_gets (Mem tbl cs bs) req = fd_gets (Mem tbl' cs bs) req).
  { intros req. cbn [fd_gets]. unfold in_memory_get_clients. apply for_yield_ext.
    intros i. unfold in_memory_get_clients_item. now rewrite MD. }
  repeat split.
  - cbn [fd_num]. now rewrite M.
  - cbn [fd_ids]. now rewrite M.
  - cbn [fd_sizes]. rewrite M. unfold in_memory_client_sizes. f_equal. apply for_yield_ext.
    intros i. unfold in_memory_client_sizes_item. now rewrite MN.
  - unfold fd_clients. rewrite M. apply GS.
  - cbn [fd_size]. unfold in_memory_client_size. apply MN.
  - apply G.
  - apply GS.
  - intros s e. cbn [fd_slice]. rewrite M. destruct (in_memory_slice_ids (mem_ids tbl') s e) as [ids|]; [|reflexivity].
    unfold in_memory_slice_ctor, brestrict.
    rewrite (omap_ext _ (fun i => match bassoc i tbl' with Some r => Some (i, r) | None => None end));
      [reflexivity|]. intros i. now rewrite L.
Qed.

(* ------------------------------------------------------------------ *)
(* a shuffled pass visits every client of the view exactly once        *)

Section Shuffle.
Variable ds : table.
Hypothesis ND : NoDup (map fst ds).

Theorem shuffled_pass_visits_each_once : forall p ops B code draws, 1 <= B ->
  Forall (fun dd => - B <= dd) draws ->
  exists d fl out, impl_run p ds ops = Some (d, fl) /\
    fd_shuffled_pass d B code draws = Some out /\
    Permutation out (spec_clients ds (fst (spec_run ds view0 ops))).
Proof.
  intros p ops B code draws HB HD.
  destruct (impl_run_state ds ND p ops) as [d [fl [o [E [Ei [Eo HR]]]]]].
  assert (W : wf ds d) by apply HR.
  destruct (fd_clients_char ds ND d W) as [oc [Ec Sc]].
  assert (PC : Permutation (map (fun i => (i, content ds d i)) oc) (spec_clients ds (fst (spec_run ds view0 ops)))).
  { unfold spec_clients. rewrite <- (view_ids_spec ds d _ HR), <- Sc.
    rewrite (map_ext (fun i => (i, spec_dataset_of ds (fst (spec_run ds view0 ops)) i)) (fun i => (i, content ds d i)))
      by (intros i; now rewrite (content_spec ds d _ i HR)).
    apply Permutation_map, bsort_perm. }
  assert (Sh : forall S (l : list S), exists out, shuffle1 B code draws l = Some out /\ Permutation l out).
  { intros S l. unfold shuffle1. destruct (C15_Proofs.buffered_shuffle_perm B code draws l HB HD) as [out [Es P]].
    rewrite Es. now exists out. }
  destruct d as [tbl cs bs|tbl st sp cs bs|b ids].
  - destruct (Sh _ (map (fun i => (i, content ds (Mem tbl cs bs) i)) oc)) as [out [Eo' P]].
    exists (Mem tbl cs bs), fl, out. split; [exact E|].
    split; [unfold fd_shuffled_pass, in_memory_shuffled_pass; rewrite Ec, Eo'; cbn [option_map]; now rewrite map_id|].
    now rewrite <- P.
  - exists (Sql tbl st sp cs bs), fl. cbn [wf] in W. subst tbl. unfold fd_shuffled_pass.
    cbn [fd_clients] in Ec. gen_unfold; rewrite sql_select_spec in *; cbn [option_map] in *.
    set (rows := filter (fun kv => in_range (st, sp) (fst kv)) ds) in *.
    set (h := fun kv : bytes * list Z => (fst kv, client_dataset (fst kv) cs bs (snd kv))).
    unfold sqlite_clients in Ec.
    rewrite (for_yield_all _ (fun kv => fst kv) (fun kv => client_dataset (fst kv) cs bs (snd kv))) in Ec
      by (intros [k v] _; reflexivity).
    injection Ec as Ec. rewrite map_map in Ec. cbn [fst snd] in Ec.
    destruct (Sh _ (map (fun row : bytes * list Z => (fst row, snd row)) rows)) as [out [Es P]].
    unfold sqlite_shuffled_pass. rewrite Es. cbn [option_map].
    exists (map h out). split; [exact E|]. split.
    + clear. induction out as [|[k v] out IH]; cbn [map omap]; [reflexivity|]. rewrite IH. reflexivity.
    + rewrite <- PC, <- Ec. fold h.
      assert (Q : map h rows = map h (map (fun row : bytes * list Z => (fst row, snd row)) rows)).
      { rewrite map_map. apply map_ext. intros [k v]. reflexivity. }
      rewrite Q. apply Permutation_map. now symmetry.
  - destruct (Sh _ (map (fun i => (i, content ds (Sub b ids) i)) oc)) as [out [Eo' P]].
    exists (Sub b ids), fl, out. split; [exact E|].
    split; [unfold fd_shuffled_pass, subset_shuffled_pass; rewrite Ec, Eo'; cbn [option_map]; now rewrite map_id|].
    now rewrite <- P.
Qed.
End Shuffle.

(* the translated preprocessor classes: append adds at the END, __call__ applies from the left *)
Theorem translated_chains : forall {F G E : Type} (applyc : F -> bytes -> E -> E) (applyb : G -> E -> E),
  (forall (fns : list F) fn, client_preprocessor_append fns fn = fns ++ [fn]) /\
  (forall (fns : list G) fn, batch_preprocessor_append fns fn = fns ++ [fn]) /\
  (forall fns i ex, client_preprocessor_call applyc fns i ex = fold_left (fun out f => applyc f i out) fns ex) /\
  (forall fns ex, batch_preprocessor_call applyb fns ex = fold_left (fun out f => applyb f out) fns ex) /\
  (forall raw pre, client_dataset_all_examples applyb raw pre = fold_left (fun out f => applyb f out) pre raw).
Proof.
  intros F G E applyc applyb. repeat split.
  - intros fns i ex. unfold client_preprocessor_call. destruct fns; reflexivity.
  - intros fns ex. unfold batch_preprocessor_call. destruct fns; reflexivity.
  - intros raw pre. unfold client_dataset_all_examples, batch_preprocessor_call. destruct pre; reflexivity.
Qed.

(* ------------------------------------------------------------------ *)
(* iteration order is a deterministic function of (dataset, operations): which one *)

Definition top_is_sql (d : fd) : bool := match d with Sql _ _ _ _ _ => true | _ => false end.

Section Order.
Variable ds : table.
Hypothesis ND : NoDup (map fst ds).

Lemma sorted_enum_unique o l : o = bsort o -> bsort o = l -> o = l.
Proof. intros E1 E2. now rewrite E1. Qed.

Theorem iteration_order : forall p ops,
  exists d fl, impl_run p ds ops = Some (d, fl) /\
    let v := fst (spec_run ds view0 ops) in
    let order := if top_is_sql d then filter (visible v) (map fst ds)   (* SQLite: rowid = insertion order *)
                 else spec_ids ds v in                                   (* in-memory, subset: sorted by id *)
    fd_ids d = Val (if top_is_sql d then order else spec_ids ds v) /\
    map fst (fst (fd_clients d)) = order /\ snd (fd_clients d) = Done.
Proof.
  intros p ops. destruct (impl_run_state ds ND p ops) as [d [fl [o [E [Ei [Eo HR]]]]]].
  exists d, fl. split; [exact E|]. cbv zeta.
  assert (W : wf ds d) by apply HR.
  destruct (fd_ids_char ds ND d W) as [o1 [E1 S1]]. destruct (fd_clients_char ds ND d W) as [o2 [E2 S2]].
  rewrite (view_ids_spec ds d _ HR) in S1, S2.
  assert (MF : forall l, map fst (map (fun i => (i, content ds d i)) l) = l).
  { intros l. rewrite map_map. cbn. apply map_id. }
  destruct d as [tbl cs bs|tbl st sp cs bs|b ids]; cbn [top_is_sql].
  - cbn [fd_ids] in E1. injection E1 as <-. rewrite E2. cbn [fst snd]. rewrite MF.
    split; [|split; [|reflexivity]].
    + cbn [fd_ids]. f_equal.
      apply sorted_enum_unique; [|exact S1]. unfold in_memory_client_ids. now rewrite bsort_idem.
    + (* clients() walks self._client_ids = mem_ids tbl, which is sorted *)
      assert (Q : fd_clients (Mem tbl cs bs) = (map (fun i => (i, content ds (Mem tbl cs bs) i)) (mem_ids tbl), Done)).
      { unfold fd_clients. rewrite (fd_gets_char ds ND) by assumption. apply gets_all. intros i Hi. apply (fd_get_vis ds ND); [assumption|].
        cbn [vis]. unfold mem_ids, in_memory_init_client_ids in Hi. apply (proj1 (bsort_In _ _)) in Hi. now apply bmem_In. }
      rewrite Q in E2. injection E2 as E2. apply (f_equal (map fst)) in E2. rewrite !MF in E2. rewrite <- E2.
      apply sorted_enum_unique; [unfold mem_ids, in_memory_init_client_ids; now rewrite bsort_idem|].
      rewrite E2. exact S2.
  - cbn [wf] in W. subst tbl.
    assert (F : filter (visible (fst (spec_run ds view0 ops))) (map fst ds) =
                map fst (filter (fun kv => in_range (st, sp) (fst kv)) ds)).
    { rewrite map_fst_filter. apply filter_ext_in. intros i Hi. destruct HR as [_ [Hv _]]. specialize (Hv i).
      cbn [vis] in Hv. unfold spec_has in Hv. apply bmem_In in Hi. rewrite Hi in Hv. cbn [andb] in Hv. now rewrite <- Hv. }
    split; [|split].
    + rewrite Ei. f_equal. cbn [fd_ids] in Ei. gen_unfold; rewrite sql_select_spec in Ei; cbn [option_map] in Ei. injection Ei as <-. now rewrite F.
    + cbn [fd_clients]. gen_unfold; rewrite sql_select_spec; cbn [option_map].
      unfold sqlite_clients.
      rewrite (for_yield_all _ (fun kv => fst kv) (fun kv => client_dataset (fst kv) cs bs (snd kv))) by (intros [k v] _; reflexivity).
      cbn [fst]. rewrite !map_map. cbn [fst]. now rewrite F.
    + rewrite E2. reflexivity.
  - cbn [fd_ids] in E1. injection E1 as <-. rewrite E2. cbn [fst snd]. rewrite MF. split; [|split; [|reflexivity]].
    + cbn [fd_ids]. f_equal.
      apply sorted_enum_unique; [|exact S1]. unfold subset_client_ids. now rewrite bsort_idem.
    + assert (Q : fd_clients (Sub b ids) = (map (fun i => (i, content ds (Sub b ids) i)) (bsort ids), Done)).
      { unfold fd_clients. rewrite (fd_gets_char ds ND) by assumption. apply gets_all. intros i Hi. apply (fd_get_vis ds ND); [assumption|].
        cbn [vis]. apply (proj1 (bsort_In _ _)) in Hi. now apply bmem_In. }
      rewrite Q in E2. injection E2 as E2. apply (f_equal (map fst)) in E2. rewrite !MF in E2. rewrite <- E2.
      apply sorted_enum_unique; [now rewrite bsort_idem|]. rewrite E2. exact S2.
Qed.
End Order.

(* ------------------------------------------------------------------ *)
(* chains handed to the constructors = chains registered one by one     *)

Section CtorChains.
Variable ds : table.
Hypothesis ND : NoDup (map fst ds).

Lemma spec_has_ext v1 v2 i : v_ranges v1 = v_ranges v2 -> v_subsets v1 = v_subsets v2 ->
  spec_has ds v1 i = spec_has ds v2 i.
Proof. intros E1 E2. unfold spec_has, visible. now rewrite E1, E2. Qed.

Lemma spec_run_view_ops ops : forall v1 v2,
  v_ranges v1 = v_ranges v2 -> v_subsets v1 = v_subsets v2 ->
  v_ranges (fst (spec_run ds v1 (view_ops ops))) = v_ranges (fst (spec_run ds v2 ops)) /\
  v_subsets (fst (spec_run ds v1 (view_ops ops))) = v_subsets (fst (spec_run ds v2 ops)) /\
  v_c (fst (spec_run ds v1 (view_ops ops))) = v_c v1 /\ v_b (fst (spec_run ds v1 (view_ops ops))) = v_b v1.
Proof.
  induction ops as [|o ops IH]; intros v1 v2 E1 E2; [cbn; auto|].
  destruct o as [s e|ids|f|g]; cbn [view_ops filter spec_run spec_apply].
  - specialize (IH (mkView ((s, e) :: v_ranges v1) (v_subsets v1) (v_c v1) (v_b v1))
                   (mkView ((s, e) :: v_ranges v2) (v_subsets v2) (v_c v2) (v_b v2))).
    fold (view_ops ops). cbn [v_ranges v_subsets v_c v_b] in IH.
    destruct (spec_run ds _ (view_ops ops)), (spec_run ds _ ops). cbn [fst] in *. apply IH; congruence.
  - fold (view_ops ops).
    rewrite (forallb_ext_eq (spec_has ds v1) (spec_has ds v2) ids (fun i => spec_has_ext v1 v2 i E1 E2)).
    destruct (forallb (spec_has ds v2) ids).
    + specialize (IH (mkView (v_ranges v1) (ids :: v_subsets v1) (v_c v1) (v_b v1))
                     (mkView (v_ranges v2) (ids :: v_subsets v2) (v_c v2) (v_b v2))).
      cbn [v_ranges v_subsets v_c v_b] in IH.
      destruct (spec_run ds _ (view_ops ops)), (spec_run ds _ ops). cbn [fst] in *. apply IH; congruence.
    + specialize (IH v1 v2 E1 E2).
      destruct (spec_run ds v1 (view_ops ops)), (spec_run ds v2 ops). cbn [fst] in *. exact IH.
  - fold (view_ops ops). specialize (IH v1 (mkView (v_ranges v2) (v_subsets v2) (v_c v2 ++ [f]) (v_b v2)) E1 E2).
    destruct (spec_run ds v1 (view_ops ops)), (spec_run ds _ ops). cbn [fst] in *. exact IH.
  - fold (view_ops ops). specialize (IH v1 (mkView (v_ranges v2) (v_subsets v2) (v_c v2) (v_b v2 ++ [g])) E1 E2).
    destruct (spec_run ds v1 (view_ops ops)), (spec_run ds _ ops). cbn [fst] in *. exact IH.
Qed.

Theorem ctor_chain_equiv : forall ops (sql : bool),
  let d0 := if sql then Sql ds None None (ops_c ops) (ops_b ops) else Mem ds (ops_c ops) (ops_b ops) in
  exists d fl, fd_run d0 (view_ops ops) = Some (d, fl) /\ obs_equiv ds (fst (spec_run ds view0 ops)) d.
Proof.
  intros ops sql d0.
  set (v0 := mkView [] [] (ops_c ops) (ops_b ops)).
  assert (R0 : R ds d0 v0).
  { unfold d0. destruct sql.
    - split; [reflexivity|]. split; [|split; reflexivity]. intros i. unfold spec_has, visible. cbn. now rewrite !andb_true_r.
    - split; [cbn; split; [exact ND|apply incl_refl]|]. split; [|split; reflexivity].
      intros i. unfold spec_has, visible. cbn. now rewrite andb_true_r. }
  destruct (run_refines ds ND (view_ops ops) d0 v0 R0) as [d [fl [E [_ HR]]]].
  exists d, fl. split; [exact E|]. apply R_obs_equiv; [exact ND|].
  destruct (spec_run_view_ops ops v0 view0 eq_refl eq_refl) as [Er [Es [Ec Eb]]].
  destruct (spec_run_chains ds ops view0) as [C1 C2]. cbn [view0 v_c v_b app] in C1, C2.
  destruct HR as [W [Hv [Hc Hb]]]. split; [exact W|]. split; [|split].
  - intros i. rewrite Hv. now apply spec_has_ext.
  - rewrite Hc, Ec, C1. reflexivity.
  - rewrite Hb, Eb, C2. reflexivity.
Qed.
End CtorChains.

(* ------------------------------------------------------------------ *)
(* the translated method bodies, in closed form                         *)

Theorem translated_methods : forall st sp (tbl : list (bytes * list Z)) cs bs,
  let rows := filter (fun kv => in_range (st, sp) (fst kv)) tbl in
  sqlite_num_clients st sp tbl = Some (Z.of_nat (length rows)) /\
  sqlite_client_ids st sp tbl = Some (map fst rows) /\
  sqlite_client_sizes col_num_examples st sp tbl = Some (map (fun kv => (fst kv, stored_len (snd kv))) rows) /\
  sqlite_read_clients col_data st sp tbl = Some (map (fun kv => (fst kv, snd kv)) rows) /\
  (forall i, sqlite_client_size col_num_examples st sp tbl i =
             if in_range (st, sp) i then match bassoc i tbl with Some r => Val (stored_len r) | None => KeyErr end else KeyErr) /\
  (forall i, sqlite_get_client col_data (sql_dataset_of cs bs) st sp tbl i =
             if in_range (st, sp) i then match bassoc i tbl with Some r => Val (client_dataset i cs bs r) | None => KeyErr end else KeyErr) /\
  (forall get req, in_memory_get_clients get req = gets get req) /\
  (forall get req, sqlite_get_clients get req = gets get req) /\
  (forall ids get req, (forall i, get i <> Crash) ->
     subset_get_clients ids (gets get req) = gets (fun i => if bmem i ids then get i else KeyErr) req) /\
  (forall ids (l : list (bytes * Z)), subset_client_sizes ids l = filter (fun kv => bmem (fst kv) ids) l) /\
  (forall S (shuffle : list S -> option (list S)) l,
     in_memory_shuffled_pass shuffle l = shuffle l /\ subset_shuffled_pass shuffle l = shuffle l).
Proof.
  intros st sp tbl cs bs rows. unfold rows.
  repeat split.
  - gen_unfold. rewrite sql_select_spec. reflexivity.
  - gen_unfold. rewrite sql_select_spec. reflexivity.
  - gen_unfold. rewrite sql_select_spec. reflexivity.
  - gen_unfold. rewrite sql_select_spec. reflexivity.
  - intros i. apply sqlite_client_size_spec.
  - intros i. apply sqlite_get_client_spec.
  - intros get req. apply (gets_items_pair get).
  - intros get req. apply (gets_items_pair get).
  - intros ids get req NC. now apply sub_filter_gets.
  - intros ids l. unfold subset_client_sizes, for_keep_yield, subset_client_sizes_keeps, subset_client_sizes_item.
    induction l as [|[k v] l IH]; cbn; [reflexivity|]. destruct (bmem k ids); cbn; now rewrite IH.
  - unfold in_memory_shuffled_pass. destruct (shuffle l); cbn; [now rewrite map_id|reflexivity].
  - unfold subset_shuffled_pass. destruct (shuffle l); cbn; [now rewrite map_id|reflexivity].
Qed.
