(* C10 lemmas: every script of Model/C10_Model.v is well formed (for every client
   list, window size, cluster count and assignment), hence frames its input; the
   aggregator scripts thread their key. *)
From Coq Require Import ZArith List Bool Lia PeanoNat.
From FV Require Import Common.ListX Common.Store Common.StoreSim Model.C10_Model.
From FV Require gen.Gen_for_each_client gen.Gen_tree_util gen.Gen_c10_fed_avg gen.Gen_c10_fed_prox gen.Gen_c10_mime gen.Gen_c10_mime_lite
  gen.Gen_c10_agnostic_fed_avg gen.Gen_c10_hyp_cluster gen.Gen_c10_apfl gen.Gen_c10_compression gen.Gen_c10_optimizers
  gen.Gen_c10_scan_for_each_client gen.Gen_c10_scan_tree_util gen.Gen_c10_scan_client_datasets gen.Gen_c10_scan_models
  gen.Gen_c10_scan_walsh_hadamard.
Import ListNotations.

(* ---------------- well-formedness of generated scripts ---------------- *)
Lemma wf_app p q : wf_script p = true -> wf_script q = true -> wf_script (p ++ q) = true.
Proof. unfold wf_script. intros A B. rewrite forallb_app, A, B. reflexivity. Qed.

Lemma wf_flat_map {A} (f : A -> list cmd) l : (forall x, wf_script (f x) = true) -> wf_script (flat_map f l) = true.
Proof. intros H. induction l; cbn; [reflexivity|]. apply wf_app; auto. Qed.

Lemma wf_map {A} (f : A -> cmd) l : (forall x, wf_cmd (f x) = true) -> wf_script (map f l) = true.
Proof. intros H. induction l; cbn; [reflexivity|]. rewrite H. exact IHl. Qed.

Lemma wf_cons c p : wf_cmd c = true -> wf_script p = true -> wf_script (c :: p) = true.
Proof. intros A B. unfold wf_script in *. cbn. rewrite A, B. reflexivity. Qed.

Ltac wf_tac :=
  repeat first
    [ reflexivity
    | apply wf_cons; [reflexivity|]
    | apply wf_app
    | apply wf_flat_map; intros
    | apply wf_map; intros
    | match goal with
      | x : (_ * _)%type |- _ => destruct x
      | |- context [if ?b then _ else _] => destruct b
      | |- context [match ?i with O => _ | S _ => _ end] => destruct i
      end; cbn [fst snd] ].

Lemma wf_fedavg cids : wf_script (script_fedavg cids) = true.
Proof. unfold script_fedavg. wf_tac. Qed.

Lemma wf_grads_pass cids : wf_script (grads_pass cids) = true.
Proof. unfold grads_pass, sum_step. wf_tac. Qed.

Lemma wf_mime cids : wf_script (script_mime cids) = true.
Proof. unfold script_mime. apply wf_app; [reflexivity|]. apply wf_app; [apply wf_grads_pass|]. wf_tac. Qed.

Lemma wf_mimelite clip cids : wf_script (script_mimelite clip cids) = true.
Proof.
  unfold script_mimelite. apply wf_app; [reflexivity|]. apply wf_app; [reflexivity|].
  apply wf_app; [destruct clip; wf_tac|]. apply wf_app; [reflexivity|]. apply wf_app; [apply wf_grads_pass|]. reflexivity.
Qed.

Lemma wf_agnostic W cids : wf_script (script_agnostic W cids) = true.
Proof. unfold script_agnostic, sum_step. wf_tac. Qed.

Lemma wf_hyp K cids assign live : wf_script (script_hyp K cids assign live) = true.
Proof. unfold script_hyp. wf_tac. Qed.

Lemma wf_apfl cids : wf_script (script_apfl cids) = true.
Proof. unfold script_apfl, script_apfl_gen. wf_tac. Qed.

Lemma wf_quant1 arith cids : wf_script (script_quant1 arith cids) = true.
Proof. unfold script_quant1, mean_step. destruct arith; wf_tac. Qed.

Lemma wf_rotated cids : wf_script (script_rotated cids) = true.
Proof. unfold script_rotated, mean_step. wf_tac. Qed.

Lemma wf_drive cids : wf_script (script_drive cids) = true.
Proof. unfold script_drive, mean_step. wf_tac. Qed.

Lemma wf_script_of a W K rd : wf_script (script_of a W K rd) = true.
Proof.
  destruct a; cbn [script_of];
    auto using wf_fedavg, wf_mime, wf_mimelite, wf_agnostic, wf_hyp, wf_apfl, wf_quant1, wf_rotated, wf_drive.
Qed.

(* the pre-fix APFL (in-place write into the input table) is NOT well formed *)
Lemma apfl_inplace_not_wf : wf_script (script_apfl_gen true [7%Z]) = false.
Proof. reflexivity. Qed.

(* ---------------- the frame property ---------------- *)
Lemma apply_frames_input a W K rd s st_loc cl_loc σ' :
  exec (script_of a W K rd) (mkSt s [(st_r, st_loc); (cl_r, cl_loc)]) = Some σ' ->
  (forall l, l < length s -> nth_error (sto σ') l = nth_error s l) /\
  written (length s) s (sto σ') = [] /\ length s <= length (sto σ').
Proof.
  intros E. destruct (exec_frames _ _ _ (wf_script_of a W K rd) E) as [A B].
  - cbn. intros k l H. discriminate.
  - cbn in *. split; [exact A|]. split; [apply written_nil; exact A | exact B].
Qed.

(* ---------------- the aggregator key is threaded ---------------- *)
Definition split0 (k : val) : val := VApp F_SPLIT0 (vlist [k]).

Definition next_key (a : C10_alg) (k : val) : val :=
  match a with QRotated => split0 (split0 k) | _ => split0 k end.

(* `mid` = the per-client loop and the two calls before the final MkRec *)
Lemma finish_lemma mid σ1 σ' newloc c5 :
  wf_script mid = true -> forallb (keeps (RIn 5)) mid = true ->
  lookup (ven σ1) (RIn 5) = Some newloc -> nth_error (sto σ1) newloc = Some c5 ->
  (forall k l, lookup (ven σ1) (ROwn k) = Some l -> l <> newloc) ->
  exec (mid ++ [MkRec res_state [ROwn 26; RIn 5]]) σ1 = Some σ' ->
  exists ns nb, lookup (ven σ') res_state = Some ns /\ nth_error (sto σ') ns = Some (CRec [nb; newloc]) /\
                nth_error (sto σ') newloc = Some c5.
Proof.
  intros W KP L5 C5 OA E. rewrite exec_app in E. destruct (exec mid σ1) as [σ2|] eqn:E2; try discriminate.
  assert (LT : newloc < length (sto σ1)) by (apply nth_error_Some; congruence).
  destruct (exec_protects (fun l => l = newloc) mid σ1 σ2 W E2) as (A & _ & B).
  - intros l ->. exact LT.
  - intros k l H ->. exact (OA _ _ H eq_refl).
  - pose proof (exec_keeps (RIn 5) mid σ1 σ2 KP E2) as K5. rewrite L5 in K5.
    cbn in E. destruct (lookup (ven σ2) (ROwn 26)) as [l26|]; try discriminate. rewrite K5 in E.
    inversion E; subst; cbn. exists (length (sto σ2)), l26. split; [reflexivity|]. split.
    + apply nth_error_snoc_new.
    + rewrite nth_error_snoc_old by lia. rewrite (A newloc eq_refl). exact C5.
Qed.

Lemma nth_error_lt {A} (l : list A) i x : nth_error l i = Some x -> i < length l.
Proof. intros H. apply nth_error_Some. congruence. Qed.

Lemma keeps_cons r c p : keeps r c = true -> forallb (keeps r) p = true -> forallb (keeps r) (c :: p) = true.
Proof. intros A B. cbn. rewrite A, B. reflexivity. Qed.

Ltac keeps_tac :=
  repeat first
    [ reflexivity
    | apply keeps_cons; [reflexivity|]
    | apply keeps_app
    | apply keeps_flat_map; intros
    | match goal with
      | x : (_ * _)%type |- _ => destruct x
      | |- context [match ?i with O => _ | S _ => _ end] => destruct i
      end; cbn [fst snd] ].

Lemma exec_cons c p σ σ1 : exec1 c σ = Some σ1 -> exec (c :: p) σ = exec p σ1.
Proof. intros H. cbn. rewrite H. reflexivity. Qed.

Lemma step_field r src i σ l fs x : lookup (ven σ) src = Some l -> nth_error (sto σ) l = Some (CRec fs) ->
  nth_error fs i = Some x -> exec1 (Field r src i) σ = Some (bind σ r x).
Proof. intros A B C. cbn. rewrite A, B, C. reflexivity. Qed.

Lemma step_call r f args σ ls vs : mapM (lookup (ven σ)) args = Some ls -> mapM (arr_val (sto σ)) ls = Some vs ->
  exec1 (Call r f args []) σ = Some (alloc σ r (CArr (VApp f (vlist vs)) false)).
Proof. intros A B. cbn. rewrite A, B. destruct σ; reflexivity. Qed.

Lemma arr_val_old s c l v : nth_error s l = Some (CArr v false) -> arr_val (s ++ c) l = Some v.
Proof. intros H. unfold arr_val. rewrite nth_error_app1 by (apply nth_error_Some; congruence). rewrite H. reflexivity. Qed.

Lemma arr_val_here s l v : nth_error s l = Some (CArr v false) -> arr_val s l = Some v.
Proof. intros H. unfold arr_val. rewrite H. reflexivity. Qed.

Definition agg_mid : list cmd := [Call res_agg F_INVW [ROwn 24] [ROwn 24]; Call (ROwn 26) F_BITS [RIn 2; res_agg] []].
Lemma agg_finish_split : agg_finish = agg_mid ++ [MkRec res_state [ROwn 26; RIn 5]].
Proof. reflexivity. Qed.

Section RngThreaded.
Variables (cids : list Z) (s : store) (st_loc cl_loc bits rng : nat) (k : val) (σ' : st).
Hypothesis HS : nth_error s st_loc = Some (CRec [bits; rng]).
Hypothesis HR : nth_error s rng = Some (CArr k false).
Let σ0 := mkSt s [(st_r, st_loc); (cl_r, cl_loc)].

Definition threaded (key : val) : Prop :=
  exists ns nb nr, lookup (ven σ') res_state = Some ns /\ nth_error (sto σ') ns = Some (CRec [nb; nr]) /\
                   nth_error (sto σ') nr = Some (CArr key false).

Lemma open_state p : exec (Field (RIn 2) st_r 0 :: Field (RIn 3) st_r 1 :: p) σ0 =
  exec p (mkSt s [(RIn 3, rng); (RIn 2, bits); (st_r, st_loc); (cl_r, cl_loc)]).
Proof.
  erewrite exec_cons by (eapply step_field; [reflexivity | exact HS | reflexivity]).
  erewrite exec_cons by (eapply step_field; [reflexivity | exact HS | reflexivity]).
  reflexivity.
Qed.

Ltac rng_one_split E HR :=
  cbn [app] in E; rewrite open_state in E;
  erewrite exec_cons in E by (eapply step_call; [reflexivity | cbn [mapM sto]; rewrite (arr_val_here _ _ _ HR); reflexivity]);
  erewrite exec_cons in E by (eapply step_call; [reflexivity | cbn [mapM sto alloc]; rewrite (arr_val_old _ _ _ _ HR); reflexivity]);
  erewrite exec_cons in E by (eapply step_call; reflexivity);
  try match type of E with exec (?c :: ?rest) _ = _ => change (c :: rest) with ([c] ++ rest) in E end;
  rewrite agg_finish_split, !app_assoc in E;
  match type of E with exec (?mid ++ _) ?σ1 = Some ?σ' =>
    let FL := fresh "FL" in
    assert (FL := fun W KP L5 C5 OA => finish_lemma mid σ1 σ' (length s) (CArr (split0 k) false) W KP L5 C5 OA E);
    destruct FL as (ns & nb & A1 & A2 & A3);
    [ unfold mean_step; wf_tac
    | unfold mean_step; keeps_tac
    | reflexivity
    | cbn [sto alloc]; rewrite <- !app_assoc; cbn [app]; rewrite nth_error_app2 by lia; rewrite Nat.sub_diag; reflexivity
    | cbn [ven alloc sto]; intros k0 l H; cbn in H; rewrite ?app_length in H; cbn in H;
      destruct (Nat.eqb k0 24); [inversion H; subst; lia|]; destruct (Nat.eqb k0 21); [|discriminate];
      inversion H; subst; lia
    | exists ns, nb, (length s); auto ]
  end.

Lemma rng_threaded_quant1 arith : exec (script_quant1 arith cids) σ0 = Some σ' -> threaded (split0 k).
Proof. intros E. unfold script_quant1 in E. destruct arith; rng_one_split E HR. Qed.

Lemma rng_threaded_drive : exec (script_drive cids) σ0 = Some σ' -> threaded (split0 k).
Proof. intros E. unfold script_drive in E. rng_one_split E HR. Qed.

Lemma rng_threaded_rotated : exec (script_rotated cids) σ0 = Some σ' -> threaded (split0 (split0 k)).
Proof.
  intros E. unfold script_rotated in E. cbn [app] in E. rewrite open_state in E.
  erewrite exec_cons in E by (eapply step_call; [reflexivity | cbn [mapM sto]; rewrite (arr_val_here _ _ _ HR); reflexivity]).
  erewrite exec_cons in E by (eapply step_call; [reflexivity | cbn [mapM sto alloc]; rewrite (arr_val_old _ _ _ _ HR); reflexivity]).
  assert (H6 : forall c1 c2 c3, arr_val (((s ++ [CArr (split0 k) false]) ++ c1) ++ c2 ++ c3) (length s) = Some (split0 k) /\
                           arr_val ((s ++ [CArr (split0 k) false]) ++ c1) (length s) = Some (split0 k)).
  { intros. split; unfold arr_val; rewrite <- ?app_assoc; rewrite nth_error_app2 by lia; rewrite Nat.sub_diag; reflexivity. }
  erewrite exec_cons in E by (eapply step_call; [reflexivity | cbn [mapM sto alloc]; rewrite (proj2 (H6 _ [] [])); reflexivity]).
  erewrite exec_cons in E by (eapply step_call; [reflexivity |
     cbn [mapM sto alloc]; rewrite <- (app_nil_r [CArr (VApp F_SPLIT0 (vlist [split0 k])) false]); rewrite (proj1 (H6 _ _ [])); reflexivity]).
  erewrite exec_cons in E by (eapply step_call; reflexivity).
  rewrite agg_finish_split, !app_assoc in E.
  match type of E with exec (?mid ++ _) ?σ1 = _ =>
    assert (FL := fun W KP L5 C5 OA => finish_lemma mid σ1 σ' (S (S (length s))) (CArr (split0 (split0 k)) false) W KP L5 C5 OA E) end.
  destruct FL as (ns & nb & A1 & A2 & A3).
  - apply wf_app; [|reflexivity]. unfold mean_step. wf_tac.
  - apply keeps_app; [|reflexivity]. unfold mean_step. keeps_tac.
  - cbn [ven alloc sto lookup reg_eqb Nat.eqb]. rewrite !app_length. cbn. f_equal. lia.
  - cbn [sto alloc]. rewrite <- !app_assoc. cbn [app]. rewrite nth_error_app2 by lia.
    replace (S (S (length s)) - length s) with 2 by lia. reflexivity.
  - cbn [ven alloc sto]. intros k0 l H. cbn in H. rewrite !app_length in H. cbn in H.
    destruct (Nat.eqb k0 24); [inversion H; subst; lia|].
    destruct (Nat.eqb k0 21); [inversion H; subst; lia|]. destruct (Nat.eqb k0 27); [inversion H; subst; lia | discriminate].
  - exists ns, nb, (S (S (length s))). auto.
Qed.
End RngThreaded.

Lemma rng_state_threaded a W K rd s st_loc cl_loc bits rng k σ' : is_agg a = true ->
  nth_error s st_loc = Some (CRec [bits; rng]) -> nth_error s rng = Some (CArr k false) ->
  exec (script_of a W K rd) (mkSt s [(st_r, st_loc); (cl_r, cl_loc)]) = Some σ' ->
  exists ns nb nr, lookup (ven σ') res_state = Some ns /\ nth_error (sto σ') ns = Some (CRec [nb; nr]) /\
                   nth_error (sto σ') nr = Some (CArr (next_key a k) false).
Proof.
  intros A HS HR E. destruct a; try discriminate; cbn [script_of next_key] in *.
  - eapply rng_threaded_quant1; eauto.
  - eapply rng_threaded_quant1; eauto.
  - eapply rng_threaded_rotated; eauto.
  - eapply rng_threaded_drive; eauto.
  - eapply rng_threaded_quant1; eauto.
Qed.

(* ---------------- a round is a function of the values of its arguments ---------------- *)
Definition results_related (R : nat -> nat -> Prop) (σ1 σ2 : st) : Prop :=
  forall r l1, lookup (ven σ1) r = Some l1 -> exists l2, lookup (ven σ2) r = Some l2 /\ R l1 l2.

Lemma env_rel_results R σ1 σ2 : env_rel R (ven σ1) (ven σ2) -> results_related R σ1 σ2.
Proof. intros E r l1 L. eapply lookup_rel_some; eauto. Qed.

Lemma apply_is_function_of_values a W K rd s1 s2 st1 cl1 st2 cl2 (R : nat -> nat -> Prop) σ1 :
  consistent R s1 s2 -> R st1 st2 -> R cl1 cl2 ->
  exec (script_of a W K rd) (mkSt s1 [(st_r, st1); (cl_r, cl1)]) = Some σ1 ->
  exists σ2 R', exec (script_of a W K rd) (mkSt s2 [(st_r, st2); (cl_r, cl2)]) = Some σ2 /\
    consistent R' (sto σ1) (sto σ2) /\ (forall x y, R x y -> R' x y) /\ results_related R' σ1 σ2.
Proof.
  intros C RS RC E.
  destruct (exec_simulation _ s1 s2 [(st_r, st1); (cl_r, cl1)] [(st_r, st2); (cl_r, cl2)] R σ1 (wf_script_of a W K rd) C) as (σ2 & R' & E2 & C' & ER & SUB); auto.
  - repeat constructor; cbn; auto.
  - cbn. intros k l H. discriminate.
  - exists σ2, R'. repeat split; auto. apply env_rel_results. exact ER.
Qed.

(* stores whose cells only mention existing locations *)
Definition closed (s : store) : Prop := forall l c, nth_error s l = Some c -> Forall (fun x => x < length s) (cell_locs c).

Definition R_id (n : nat) (a b : nat) : Prop := a = b /\ a < n.

Lemma consistent_id s s' : closed s -> (forall l, l < length s -> nth_error s' l = nth_error s l) ->
  consistent (R_id (length s)) s s'.
Proof.
  intros CL SAME l1 l2 [<- L]. destruct (nth_error s l1) as [c|] eqn:N; [|apply nth_error_None in N; lia].
  exists c, c. rewrite (SAME _ L), N. repeat split; auto. specialize (CL _ _ N).
  assert (F2 : forall fs, Forall (fun x => x < length s) fs -> Forall2 (R_id (length s)) fs fs).
  { induction 1; constructor; auto. split; auto. }
  destruct c; cbn in *; auto.
  clear - CL. induction kvs as [|[k x] kvs IH]; cbn in *; constructor.
  - inversion CL; subst. split; cbn; auto. split; auto.
  - apply IH. inversion CL; auto.
Qed.

Lemma wf_client_script rnd cids : wf_script (client_script rnd cids) = true.
Proof. unfold client_script. wf_tac. Qed.

Lemma repeatable a W K rd s st_loc cl_loc σ1 :
  closed s -> st_loc < length s -> cl_loc < length s ->
  exec (script_of a W K rd) (mkSt s [(st_r, st_loc); (cl_r, cl_loc)]) = Some σ1 ->
  exists σ2 R', exec (script_of a W K rd) (mkSt (sto σ1) [(st_r, st_loc); (cl_r, cl_loc)]) = Some σ2 /\
    consistent R' (sto σ1) (sto σ2) /\ results_related R' σ1 σ2.
Proof.
  intros CL LS LC E. destruct (apply_frames_input _ _ _ _ _ _ _ _ E) as (SAME & _ & _).
  destruct (apply_is_function_of_values a W K rd s (sto σ1) st_loc cl_loc st_loc cl_loc (R_id (length s)) σ1) as (σ2 & R' & E2 & C' & _ & RR); auto.
  - apply consistent_id; assumption.
  - split; auto.
  - split; auto.
  - exists σ2, R'. auto.
Qed.

(* ---------------- histories from equal values coincide ---------------- *)
Lemma add_clients_sim rnd cids s1 s2 (R : nat -> nat -> Prop) s1' cl1 : consistent R s1 s2 ->
  add_clients s1 rnd cids = Some (s1', cl1) ->
  exists s2' cl2 R', add_clients s2 rnd cids = Some (s2', cl2) /\ consistent R' s1' s2' /\ R' cl1 cl2 /\ (forall x y, R x y -> R' x y).
Proof.
  intros C A. unfold add_clients in *. destruct (exec (client_script rnd cids) (mkSt s1 [])) as [σ1|] eqn:E; try discriminate.
  destruct (lookup (ven σ1) (ROwn 200)) as [l1|] eqn:L; try discriminate. inversion A; subst.
  destruct (exec_simulation _ s1 s2 [] [] R σ1 (wf_client_script rnd cids) C) as (σ2 & R' & E2 & C' & ER & SUB); auto.
  - constructor.
  - cbn. intros; discriminate.
  - destruct (lookup_rel_some _ _ _ _ _ ER L) as (l2 & L2 & RL). rewrite E2, L2. exists (sto σ2), l2, R'. auto.
Qed.

Lemma apply_round_sim a W K rd rnd s1 s2 st1 st2 (R : nat -> nat -> Prop) σ1 :
  consistent R s1 s2 -> R st1 st2 -> apply_round a W K s1 st1 rnd rd = Some σ1 ->
  exists σ2 R', apply_round a W K s2 st2 rnd rd = Some σ2 /\ consistent R' (sto σ1) (sto σ2) /\
    (forall x y, R x y -> R' x y) /\ results_related R' σ1 σ2.
Proof.
  intros C RS A. unfold apply_round in *. destruct (add_clients s1 rnd (rd_cids rd)) as [[s1' cl1]|] eqn:AC; try discriminate.
  destruct (add_clients_sim _ _ _ _ _ _ _ C AC) as (s2' & cl2 & R1 & AC2 & C1 & RC & SUB1). rewrite AC2.
  destruct (apply_is_function_of_values a W K rd s1' s2' st1 cl1 st2 cl2 R1 σ1 C1 (SUB1 _ _ RS) RC A) as (σ2 & R' & E2 & C' & SUB & RR).
  exists σ2, R'. repeat split; auto.
Qed.

Lemma run_hist_sim a W K rds : forall rnd s1 s2 st1 st2 (R : nat -> nat -> Prop) s1' st1',
  consistent R s1 s2 -> R st1 st2 -> run_hist a W K s1 st1 rnd rds = Some (s1', st1') ->
  exists s2' st2' R', run_hist a W K s2 st2 rnd rds = Some (s2', st2') /\ consistent R' s1' s2' /\ R' st1' st2'.
Proof.
  induction rds as [|rd rds IH]; cbn; intros rnd s1 s2 st1 st2 R s1' st1' C RS H.
  - inversion H; subst. exists s2, st2, R. auto.
  - destruct (apply_round a W K s1 st1 rnd rd) as [σ1|] eqn:A; try discriminate.
    destruct (apply_round_sim _ _ _ _ _ _ _ _ _ _ _ C RS A) as (σ2 & R1 & A2 & C1 & _ & RR). rewrite A2.
    unfold next_state in *. destruct (lookup (ven σ1) res_state) as [n1|] eqn:L; try discriminate.
    destruct (RR _ _ L) as (n2 & L2 & RN). rewrite L2. eapply IH; eauto.
Qed.

(* two stores holding the same value at l1 / l2 *)
Definition same_value (s1 : store) (l1 : nat) (s2 : store) (l2 : nat) : Prop :=
  exists R, consistent R s1 s2 /\ R l1 l2.

Section Restore.
(* save followed by load, as a function on stores: it returns a store and the location of
   the restored state.  Hypothesis: the restored state has the value of the saved one. *)
Variable load_save : store -> nat -> store * nat.
Hypothesis load_save_id : forall s l, same_value s l (fst (load_save s l)) (snd (load_save s l)).

Lemma restore_and_continue a W K rds rnd s st s' st' :
  run_hist a W K s st rnd rds = Some (s', st') ->
  exists s2' st2', run_hist a W K (fst (load_save s st)) (snd (load_save s st)) rnd rds = Some (s2', st2') /\
                   same_value s' st' s2' st2'.
Proof.
  intros H. destruct (load_save_id s st) as (R & C & RL).
  destruct (run_hist_sim a W K rds rnd _ _ _ _ R _ _ C RL H) as (s2' & st2' & R' & H2 & C2 & R2).
  exists s2', st2'. split; [exact H2 | exists R'; auto].
Qed.
End Restore.

(* ---------------- tie to the source: translated effect skeletons (tools/anchors/c10_effects.py) -------- *)
Definition source_effects : list (list ecmd) :=
  [Gen_c10_fed_avg.federated_averaging_effects; Gen_c10_fed_prox.fed_prox_effects; Gen_c10_mime.mime_effects;
   Gen_c10_mime_lite.mime_lite_effects; Gen_c10_agnostic_fed_avg.agnostic_federated_averaging_effects;
   Gen_c10_hyp_cluster.hyp_cluster_effects; Gen_c10_apfl.adaptive_personalized_federated_learning_effects;
   Gen_c10_apfl.apfl_eval_effects;    (* the evaluation function of APFL must not write the state either *)
   Gen_c10_compression.uniform_stochastic_quantizer_effects; Gen_c10_compression.rotated_uniform_stochastic_quantizer_effects;
   Gen_c10_compression.structured_drive_quantizer_effects; Gen_c10_compression.terngrad_quantizer_effects].

(* in the text of every apply(): every in-place write targets an object created by the call, no
   jit with donate_argnums is applied to anything but such objects, nothing outliving the call is written *)
Lemma source_effects_wf : forallb (forallb ewf) source_effects = true.
Proof. reflexivity. Qed.

(* the scripts perform the container effects of the source, in the same order (one and two clients) *)
Definition effect_instances : list (list ecmd * list ecmd * list ecmd) :=
  let c1 := [7%Z] in let c2 := [7%Z; 8%Z] in
  [(script_essence (script_fedavg c1), script_essence (script_fedavg c2), essence Gen_c10_fed_avg.federated_averaging_effects);
   (script_essence (script_fedavg c1), script_essence (script_fedavg c2), essence Gen_c10_fed_prox.fed_prox_effects);
   (script_essence (script_mime c1), script_essence (script_mime c2), essence Gen_c10_mime.mime_effects);
   (script_essence (script_mimelite true c1), script_essence (script_mimelite true c2), essence Gen_c10_mime_lite.mime_lite_effects);
   (script_essence (script_agnostic 1 c1), script_essence (script_agnostic 3 c2),
    essence Gen_c10_agnostic_fed_avg.agnostic_federated_averaging_effects);
   (script_essence (script_hyp 2 c1 [1] [false; true]), script_essence (script_hyp 3 c2 [2; 0] [true; false; true]),
    essence Gen_c10_hyp_cluster.hyp_cluster_effects);
   (script_essence (script_apfl c1), script_essence (script_apfl c2),
    essence Gen_c10_apfl.adaptive_personalized_federated_learning_effects);
   (script_essence (script_quant1 true c1), script_essence (script_quant1 true c2),
    essence Gen_c10_compression.uniform_stochastic_quantizer_effects);
   (script_essence (script_quant1 false c1), script_essence (script_quant1 false c2),
    essence Gen_c10_compression.terngrad_quantizer_effects);
   (script_essence (script_rotated c1), script_essence (script_rotated c2),
    essence Gen_c10_compression.rotated_uniform_stochastic_quantizer_effects);
   (script_essence (script_drive c1), script_essence (script_drive c2),
    essence Gen_c10_compression.structured_drive_quantizer_effects)].

Fixpoint ecmds_eqb (a b : list ecmd) : bool :=
  match a, b with [], [] => true | x :: a', y :: b' => ecmd_eqb x y && ecmds_eqb a' b' | _, _ => false end.

Lemma scripts_match_source :
  forallb (fun t => match t with (s1, s2, src) => ecmds_eqb s1 src && ecmds_eqb s2 src end) effect_instances = true.
Proof. vm_compute. reflexivity. Qed.

(* what the library code under apply() donates, as translated from for_each_client.py, tree_util.py and
   optimizers.py; run_client / sum_step / mean_step / agg_finish are built from these constants *)
Lemma library_donations :
  Gen_for_each_client.jit_init_copies = true /\ Gen_for_each_client.jit_init_donates = [] /\
  Gen_for_each_client.jit_step_donates = [0%Z] /\ Gen_for_each_client.jit_final_donates = [1%Z] /\
  Gen_tree_util.tree_weight_donates = [] /\ Gen_tree_util.tree_add_donates = [] /\
  Gen_tree_util.tree_add_eq_donates = [0] /\ Gen_tree_util.tree_weight_eq_donates = [0] /\
  Gen_c10_optimizers.optax_apply_donates = [].
Proof. repeat split; reflexivity. Qed.

(* the key kept in the new aggregator state, as found in the source: how many first-components of
   jax.random.split lie between it and the old key; next_key (C10_rng_state_threaded) is that iterate *)
Definition source_key_depth (a : C10_alg) : nat :=
  match a with
  | QUniform | QUniformArith => Gen_c10_compression.uniform_stochastic_quantizer_key_depth
  | QRotated => Gen_c10_compression.rotated_uniform_stochastic_quantizer_key_depth
  | QDrive => Gen_c10_compression.structured_drive_quantizer_key_depth
  | QTern => Gen_c10_compression.terngrad_quantizer_key_depth
  | _ => 0
  end.

Lemma next_key_is_source_depth a k : is_agg a = true -> next_key a k = Nat.iter (source_key_depth a) split0 k.
Proof. destruct a; cbn; try discriminate; reflexivity. Qed.


(* the boolean asserted on every generated store implies the hypothesis of `repeatable` *)
Lemma closedb_closed s : closedb s = true -> closed s.
Proof.
  unfold closedb, closed. intros H l c N. rewrite forallb_forall in H.
  specialize (H c (nth_error_In _ _ N)). apply Forall_forall. intros x Hx. rewrite forallb_forall in H.
  apply Nat.ltb_lt. apply H. exact Hx.
Qed.

(* every object the call binds to an own register -- the new state, the diagnostics, the aggregate -- is a NEW
   location: it cannot be (alias) anything the caller passed in *)
Lemma new_objects_are_fresh a W K rd s st_loc cl_loc σ' :
  exec (script_of a W K rd) (mkSt s [(st_r, st_loc); (cl_r, cl_loc)]) = Some σ' ->
  forall k l, lookup (ven σ') (ROwn k) = Some l -> length s <= l.
Proof.
  intros E k l L.
  destruct (exec_protects (fun x => x < length s) _ _ _ (wf_script_of a W K rd) E) as (_ & OA & _).
  - intros x H; exact H.
  - cbn. intros k0 l0 H. discriminate.
  - specialize (OA _ _ L). cbn in OA. lia.
Qed.


(* no module in the closure of the built-in algorithms and aggregators reads a value that depends on the interpreter
   process or on the moment (hash(), id(), time, uuid, os.environ, unseeded random): scanned on this run *)
Definition process_dependent_uses_total : nat :=
  Gen_c10_fed_avg.process_dependent_uses + Gen_c10_fed_prox.process_dependent_uses + Gen_c10_mime.process_dependent_uses +
  Gen_c10_mime_lite.process_dependent_uses + Gen_c10_agnostic_fed_avg.process_dependent_uses +
  Gen_c10_hyp_cluster.process_dependent_uses + Gen_c10_apfl.process_dependent_uses +
  Gen_c10_compression.process_dependent_uses + Gen_c10_optimizers.process_dependent_uses +
  Gen_c10_scan_for_each_client.process_dependent_uses + Gen_c10_scan_tree_util.process_dependent_uses +
  Gen_c10_scan_client_datasets.process_dependent_uses + Gen_c10_scan_models.process_dependent_uses +
  Gen_c10_scan_walsh_hadamard.process_dependent_uses.

Lemma no_process_dependent_values : process_dependent_uses_total = 0.
Proof. reflexivity. Qed.
