(* C11 proofs, part Q: the quantizers on finite inputs.  Each NanQ model function is
   shown to return `Some` of a Q-level function (refinement lemmas *_lift: this is the
   "never NaN" half), and the Q-level functions are analysed with lra / nra. *)
From Coq Require Import ZArith QArith Qabs Qround Qminmax List Bool Lia Lqa.
From FV Require Import Common.ListX Common.CMonoid Common.NanQ Common.NanVec gen.Gen_compression Model.C11_Model.
Import ListNotations.
Local Open Scope Q_scope.

(* ---------- Q-level functions ---------- *)
Definition rescale_q (vmin vmax x : Q) : Q :=
  Qmax 0 (Qmin (if Qeq_bool (vmax - vmin) 0 then 0 else (x - vmin) / (vmax - vmin)) 1).
Definition bsq1_q (vmin vmax x u : Q) : Q := if Qle_bool (rescale_q vmin vmax x) u then vmin else vmax.
Definition usq_vf (Lm c : Q) : Q := inject_Z (Qfloor (c * Lm)) / Lm.
Definition usq_vc (Lm c : Q) : Q := inject_Z (Qceiling (c * Lm)) / Lm.
Definition usq_t (Lm c : Q) : Q :=
  if Qeq_bool (usq_vc Lm c - usq_vf Lm c) 0 then 0 else (c - usq_vf Lm c) / (usq_vc Lm c - usq_vf Lm c).
Definition usq1_q (vmin vmax : Q) (L : Z) (x u : Q) : Q :=
  let Lm := inject_Z L - 1 in
  let c := rescale_q vmin vmax x in
  vmin + (if Qltb (usq_t Lm c) u then usq_vf Lm c else usq_vc Lm c) * (vmax - vmin).

(* ---------- refinement: on finite inputs the model returns Some ---------- *)
Lemma rescale_lift vmin vmax x : rescale (Some vmin) (Some vmax) (Some x) = Some (rescale_q vmin vmax x).
Proof. unfold rescale, rescale_q. cbn. destruct (Qeq_bool (vmax - vmin) 0); reflexivity. Qed.

Lemma bsq1_lift vmin vmax x u : bsq1 (Some vmin) (Some vmax) (Some x) u = Some (bsq1_q vmin vmax x u).
Proof. unfold bsq1, bsq1_q. rewrite rescale_lift. cbn. destruct (Qle_bool (rescale_q vmin vmax x) u); reflexivity. Qed.

Lemma Lm_ge1 L : (2 <= L)%Z -> 1 <= inject_Z L - 1.
Proof. intros H. assert (2 <= inject_Z L) by (change 2 with (inject_Z 2); rewrite <- Zle_Qle; exact H). lra. Qed.

Lemma Lm_eq L : inject_Z L - 1 == inject_Z (L - 1).
Proof. unfold Zminus. rewrite inject_Z_plus. reflexivity. Qed.

Lemma Lm_nonzero L : (2 <= L)%Z -> Qeq_bool (inject_Z L - 1) 0 = false.
Proof. intros H. apply Qeq_bool_false_iff. pose proof (Lm_ge1 L H). lra. Qed.

Lemma Lm_neq L : (2 <= L)%Z -> ~ inject_Z L - 1 == 0.
Proof. intros H. apply Qeq_bool_false_iff, Lm_nonzero, H. Qed.

Lemma usq_floor_lift Lm c : ~ Lm == 0 -> usq_floor (Some Lm) (Some c) = Some (usq_vf Lm c).
Proof. intros H. unfold usq_floor, nfloor, usq_vf. rewrite NanQ.mul_Some. cbn [NanQ.lift1]. apply NanQ.div_Some, H. Qed.
Lemma usq_ceil_lift Lm c : ~ Lm == 0 -> usq_ceil (Some Lm) (Some c) = Some (usq_vc Lm c).
Proof. intros H. unfold usq_ceil, nceil, usq_vc. rewrite NanQ.mul_Some. cbn [NanQ.lift1]. apply NanQ.div_Some, H. Qed.

Lemma usq_threshold_lift Lm c : ~ Lm == 0 -> usq_threshold (Some Lm) (Some c) = Some (usq_t Lm c).
Proof.
  intros H. unfold usq_threshold, usq_t. rewrite usq_floor_lift, usq_ceil_lift by exact H.
  rewrite !NanQ.sub_Some. unfold NanQ.div.
  destruct (Qeq_bool (usq_vc Lm c - usq_vf Lm c) 0); reflexivity.
Qed.

Lemma usq1_lift vmin vmax L x u : (2 <= L)%Z ->
  usq1 (Some vmin) (Some vmax) L (Some x) u = Some (usq1_q vmin vmax L x u).
Proof.
  intros HL. pose proof (Lm_neq L HL) as Hn. unfold usq1, usq1_q. rewrite rescale_lift.
  unfold NanQ.of_Z. change (NanQ.sub (Some (inject_Z L)) NanQ.one) with (Some (inject_Z L - 1)).
  rewrite usq_threshold_lift, usq_floor_lift, usq_ceil_lift by exact Hn.
  unfold NanQ.gtb, NanQ.ltb.
  destruct (Qltb (usq_t (inject_Z L - 1) (rescale_q vmin vmax x)) u);
    cbn [NanQ.where_]; rewrite NanQ.sub_Some, NanQ.mul_Some, NanQ.add_Some; reflexivity.
Qed.

(* ---------- arithmetic facts ---------- *)
Lemma clamp01 r : 0 <= r <= 1 -> Qmax 0 (Qmin r 1) == r.
Proof.
  intros H. destruct (Q.min_spec r 1) as [[? E]|[? E]]; destruct (Q.max_spec 0 (Qmin r 1)) as [[? E2]|[? E2]]; lra.
Qed.

Lemma rescale_q_spec vmin vmax x : vmin <= x <= vmax ->
  0 <= rescale_q vmin vmax x <= 1 /\ rescale_q vmin vmax x * (vmax - vmin) == x - vmin /\
  (vmax - vmin == 0 -> rescale_q vmin vmax x == 0).
Proof.
  intros H. unfold rescale_q. destruct (Qeq_bool (vmax - vmin) 0) eqn:E.
  - apply Qeq_bool_iff in E. rewrite (clamp01 0) by lra. split; [lra|]. split; [lra|]. intros _; reflexivity.
  - apply Qeq_bool_false_iff in E. assert (HR : 0 < vmax - vmin) by (destruct (Qlt_le_dec 0 (vmax - vmin)); [assumption|exfalso; apply E; lra]).
    assert (H0 : 0 <= (x - vmin) / (vmax - vmin)) by (apply Qle_shift_div_l; lra).
    assert (H1 : (x - vmin) / (vmax - vmin) <= 1) by (apply Qle_shift_div_r; lra).
    rewrite clamp01 by (split; assumption). split; [split; assumption|]. split; [field; exact E|].
    intros Z0. contradiction.
Qed.

Lemma floor_ceil_cases s :
  (Qceiling s = Qfloor s /\ inject_Z (Qfloor s) == s) \/
  (Qceiling s = (Qfloor s + 1)%Z /\ inject_Z (Qfloor s) < s < inject_Z (Qfloor s) + 1).
Proof.
  pose proof (Qfloor_le s) as F1. pose proof (Qlt_floor s) as F2.
  pose proof (Qle_ceiling s) as C1. pose proof (Qceiling_lt s) as C2.
  rewrite inject_Z_plus in F2. unfold Zminus in C2. rewrite inject_Z_plus in C2.
  change (inject_Z (- (1))%Z) with (-1) in C2. change (inject_Z 1) with 1 in F2.
  assert (A : (Qfloor s <= Qceiling s)%Z) by (rewrite Zle_Qle; lra).
  assert (B : (Qceiling s < Qfloor s + 2)%Z).
  { rewrite Zlt_Qlt, inject_Z_plus. change (inject_Z 2) with 2. lra. }
  destruct (Z.eq_dec (Qceiling s) (Qfloor s)) as [E|E].
  - left. split; [exact E|]. rewrite E in C1. lra.
  - right. assert (E' : Qceiling s = (Qfloor s + 1)%Z) by lia. split; [exact E'|].
    rewrite E', inject_Z_plus in C2. change (inject_Z 1) with 1 in C2. split; lra.
Qed.

(* ---------- the uniform quantizer, one coordinate ---------- *)
Definition lvl (vmin vmax : Q) (L : Z) (k : Z) : Q := vmin + inject_Z k * ((vmax - vmin) / (inject_Z L - 1)).

Lemma usq1_q_spec vmin vmax L x : vmin <= x <= vmax -> (2 <= L)%Z ->
  exists (kf kc : Z) (t : Q),
    (0 <= kf <= kc)%Z /\ (kc <= L - 1)%Z /\ (kc = kf \/ kc = kf + 1)%Z /\ 0 <= t < 1 /\
    (kc = kf -> t == 0 /\ x == lvl vmin vmax L kf) /\
    (kc = (kf + 1)%Z -> 0 < t /\ lvl vmin vmax L kf < x < lvl vmin vmax L kc) /\
    (1 - t) * lvl vmin vmax L kf + t * lvl vmin vmax L kc == x /\
    forall u, (t < u -> usq1_q vmin vmax L x u == lvl vmin vmax L kf) /\
              (u <= t -> usq1_q vmin vmax L x u == lvl vmin vmax L kc).
Proof.
  intros Hx HL.
  destruct (rescale_q_spec vmin vmax x Hx) as [[Hc0 Hc1] [HcR HcZ]].
  set (c := rescale_q vmin vmax x) in *.
  set (Lm := inject_Z L - 1).
  assert (HLm : 1 <= Lm) by (apply Lm_ge1, HL).
  assert (HLn : ~ Lm == 0) by lra.
  set (s := c * Lm).
  assert (Hs : 0 <= s <= Lm) by (unfold s; split; nra).
  exists (Qfloor s), (Qceiling s), (usq_t Lm c).
  pose proof (Qfloor_le s) as F1. pose proof (Qlt_floor s) as F2.
  pose proof (Qle_ceiling s) as C1. pose proof (Qceiling_lt s) as C2.
  rewrite inject_Z_plus in F2. unfold Zminus in C2. rewrite inject_Z_plus in C2.
  change (inject_Z (- (1))%Z) with (-1) in C2. change (inject_Z 1) with 1 in F2.
  assert (K0 : (0 <= Qfloor s)%Z).
  { assert (-1 < inject_Z (Qfloor s)) by lra. change (-1) with (inject_Z (-1)) in H. rewrite <- Zlt_Qlt in H. lia. }
  assert (K1 : (Qceiling s <= L - 1)%Z).
  { assert (inject_Z (Qceiling s) < inject_Z L) by (unfold Lm in *; lra). rewrite <- Zlt_Qlt in H. lia. }
  assert (HR : 0 <= vmax - vmin) by lra.
  (* the two levels in terms of vf, vc *)
  assert (Lf : lvl vmin vmax L (Qfloor s) == vmin + usq_vf Lm c * (vmax - vmin)).
  { unfold lvl, usq_vf. fold Lm. fold s. field. exact HLn. }
  assert (Lc : lvl vmin vmax L (Qceiling s) == vmin + usq_vc Lm c * (vmax - vmin)).
  { unfold lvl, usq_vc. fold Lm. fold s. field. exact HLn. }
  assert (Hxs : x == vmin + s * ((vmax - vmin) / Lm)).
  { unfold s. transitivity (vmin + c * (vmax - vmin)); [lra|]. field. exact HLn. }
  assert (Hstep : 0 <= (vmax - vmin) / Lm) by (apply Qle_shift_div_l; lra).
  destruct (floor_ceil_cases s) as [[E Es]|[E Es]].
  - (* on the grid *)
    assert (Ht : usq_t Lm c == 0).
    { unfold usq_t. unfold usq_vc, usq_vf. fold s. rewrite E.
      assert (Z0 : Qeq_bool (inject_Z (Qfloor s) / Lm - inject_Z (Qfloor s) / Lm) 0 = true) by (apply Qeq_bool_iff; lra).
      rewrite Z0. reflexivity. }
    assert (Hxl : x == lvl vmin vmax L (Qfloor s)).
    { rewrite Hxs. unfold lvl. fold Lm. rewrite Es. reflexivity. }
    split; [lia|]. split; [exact K1|]. split; [left; exact E|]. split; [rewrite Ht; lra|].
    split; [intros _; split; assumption|]. split; [intros E2; lia|].
    split; [rewrite E, Ht, <- Hxl; lra|].
    intros u. unfold usq1_q. fold Lm. fold c.
    split; intros Hu.
    + assert (B : Qltb (usq_t Lm c) u = true) by (apply Qltb_lt; exact Hu). rewrite B. rewrite Lf. reflexivity.
    + assert (B : Qltb (usq_t Lm c) u = false) by (apply Qltb_ge; exact Hu). rewrite B. rewrite Lc. reflexivity.
  - (* strictly between two levels *)
    assert (Hd : usq_vc Lm c - usq_vf Lm c == 1 / Lm).
    { unfold usq_vc, usq_vf. fold s. rewrite E, inject_Z_plus. change (inject_Z 1) with 1. field. exact HLn. }
    assert (Hdn : ~ usq_vc Lm c - usq_vf Lm c == 0).
    { rewrite Hd. intros Z0. assert (0 < 1 / Lm) by (apply Qlt_shift_div_l; lra). lra. }
    assert (Ht : usq_t Lm c == s - inject_Z (Qfloor s)).
    { unfold usq_t. apply Qeq_bool_false_iff in Hdn. rewrite Hdn.
      apply Qeq_bool_false_iff in Hdn. rewrite Hd. unfold usq_vf. fold s. unfold s. field. exact HLn. }
    assert (IF0 : 0 <= inject_Z (Qfloor s)) by (change 0 with (inject_Z 0); rewrite <- Zle_Qle; exact K0).
    assert (Hpos : 0 < c).
    { destruct (Qlt_le_dec 0 c) as [?|Hle]; [assumption|]. exfalso. assert (Hc00 : c == 0) by lra.
      assert (Hs0 : s == 0) by (unfold s; rewrite Hc00; ring). lra. }
    assert (HRpos : 0 < vmax - vmin).
    { destruct (Qlt_le_dec 0 (vmax - vmin)) as [?|Hle]; [assumption|]. exfalso.
      assert (HZ : vmax - vmin == 0) by lra. specialize (HcZ HZ). lra. }
    assert (Hsp : 0 < (vmax - vmin) / Lm) by (apply Qlt_shift_div_l; lra).
    split; [lia|]. split; [exact K1|]. split; [right; exact E|]. split; [rewrite Ht; lra|].
    split; [intros E2; lia|].
    assert (Lcf : lvl vmin vmax L (Qceiling s) == lvl vmin vmax L (Qfloor s) + (vmax - vmin) / Lm).
    { unfold lvl. fold Lm. rewrite E, inject_Z_plus. change (inject_Z 1) with 1. ring. }
    assert (Lfx : lvl vmin vmax L (Qfloor s) == x - (s - inject_Z (Qfloor s)) * ((vmax - vmin) / Lm)).
    { rewrite Hxs. unfold lvl. fold Lm. ring. }
    split.
    { intros _. split; [rewrite Ht; lra|]. rewrite Lcf, Lfx. split; nra. }
    split; [rewrite Lcf, Lfx, Ht; ring|].
    intros u. unfold usq1_q. fold Lm. fold c.
    split; intros Hu.
    + assert (B : Qltb (usq_t Lm c) u = true) by (apply Qltb_lt; exact Hu). rewrite B. rewrite Lf. reflexivity.
    + assert (B : Qltb (usq_t Lm c) u = false) by (apply Qltb_ge; exact Hu). rewrite B. rewrite Lc. reflexivity.
Qed.

(* ---------- vectors: min / max, lifting ---------- *)
Definition qmin (v : list Q) : Q := match v with [] => 0 | x :: r => fold_left Qmin r x end.
Definition qmax (v : list Q) : Q := match v with [] => 0 | x :: r => fold_left Qmax r x end.

Lemma fold_min_lift : forall r x, fold_left NanQ.min (map Some r) (Some x) = Some (fold_left Qmin r x).
Proof. induction r as [|y r IH]; intros x; [reflexivity|]. cbn [map fold_left]. apply IH. Qed.
Lemma fold_max_lift : forall r x, fold_left NanQ.max (map Some r) (Some x) = Some (fold_left Qmax r x).
Proof. induction r as [|y r IH]; intros x; [reflexivity|]. cbn [map fold_left]. apply IH. Qed.

Lemma amin_lift v : v <> [] -> amin (lift v) = Some (qmin v).
Proof. destruct v as [|x r]; [congruence|]. intros _. apply fold_min_lift. Qed.
Lemma amax_lift v : v <> [] -> amax (lift v) = Some (qmax v).
Proof. destruct v as [|x r]; [congruence|]. intros _. apply fold_max_lift. Qed.

Lemma fold_min_le : forall r a, fold_left Qmin r a <= a /\ Forall (fun y => fold_left Qmin r a <= y) r.
Proof.
  induction r as [|y r IH]; intros a; cbn [fold_left]; [split; [lra|constructor]|].
  destruct (IH (Qmin a y)) as [H1 H2]. pose proof (Q.le_min_l a y). pose proof (Q.le_min_r a y).
  split; [lra|]. constructor; [lra|exact H2].
Qed.
Lemma fold_max_ge : forall r a, a <= fold_left Qmax r a /\ Forall (fun y => y <= fold_left Qmax r a) r.
Proof.
  induction r as [|y r IH]; intros a; cbn [fold_left]; [split; [lra|constructor]|].
  destruct (IH (Qmax a y)) as [H1 H2]. pose proof (Q.le_max_l a y). pose proof (Q.le_max_r a y).
  split; [lra|]. constructor; [lra|exact H2].
Qed.

Lemma qmin_qmax_bounds v : Forall (fun x => qmin v <= x <= qmax v) v.
Proof.
  destruct v as [|a r]; [constructor|]. unfold qmin, qmax.
  destruct (fold_min_le r a) as [H1 H2]. destruct (fold_max_ge r a) as [H3 H4].
  constructor; [split; assumption|].
  rewrite Forall_forall in *. intros y Hy. split; [apply H2|apply H4]; exact Hy.
Qed.

(* the minimum and the maximum are attained *)
Lemma fold_min_in : forall r a, fold_left Qmin r a == a \/ Exists (fun y => fold_left Qmin r a == y) r.
Proof.
  induction r as [|y r IH]; intros a; cbn [fold_left]; [left; reflexivity|].
  destruct (IH (Qmin a y)) as [H|H].
  - destruct (Q.min_spec a y) as [[_ E]|[_ E]]; [left|right; left]; (transitivity (Qmin a y); [exact H|exact E]).
  - right. right. exact H.
Qed.
Lemma fold_max_in : forall r a, fold_left Qmax r a == a \/ Exists (fun y => fold_left Qmax r a == y) r.
Proof.
  induction r as [|y r IH]; intros a; cbn [fold_left]; [left; reflexivity|].
  destruct (IH (Qmax a y)) as [H|H].
  - destruct (Q.max_spec a y) as [[_ E]|[_ E]]; [right; left|left]; (transitivity (Qmax a y); [exact H|exact E]).
  - right. right. exact H.
Qed.

Lemma map2_lift {A} (f : nq -> A -> nq) (g : Q -> A -> Q) :
  (forall x u, f (Some x) u = Some (g x u)) ->
  forall v us, map2 f (lift v) us = lift (map2 g v us).
Proof.
  intros H. induction v as [|x v IH]; intros [|u us]; cbn; try reflexivity. rewrite H, IH. reflexivity.
Qed.

Lemma map2_nth {A B C} (f : A -> B -> C) : forall (a : list A) (b : list B) i da db dc,
  (i < length a)%nat -> (i < length b)%nat -> nth i (map2 f a b) dc = f (nth i a da) (nth i b db).
Proof.
  induction a as [|x a IH]; intros [|y b] i da db dc Ha Hb; cbn in *; try lia.
  destruct i; [reflexivity|]. apply IH; lia.
Qed.

(* ---------- vector-level quantizers ---------- *)
Definition usq_q (v : list Q) (L : Z) (u : list Q) : list Q := map2 (usq1_q (qmin v) (qmax v) L) v u.
Definition bsq_q (v : list Q) (u : list Q) : list Q := map2 (bsq1_q (qmin v) (qmax v)) v u.

Lemma usq_lift v L u : v <> [] -> (2 <= L)%Z -> usq (lift v) L u = lift (usq_q v L u).
Proof.
  intros Hv HL. unfold usq, usq_q. rewrite amin_lift, amax_lift by exact Hv.
  apply map2_lift. intros x w. apply usq1_lift, HL.
Qed.
Lemma bsq_lift v u : v <> [] -> bsq (lift v) u = lift (bsq_q v u).
Proof.
  intros Hv. unfold bsq, bsq_q. rewrite amin_lift, amax_lift by exact Hv.
  apply map2_lift. intros x w. apply bsq1_lift.
Qed.

(* ---------- property-level statements: uniform quantizer ---------- *)
Definition step_of (vmin vmax : Q) (L : Z) : Q := (vmax - vmin) / (inject_Z L - 1).

Lemma lvl_step vmin vmax L k : lvl vmin vmax L k == vmin + inject_Z k * step_of vmin vmax L.
Proof. reflexivity. Qed.

Lemma lvl_top vmin vmax L : (2 <= L)%Z -> lvl vmin vmax L (L - 1) == vmax.
Proof. intros H. unfold lvl. rewrite <- Lm_eq. field. apply Lm_neq, H. Qed.

Lemma step_nonneg vmin vmax L : vmin <= vmax -> (2 <= L)%Z -> 0 <= step_of vmin vmax L.
Proof.
  intros H HL. unfold step_of. pose proof (Lm_ge1 L HL). apply Qle_shift_div_l; lra.
Qed.

Lemma lvl_mono vmin vmax L a b : vmin <= vmax -> (2 <= L)%Z -> (a <= b)%Z ->
  lvl vmin vmax L a <= lvl vmin vmax L b.
Proof.
  intros H HL Hab. rewrite !lvl_step. pose proof (step_nonneg vmin vmax L H HL).
  assert (inject_Z a <= inject_Z b) by (rewrite <- Zle_Qle; exact Hab). nra.
Qed.

Lemma usq_q_length v L u : length u = length v -> length (usq_q v L u) = length v.
Proof. intros H. unfold usq_q. rewrite map2_length. lia. Qed.

Lemma usq_q_nth v L u i : (i < length v)%nat -> length u = length v ->
  nth i (usq_q v L u) 0 = usq1_q (qmin v) (qmax v) L (nth i v 0) (nth i u 0).
Proof. intros Hi Hu. unfold usq_q. apply map2_nth; lia. Qed.

Lemma qmin_le_qmax v : v <> [] -> qmin v <= qmax v.
Proof.
  destruct v as [|a r]; [congruence|]. intros _.
  pose proof (qmin_qmax_bounds (a :: r)) as H. inversion H; subst. lra.
Qed.

Lemma nth_bounds v i : (i < length v)%nat -> qmin v <= nth i v 0 <= qmax v.
Proof.
  intros Hi. pose proof (qmin_qmax_bounds v) as H. rewrite Forall_forall in H. apply H, nth_In, Hi.
Qed.

(* every coordinate: two neighbouring grid levels around x, a threshold t with
   (1-t)*lower + t*upper == x, and for every draw vector u the output is the upper level
   exactly when u_i <= t  (so P[upper] = t under the uniform law) *)
Theorem usq_coord_spec v L i : v <> [] -> (2 <= L)%Z -> (i < length v)%nat ->
  let m := qmin v in let M := qmax v in let x := nth i v 0 in
  exists (kf kc : Z) (t : Q),
    (0 <= kf <= kc)%Z /\ (kc <= L - 1)%Z /\ (kc = kf \/ kc = kf + 1)%Z /\ 0 <= t < 1 /\
    lvl m M L kf <= x <= lvl m M L kc /\
    (kc = kf -> t == 0 /\ x == lvl m M L kf) /\
    (kc = (kf + 1)%Z -> 0 < t /\ lvl m M L kf < x < lvl m M L kc) /\
    (1 - t) * lvl m M L kf + t * lvl m M L kc == x /\
    forall u, length u = length v ->
      exists out, usq (lift v) L u = lift out /\ length out = length v /\
        (t < nth i u 0 -> nth i out 0 == lvl m M L kf) /\
        (nth i u 0 <= t -> nth i out 0 == lvl m M L kc).
Proof.
  intros Hv HL Hi m M x.
  destruct (usq1_q_spec m M L x (nth_bounds v i Hi) HL) as (kf & kc & t & K1 & K2 & K3 & Ht & G1 & G2 & Hub & Hu).
  exists kf, kc, t. repeat (split; [assumption|]).
  split.
  { destruct K3 as [E|E]; [destruct (G1 E) as [_ Hx]; rewrite E; lra|destruct (G2 E); lra]. }
  repeat (split; [assumption|]).
  intros u Hlen. exists (usq_q v L u). split; [apply usq_lift; assumption|].
  split; [apply usq_q_length, Hlen|]. rewrite usq_q_nth by assumption. apply Hu.
Qed.

(* consequences: in range, error at most one grid step *)
Lemma usq_coord_bounds v L i kf kc y : v <> [] -> (2 <= L)%Z ->
  let m := qmin v in let M := qmax v in let x := nth i v 0 in
  (0 <= kf <= kc)%Z -> (kc <= L - 1)%Z -> (kc = kf \/ kc = kf + 1)%Z ->
  lvl m M L kf <= x <= lvl m M L kc -> (y == lvl m M L kf \/ y == lvl m M L kc) ->
  m <= y <= M /\ Qabs (y - x) <= step_of m M L.
Proof.
  intros Hv HL m M x K1 K2 K3 Hx Hy.
  pose proof (qmin_le_qmax v Hv) as HmM. fold m M in HmM.
  pose proof (step_nonneg m M L HmM HL) as Hst.
  assert (B0 : m <= lvl m M L kf).
  { rewrite lvl_step. assert (0 <= inject_Z kf) by (change 0 with (inject_Z 0); rewrite <- Zle_Qle; lia). nra. }
  assert (B1 : lvl m M L kc <= M) by (pose proof (lvl_top m M L HL); pose proof (lvl_mono m M L kc (L - 1) HmM HL K2); lra).
  assert (B2 : lvl m M L kf <= lvl m M L kc) by (apply lvl_mono; [assumption|assumption|lia]).
  assert (B3 : lvl m M L kc - lvl m M L kf <= step_of m M L).
  { rewrite !lvl_step. destruct K3 as [->| ->]; [nra|]. rewrite inject_Z_plus. change (inject_Z 1) with 1. nra. }
  split; [destruct Hy as [->| ->]; lra|].
  apply Qabs_case; intros; destruct Hy as [E|E]; rewrite E; lra.
Qed.

(* identity: constant (incl. all-zero) vectors and values already on the grid, for EVERY draw *)
Lemma usq_identity_on_grid v L i (k : Z) u : v <> [] -> (2 <= L)%Z -> (i < length v)%nat -> length u = length v ->
  nth i v 0 == lvl (qmin v) (qmax v) L k ->
  exists out, usq (lift v) L u = lift out /\ length out = length v /\ nth i out 0 == nth i v 0.
Proof.
  intros Hv HL Hi Hu Hk.
  destruct (usq_coord_spec v L i Hv HL Hi) as (kf & kc & t & K1 & K2 & K3 & Ht & Hx & G1 & G2 & _ & Hout).
  destruct (Hout u Hu) as (out & E & Hlen & O1 & O2). exists out. split; [exact E|]. split; [exact Hlen|].
  destruct K3 as [Ek|Ek].
  - destruct (G1 Ek) as [Ht0 Hxl]. rewrite Ek in O2.
    destruct (Qlt_le_dec t (nth i u 0)) as [H|H]; [rewrite (O1 H)|rewrite (O2 H)]; symmetry; exact Hxl.
  - exfalso. destruct (G2 Ek) as [_ [Hlo Hhi]]. rewrite Hk in Hlo, Hhi. rewrite Ek in Hhi.
    rewrite !lvl_step in Hlo, Hhi. rewrite inject_Z_plus in Hhi. change (inject_Z 1) with 1 in Hhi.
    set (st := step_of (qmin v) (qmax v) L) in *.
    assert (Hst : 0 < st) by nra.
    assert (A : inject_Z kf < inject_Z k) by nra.
    assert (B : inject_Z k < inject_Z kf + 1) by nra.
    rewrite <- Zlt_Qlt in A. change 1 with (inject_Z 1) in B. rewrite <- inject_Z_plus, <- Zlt_Qlt in B. lia.
Qed.

Lemma usq_identity_constant v L u c : v <> [] -> (2 <= L)%Z -> length u = length v ->
  Forall (fun x => x == c) v ->
  exists out, usq (lift v) L u = lift out /\ length out = length v /\ Forall (fun y => y == c) out.
Proof.
  intros Hv HL Hu Hc. exists (usq_q v L u). split; [apply usq_lift; assumption|].
  split; [apply usq_q_length, Hu|].
  assert (Hm : qmin v == c /\ qmax v == c).
  { destruct v as [|a r]; [congruence|]. inversion Hc; subst. rewrite Forall_forall in H2.
    unfold qmin, qmax. split.
    - destruct (fold_min_in r a) as [E|E]; [lra|]. apply Exists_exists in E. destruct E as (y & Hy & E). rewrite E. apply H2, Hy.
    - destruct (fold_max_in r a) as [E|E]; [lra|]. apply Exists_exists in E. destruct E as (y & Hy & E). rewrite E. apply H2, Hy. }
  apply Forall_forall. intros y Hy. destruct (In_nth _ _ 0 Hy) as (i & Hi & <-).
  rewrite usq_q_length in Hi by exact Hu.
  destruct (usq_coord_spec v L i Hv HL Hi) as (kf & kc & t & K1 & K2 & K3 & Ht & Hx & G1 & G2 & _ & Hout).
  destruct (Hout u Hu) as (out & E & Hlen & O1 & O2).
  assert (Eo : out = usq_q v L u).
  { rewrite usq_lift in E by assumption. unfold lift in E. apply (f_equal (map (fun o => match o with Some q => q | None => 0 end))) in E.
    rewrite !map_map in E. cbn beta iota in E. rewrite !map_id in E. symmetry. exact E. }
  subst out.
  assert (Hl : forall k, lvl (qmin v) (qmax v) L k == c).
  { intros k. unfold lvl. destruct Hm as [-> ->]. assert (c - c == 0) by ring.
    setoid_replace ((c - c) / (inject_Z L - 1)) with 0; [ring|]. rewrite H. unfold Qdiv. ring. }
  destruct (Qlt_le_dec t (nth i u 0)) as [H|H]; [rewrite (O1 H)|rewrite (O2 H)]; apply Hl.
Qed.

(* ---------- binary quantizer ---------- *)
Lemma bsq1_q_spec vmin vmax x : vmin <= x <= vmax ->
  exists t, 0 <= t <= 1 /\ (1 - t) * vmin + t * vmax == x /\
    (x == vmin -> t == 0) /\ (x == vmax -> vmin < vmax -> t == 1) /\
    forall u, (t <= u -> bsq1_q vmin vmax x u = vmin) /\ (u < t -> bsq1_q vmin vmax x u = vmax).
Proof.
  intros Hx. destruct (rescale_q_spec vmin vmax x Hx) as [[H0 H1] [HR HZ]].
  set (c := rescale_q vmin vmax x) in *. exists c. split; [split; assumption|]. split; [lra|].
  split.
  { intros E. destruct (Qeq_dec (vmax - vmin) 0) as [Z0|NZ]; [apply HZ, Z0|]. nra. }
  split; [intros E Hlt; nra|].
  intros u. unfold bsq1_q. fold c. split; intros Hu.
  - assert (B : Qle_bool c u = true) by (apply Qle_bool_iff; exact Hu). rewrite B. reflexivity.
  - destruct (Qle_bool c u) eqn:B; [apply Qle_bool_iff in B; lra|reflexivity].
Qed.

Lemma bsq_q_length v u : length u = length v -> length (bsq_q v u) = length v.
Proof. intros H. unfold bsq_q. rewrite map2_length. lia. Qed.
Lemma bsq_q_nth v u i : (i < length v)%nat -> length u = length v ->
  nth i (bsq_q v u) 0 = bsq1_q (qmin v) (qmax v) (nth i v 0) (nth i u 0).
Proof. intros Hi Hu. unfold bsq_q. apply map2_nth; lia. Qed.

(* levels {min, max}, threshold t with (1-t) min + t max == x, output max exactly when u_i < t;
   coordinates equal to min or max are unchanged for every draw 0 <= u_i < 1 *)
Theorem bsq_coord_spec v i : v <> [] -> (i < length v)%nat ->
  let m := qmin v in let M := qmax v in let x := nth i v 0 in
  exists t, 0 <= t <= 1 /\ (1 - t) * m + t * M == x /\
    forall u, length u = length v ->
      exists out, bsq (lift v) u = lift out /\ length out = length v /\
        (t <= nth i u 0 -> nth i out 0 = m) /\ (nth i u 0 < t -> nth i out 0 = M) /\
        (0 <= nth i u 0 < 1 -> x == m \/ x == M -> nth i out 0 == x).
Proof.
  intros Hv Hi m M x.
  destruct (bsq1_q_spec m M x (nth_bounds v i Hi)) as (t & Ht & Hub & Tm & TM & Hu).
  exists t. split; [exact Ht|]. split; [exact Hub|].
  intros u Hlen. exists (bsq_q v u). split; [apply bsq_lift, Hv|]. split; [apply bsq_q_length, Hlen|].
  rewrite bsq_q_nth by assumption. fold m M x.
  split; [apply Hu|]. split; [apply Hu|].
  intros Hu01 [E|E].
  - destruct (Hu (nth i u 0)) as [A _]. rewrite A by (rewrite (Tm E); lra). symmetry; exact E.
  - destruct (Qlt_le_dec m M) as [Hlt|Hge].
    + destruct (Hu (nth i u 0)) as [_ B]. rewrite B by (rewrite (TM E Hlt); lra). symmetry; exact E.
    + pose proof (qmin_le_qmax v Hv) as HmM. fold m M in HmM. assert (EmM : m == M) by lra.
      destruct (Qlt_le_dec (nth i u 0) t) as [H|H]; [destruct (Hu (nth i u 0)) as [_ B]; rewrite (B H)|destruct (Hu (nth i u 0)) as [A _]; rewrite (A H)]; lra.
Qed.

(* ---------- TernGrad ---------- *)
Lemma qsign_spec x : (0 < x -> qsign x = 1) /\ (x == 0 -> qsign x = 0) /\ (x < 0 -> qsign x = -1 # 1).
Proof.
  destruct x as [n d]. unfold qsign, Qlt, Qeq. cbn. destruct n; cbn; repeat split; intros; try reflexivity; try lia.
Qed.

Lemma qsign_abs x : Qabs x * qsign x == x.
Proof.
  destruct (Q_dec x 0) as [[H|H]|H].
  - rewrite (proj2 (proj2 (qsign_spec x)) H), Qabs_neg by lra. ring.
  - rewrite (proj1 (qsign_spec x) H), Qabs_pos by lra. ring.
  - rewrite (proj1 (proj2 (qsign_spec x)) H), H. reflexivity.
Qed.

Definition tern_clipped_q (sigma x : Q) : Q :=
  if Qltb (tern_clip * sigma) (Qabs x) then tern_clip * sigma * qsign x else x.

Lemma tern_clipped_lift sigma x : tern_clipped sigma (Some x) = Some (tern_clipped_q sigma x).
Proof.
  unfold tern_clipped, tern_clipped_q. cbn [NanQ.abs NanQ.lift1 NanQ.gtb NanQ.ltb nsign NanQ.mul NanQ.lift2].
  destruct (Qltb (tern_clip * sigma) (Qabs x)); reflexivity.
Qed.

(* the clipped value is the input clipped to [-c sigma, c sigma], c = 5/2 translated from the source *)
Lemma tern_clipped_q_spec sigma x : 0 <= sigma ->
  tern_clipped_q sigma x == Qmax (- (tern_clip * sigma)) (Qmin x (tern_clip * sigma)).
Proof.
  intros Hs. unfold tern_clipped_q. set (b := tern_clip * sigma).
  assert (Hb : 0 <= b) by (unfold b, tern_clip, tern_clip_num, tern_clip_den; nra).
  destruct (Qltb b (Qabs x)) eqn:E.
  - apply Qltb_lt in E. destruct (Q_dec x 0) as [[H|H]|H].
    + rewrite (proj2 (proj2 (qsign_spec x)) H). rewrite Qabs_neg in E by lra.
      destruct (Q.min_spec x b) as [[? E1]|[? E1]]; destruct (Q.max_spec (- b) (Qmin x b)) as [[? E2]|[? E2]]; lra.
    + rewrite (proj1 (qsign_spec x) H). rewrite Qabs_pos in E by lra.
      destruct (Q.min_spec x b) as [[? E1]|[? E1]]; destruct (Q.max_spec (- b) (Qmin x b)) as [[? E2]|[? E2]]; lra.
    + rewrite H in E. change (Qabs 0) with 0 in E. lra.
  - apply Qltb_ge in E. revert E. apply Qabs_case; intros;
      destruct (Q.min_spec x b) as [[? E1]|[? E1]]; destruct (Q.max_spec (- b) (Qmin x b)) as [[? E2]|[? E2]]; lra.
Qed.

Definition tern_q (sigma : Q) (v : list Q) (u : list Q) : list Q :=
  let vc := map (tern_clipped_q sigma) v in
  let s := qmax (map Qabs vc) in
  map2 (fun x ui => bsq1_q 0 s (Qabs x) ui * qsign x) vc u.

Lemma vc_lift sigma v : map (tern_clipped sigma) (map Some v) = map Some (map (tern_clipped_q sigma) v).
Proof. rewrite !map_map. apply map_ext. intros x. apply tern_clipped_lift. Qed.
Lemma abs_lift w : map NanQ.abs (map Some w) = map Some (map Qabs w).
Proof. rewrite !map_map. reflexivity. Qed.

Lemma tern_lift sigma v u : v <> [] -> tern sigma (lift v) u = lift (tern_q sigma v u).
Proof.
  intros Hv. unfold tern, tern_q, lift. rewrite vc_lift, abs_lift.
  change (map Some (map Qabs (map (tern_clipped_q sigma) v))) with (lift (map Qabs (map (tern_clipped_q sigma) v))).
  rewrite amax_lift by (destruct v; [congruence|discriminate]).
  change (map Some (map (tern_clipped_q sigma) v)) with (lift (map (tern_clipped_q sigma) v)).
  apply map2_lift. intros x w.
  cbn [NanQ.abs NanQ.lift1]. change NanQ.zero with (Some 0). rewrite bsq1_lift. reflexivity.
Qed.

(* outputs in {-s, 0, +s}; expectation == the clipped input *)
Theorem tern_coord_spec sigma v i : v <> [] -> (i < length v)%nat ->
  let vc := map (tern_clipped_q sigma) v in let s := qmax (map Qabs vc) in let xc := nth i vc 0 in
  0 <= s /\ Qabs xc <= s /\
  exists t, 0 <= t <= 1 /\ t * (s * qsign xc) == xc /\
    forall u, length u = length v ->
      exists out, tern sigma (lift v) u = lift out /\ length out = length v /\
        (t <= nth i u 0 -> nth i out 0 == 0) /\ (nth i u 0 < t -> nth i out 0 == s * qsign xc).
Proof.
  intros Hv Hi vc s xc.
  assert (Lvc : length vc = length v) by (unfold vc; apply map_length).
  assert (Hin : qmin (map Qabs vc) <= Qabs xc <= s).
  { replace (Qabs xc) with (nth i (map Qabs vc) 0).
    - apply nth_bounds. rewrite map_length. lia.
    - change 0 with (Qabs 0) at 1. apply map_nth. }
  assert (Hs0 : 0 <= s) by (pose proof (Qabs_nonneg xc); lra).
  split; [exact Hs0|]. split; [apply Hin|].
  destruct (bsq1_q_spec 0 s (Qabs xc) (conj (Qabs_nonneg xc) (proj2 Hin))) as (t & Ht & Hub & _ & _ & Hu).
  exists t. split; [exact Ht|]. split.
  { transitivity (Qabs xc * qsign xc); [|apply qsign_abs]. setoid_replace (t * (s * qsign xc)) with ((t * s) * qsign xc) by ring.
    assert (E : t * s == Qabs xc) by lra. rewrite E. reflexivity. }
  intros u Hlen. exists (tern_q sigma v u). split; [apply tern_lift, Hv|].
  assert (Lout : length (tern_q sigma v u) = length v) by (unfold tern_q; rewrite map2_length; fold vc; lia).
  split; [exact Lout|].
  assert (Hn : nth i (tern_q sigma v u) 0 = bsq1_q 0 s (Qabs xc) (nth i u 0) * qsign xc).
  { unfold tern_q. fold vc. fold s. apply (map2_nth (fun x ui => bsq1_q 0 s (Qabs x) ui * qsign x)); lia. }
  rewrite Hn. destruct (Hu (nth i u 0)) as [A B].
  split; intros H; [rewrite (A H)|rewrite (B H)]; ring.
Qed.

(* ---------- DRIVE ---------- *)
Definition qsumabs (x : list Q) : Q := fold_right Qplus 0 (map Qabs x).
Definition qsumsq (x : list Q) : Q := fold_right Qplus 0 (map (fun a => a * a) x).
Definition drive_q (x : list Q) : list Q :=
  let den := if Qltb 0 (qsumabs x) then qsumabs x else 1 in
  map (fun a => qsumsq x * qsign a / den) x.

Lemma drive_lift x : drive_leaf (lift x) = lift (drive_q x).
Proof.
  unfold drive_leaf, drive_q, lift. rewrite !map_map.
  cbn [NanQ.abs NanQ.lift1 NanQ.mul NanQ.lift2].
  rewrite <- (map_map Qabs Some), <- (map_map (fun a => a * a) Some), !NanQ.sum_Some.
  fold (qsumabs x). fold (qsumsq x).
  change NanQ.zero with (Some 0). change NanQ.one with (Some 1).
  cbn [NanQ.gtb NanQ.ltb NanQ.where_].
  assert (Hden : ~ (if Qltb 0 (qsumabs x) then qsumabs x else 1) == 0).
  { destruct (Qltb 0 (qsumabs x)) eqn:E; [apply Qltb_lt in E; lra|lra]. }
  destruct (Qltb 0 (qsumabs x)) eqn:E; cbn [NanQ.where_]; apply map_ext; intros a;
    cbn [nsign NanQ.lift1 NanQ.mul NanQ.lift2]; rewrite NanQ.div_Some; try reflexivity; exact Hden.
Qed.

Lemma qsumabs_zero x : Forall (fun a => a == 0) x -> qsumabs x == 0.
Proof. induction 1 as [|a x Ha _ IH]; [reflexivity|]. unfold qsumabs in *. cbn [map fold_right]. rewrite IH, Ha. reflexivity. Qed.

(* an all-zero leaf stays zero (the guard) *)
Lemma drive_zero_leaf x : Forall (fun a => a == 0) x -> Forall (fun y => y == 0) (drive_q x).
Proof.
  intros H. unfold drive_q. apply Forall_map. eapply Forall_impl; [|exact H]. cbn beta. intros a Ha.
  rewrite (proj1 (proj2 (qsign_spec a)) Ha). unfold Qdiv. ring.
Qed.
