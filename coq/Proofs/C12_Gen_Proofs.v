(* C12, tie T for the round code: the definitions translated on every run from fed_prox.py,
   fed_avg.py, apfl.py, mime.py, mime_lite.py and hyp_cluster.py (gen/Gen_*.v) compute the round
   skeletons of Model/C12_Model.v that the C12 theorems are about.  An edit of the anchored code
   changes (or refuses) the translation and this file stops compiling. *)
From Coq Require Import ZArith QArith List Bool Lia.
From FV Require Import Common.ListX Common.CMonoid Common.NanQ Common.QVec Common.WMean gen.Gen_tree_util
  Model.C01_Model Proofs.C01_Proofs Model.C12_Model Proofs.C12_Proofs Proofs.C01_Gen_Proofs.
From FV Require gen.Gen_fed_avg gen.Gen_fed_prox gen.Gen_apfl gen.Gen_mime gen.Gen_mime_lite gen.Gen_hyp_cluster.
Import ListNotations.
Local Open Scope Q_scope.

Definition reshape {OS} (r : list Q * OS * list (Z * Q)) : list Q * OS * list (Z * Q) := ((fst (fst r), snd (fst r)), snd r).

(* the shared tail of the FedAvg-like apply functions *)
Ltac fedavg_like_apply nums_lemma train_lemma :=
  unfold fedavg_apply, apply_from_outputs;
  rewrite nums_lemma, train_lemma;
  match goal with |- context [fold_left ?f (C01_Model.train_for_each_client _ _ _ _ ?cl) _] =>
    change f with (apply_step (client_num_examples cl)) end;
  match goal with |- context [fold_left ?f ?l ?a] => destruct (fold_left f l a) as [[? ?] ?] end;
  match goal with |- context [unlift ?t] => destruct (unlift t) end; [|reflexivity];
  cbn [fst snd];
  repeat match goal with |- context [match ?x with pair _ _ => _ end] => destruct x end; reflexivity.

Section GenRounds.
Context {K U B S OS : Type}.
Variable grad : list Q -> B -> U -> list Q.
Variable split : K -> K * U.
Variable split3 : K -> K * U * U.
Variable split_pair : K -> K * K.
Variable copt_init : list Q -> S.
Variable copt_apply : list Q -> S -> list Q -> S * list Q.
Variable sopt : list Q -> OS -> list Q -> OS * list Q.
Notation client := (@client K B).
Notation as_tuple := (@as_tuple K B).

(* ---------------- fed_prox.py ---------------- *)
Section Prox.
Variable mu : Q.
Notation pgrad := (prox_grad grad mu).
Notation p_init := (Gen_fed_prox.client_init copt_init).
Notation p_step := (Gen_fed_prox.client_step pgrad split copt_apply).
Notation p_params := (@Gen_fed_prox.f_params K S).

Lemma gen_prox_train p (clients : list client) :
  Gen_fed_prox.train_for_each_client pgrad split copt_init copt_apply p
    (map (fun c : Z * (Z * list B) * K => let '(cid, cds, crng) := c in (cid, snd cds, crng)) (map as_tuple clients)) =
  C01_Model.train_for_each_client p_init p_step p_params p clients.
Proof.
  unfold Gen_fed_prox.train_for_each_client, for_each_client, C01_Model.train_for_each_client. rewrite !map_map.
  apply map_ext. intros c. reflexivity.
Qed.

Lemma gen_prox_apply_is_fedavg_apply st (clients : list client) :
  Gen_fed_prox.apply pgrad split copt_init copt_apply sopt fst snd st (map as_tuple clients) =
  option_map reshape (fedavg_apply p_init p_step p_params sopt st clients).
Proof.
  unfold Gen_fed_prox.apply, Gen_fed_prox.server_update.
  fedavg_like_apply (@gen_client_num_examples K B clients) (gen_prox_train (fst st) clients).
Qed.

(* the translated client program is the skeleton's (the step state record has the same four fields) *)
Lemma gen_prox_program p (c : client) :
  run_client p_init p_step p_params p c =
  run_client (gd_init copt_init) (prox_step grad split copt_apply mu) t_params p c.
Proof.
  unfold run_client, C01_Model.client_final. f_equal.
  assert (G : forall bs (a : Gen_fed_prox.cstate (K := K) (S := S)) (b : tstate (S := S) (K := K)),
            Gen_fed_prox.f_params a = t_params b -> Gen_fed_prox.f_opt_state a = t_opt b ->
            Gen_fed_prox.f_rng a = t_rng b -> Gen_fed_prox.f_server_params a = t_server b ->
            Gen_fed_prox.f_params (fold_left p_step bs a) = t_params (fold_left (prox_step grad split copt_apply mu) bs b)).
  { induction bs as [|x bs IH]; intros a b E1 E2 E3 E4; cbn [fold_left]; [exact E1|].
    apply IH; unfold Gen_fed_prox.client_step, prox_step, gd_step; rewrite E1, E2, E3, E4;
      destruct (split (t_rng b)) as [rng u];
      destruct (copt_apply (prox_grad grad mu (t_params b) (t_server b) x u) (t_opt b) (t_params b)); reflexivity. }
  apply G; reflexivity.
Qed.

(* fed_prox.apply as translated = the FedProx skeleton *)
Lemma gen_fedprox_is_skeleton st (clients : list client) :
  Gen_fed_prox.apply pgrad split copt_init copt_apply sopt fst snd st (map as_tuple clients) =
  option_map reshape (fedprox grad split copt_init copt_apply sopt mu st clients).
Proof.
  rewrite gen_prox_apply_is_fedavg_apply. f_equal. unfold fedprox. apply apply_ext. intros c _. apply gen_prox_program.
Qed.
End Prox.

(* ---------------- fed_avg.py ---------------- *)
Lemma gen_avg_program p (c : client) :
  run_client (Gen_fed_avg.client_init copt_init) (Gen_fed_avg.client_step grad split copt_apply) (@Gen_fed_avg.f_params K S) p c =
  run_client (gd_init copt_init) (avg_step grad split copt_apply) t_params p c.
Proof.
  unfold run_client, C01_Model.client_final. f_equal.
  assert (G : forall bs (a : Gen_fed_avg.cstate (K := K) (S := S)) (b : tstate (S := S) (K := K)),
            Gen_fed_avg.f_params a = t_params b -> Gen_fed_avg.f_opt_state a = t_opt b -> Gen_fed_avg.f_rng a = t_rng b ->
            Gen_fed_avg.f_params (fold_left (Gen_fed_avg.client_step grad split copt_apply) bs a) =
            t_params (fold_left (avg_step grad split copt_apply) bs b)).
  { induction bs as [|x bs IH]; intros a b E1 E2 E3; cbn [fold_left]; [exact E1|].
    apply IH; unfold Gen_fed_avg.client_step, avg_step, gd_step; rewrite E1, E2, E3;
      destruct (split (t_rng b)) as [rng u];
      destruct (copt_apply (grad (t_params b) x u) (t_opt b) (t_params b)); reflexivity. }
  apply G; reflexivity.
Qed.

Lemma gen_fedavg_is_skeleton st (clients : list client) :
  Gen_fed_avg.apply grad split copt_init copt_apply sopt fst snd st (map as_tuple clients) =
  option_map reshape (fedavg grad split copt_init copt_apply sopt st clients).
Proof.
  rewrite gen_apply_is_fedavg_apply. f_equal. unfold fedavg. apply apply_ext. intros c _. apply gen_avg_program.
Qed.

(* ---------------- apfl.py, global part ---------------- *)
Notation a_init := (Gen_apfl.client_init copt_init).
Notation a_step := (Gen_apfl.client_step grad split3 copt_apply).
Notation a_params := (@Gen_apfl.a_cstate_server_params K S).

Lemma gen_apfl_train p (clients : list client) :
  Gen_apfl.train_for_each_client grad split3 copt_init copt_apply p
    (map (fun c : Z * (Z * list B) * K => let '(cid, cds, crng) := c in (cid, snd cds, crng)) (map as_tuple clients)) =
  C01_Model.train_for_each_client a_init a_step a_params p clients.
Proof.
  unfold Gen_apfl.train_for_each_client, for_each_client, C01_Model.train_for_each_client. rewrite !map_map.
  apply map_ext. intros c. reflexivity.
Qed.

Lemma gen_apfl_program p (c : client) :
  run_client a_init a_step a_params p c =
  run_client (gd_init copt_init) (apfl_step grad split3 copt_apply) t_params p c.
Proof.
  unfold run_client, C01_Model.client_final. f_equal.
  assert (G : forall bs (a : Gen_apfl.a_cstate (K := K) (S := S)) (b : tstate (S := S) (K := K)),
            a_params a = t_params b -> Gen_apfl.a_cstate_server_opt_state a = t_opt b -> Gen_apfl.a_cstate_rng a = t_rng b ->
            a_params (fold_left a_step bs a) = t_params (fold_left (apfl_step grad split3 copt_apply) bs b)).
  { induction bs as [|x bs IH]; intros a b E1 E2 E3; cbn [fold_left]; [exact E1|].
    apply IH; unfold Gen_apfl.client_step, apfl_step; rewrite E1, E2, E3;
      destruct (split3 (t_rng b)) as [[rng su] cu];
      destruct (copt_apply (grad (t_params b) x su) (t_opt b) (t_params b)); reflexivity. }
  apply G; reflexivity.
Qed.

Lemma gen_apfl_is_skeleton st (clients : list client) :
  Gen_apfl.apply grad split3 copt_init copt_apply sopt fst snd st (map as_tuple clients) =
  option_map reshape (apfl_global grad split3 copt_init copt_apply sopt st clients).
Proof.
  transitivity (option_map reshape (fedavg_apply a_init a_step a_params sopt st clients)).
  - unfold Gen_apfl.apply, Gen_apfl.server_update.
    fedavg_like_apply (@gen_client_num_examples K B clients) (gen_apfl_train (fst st) clients).
  - f_equal. unfold apfl_global. apply apply_ext. intros c _. apply gen_apfl_program.
Qed.
End GenRounds.

(* ---------------- mime.py / mime_lite.py ---------------- *)
Section GenMime.
Context {K U B S : Type}.
Variable grad : list Q -> B -> U -> list Q.
Variable split : K -> K * U.
Variable copt_apply : list Q -> S -> list Q -> S * list Q.
Variable slr : Q.
Notation mclient := (@mclient K B).

(* a Mime client as the code's (client_id, dataset, rng): the dataset is (length, shuffle_repeat_batch
   batches, padded_batch batches), a padded batch being (its real rows, their number) *)
Definition MDS : Type := (Z * list B * list (B * Z))%type.
Definition as_mtuple (mc : mclient) : Z * MDS * K :=
  (c_id (fst mc), (c_n (fst mc), c_batches (fst mc), snd mc), c_key (fst mc)).
Definition m_len (d : MDS) : Z := fst (fst d).
Definition m_srb (d : MDS) : list B := snd (fst d).
Definition m_padded (d : MDS) : list (B * Z) := snd d.
Definition grad_padded (p : list Q) (pb : B * Z) (u : U) : list Q := grad p (fst pb) u.

Notation g_step := (Gen_mime.g_client_step grad_padded (@snd B Z) split).

(* the full-gradient pass of one client *)
Lemma gen_client_grads p (mc : mclient) :
  Gen_mime.g_client_final p (fold_left g_step (snd mc) (Gen_mime.g_client_init p (c_key (fst mc)))) =
  client_grads grad split p mc.
Proof.
  unfold client_grads, Gen_mime.g_client_init.
  assert (G : forall bns k a n,
            Gen_mime.g_client_final p (fold_left g_step bns (Gen_mime.mk_g_cstate p k n a)) =
            (let '(_, gs, ns) := fold_left (grads_step grad split p) bns (k, a, n) in (gs, ns))).
  { induction bns as [|bn bns IH]; intros k a n; cbn [fold_left]; [reflexivity|].
    unfold Gen_mime.g_client_step at 2. unfold grads_step at 2. cbn [Gen_mime.g_cstate_rng Gen_mime.g_cstate_params
      Gen_mime.g_cstate_num_sum Gen_mime.g_cstate_grads_sum]. unfold grad_padded.
    destruct (split k) as [rng u]. apply IH. }
  apply G.
Qed.

Lemma gen_grads_for_each_client p (clients : list mclient) :
  map snd (Gen_mime.grads_for_each_client grad_padded (@snd B Z) split p
             (map (fun x : Z * MDS * K => let '(cid, cds, crng) := x in (cid, m_padded cds, crng)) (map as_mtuple clients))) =
  map (client_grads grad split p) clients.
Proof.
  unfold Gen_mime.grads_for_each_client, Gen_mime.g_grads_for_each_client, for_each_client. rewrite !map_map.
  apply map_ext. intros mc. cbn [snd as_mtuple m_padded fst]. apply gen_client_grads.
Qed.

Lemma gen_server_grads p (clients : list mclient) :
  match tree_sum_pairs (map (client_grads grad split p) clients) with
  | None => tree_zeros_like (vlift p)
  | Some gn => let '(gs, ns) := gn in tree_inverse_weight gs ns
  end = server_grads grad split p clients.
Proof. unfold server_grads, tree_sum_pairs. destruct (map (client_grads grad split p) clients); reflexivity. Qed.

(* local training of one client *)
Lemma gen_mime_train_client p s cv (c : client (K := K) (B := B)) :
  Gen_mime.t_client_final (Gen_mime.mk_t_shared p s cv)
    (fold_left (Gen_mime.t_client_step grad split copt_apply) (c_batches c)
       (Gen_mime.t_client_init (Gen_mime.mk_t_shared p s cv) (c_key c))) =
  vsub p (m_params (fold_left (mime_step grad split copt_apply) (c_batches c) (mkM p s (c_key c) p cv))).
Proof.
  unfold Gen_mime.t_client_final, Gen_mime.t_client_init. cbn [Gen_mime.t_shared_params Gen_mime.t_shared_opt_state
    Gen_mime.t_shared_control_variate]. f_equal.
  assert (G : forall bs (a : Gen_mime.t_cstate (K := K) (S := S)) (b : mstate (S := S) (K := K)),
            Gen_mime.t_cstate_params a = m_params b -> Gen_mime.t_cstate_opt_state a = m_opt b ->
            Gen_mime.t_cstate_rng a = m_rng b -> Gen_mime.t_cstate_init_params a = m_init b ->
            Gen_mime.t_cstate_control_variate a = m_cv b ->
            Gen_mime.t_cstate_params (fold_left (Gen_mime.t_client_step grad split copt_apply) bs a) =
            m_params (fold_left (mime_step grad split copt_apply) bs b)).
  { induction bs as [|x bs IH]; intros a b E1 E2 E3 E4 E5; cbn [fold_left]; [exact E1|].
    apply IH; unfold Gen_mime.t_client_step, mime_step; rewrite E1, E2, E3, E4, E5;
      destruct (split (m_rng b)) as [rng u];
      destruct (copt_apply (vadd (vsub (grad (m_params b) x u) (grad (m_init b) x u)) (m_cv b)) (m_opt b) (m_params b));
      reflexivity. }
  apply G; reflexivity.
Qed.

Lemma gen_mime_nums (clients : list mclient) :
  dict_of (map (fun x : Z * MDS * K => let '(cid, cds, _) := x in (cid, m_len cds)) (map as_mtuple clients)) =
  client_num_examples (map fst clients).
Proof. unfold client_num_examples. rewrite !map_map. reflexivity. Qed.

(* mime.apply as translated = the Mime skeleton (the skeleton does not keep the diagnostics) *)
Lemma gen_mime_is_skeleton st (clients : list mclient) :
  option_map fst (Gen_mime.apply grad grad_padded (@snd B Z) split copt_apply slr m_len m_srb m_padded st (map as_mtuple clients)) =
  mime grad split copt_apply slr st clients.
Proof.
  destruct st as [p s]. unfold Gen_mime.apply, mime, mime_round. cbn [fst snd].
  rewrite gen_grads_for_each_client, gen_server_grads, gen_mime_nums.
  destruct (unlift (server_grads grad split p clients)) as [c|] eqn:Ec; [|reflexivity].
  assert (Eo : Gen_mime.train_for_each_client grad split copt_apply (Gen_mime.mk_t_shared p s c)
                 (map (fun x : Z * MDS * K => let '(cid, cds, crng) := x in (cid, m_srb cds, crng)) (map as_mtuple clients)) =
               map (fun mc : mclient => (c_id (fst mc),
                      vsub p (m_params (fold_left (mime_step grad split copt_apply) (c_batches (fst mc)) (mkM p s (c_key (fst mc)) p c)))))
                   clients).
  { unfold Gen_mime.train_for_each_client, Gen_mime.t_train_for_each_client, for_each_client. rewrite !map_map.
    apply map_ext. intros mc. cbn [as_mtuple m_srb fst snd]. rewrite gen_mime_train_client. reflexivity. }
  rewrite Eo.
  match goal with |- context [fold_left ?f (map _ clients) (tree_zeros_like _, _, @nil (Z * Q))] =>
    change f with (apply_step (client_num_examples (map fst clients))) end.
  match goal with |- context [fold_left ?f ?l ?a] => set (F := fold_left f l a) end.
  match goal with |- context [fold_left ?f ?l ?a] => change (fold_left f l a) with F end.
  destruct F as [[dsum nsum] dg].
  unfold Gen_mime.server_update. cbn [fst snd].
  destruct (unlift (tree_inverse_weight dsum nsum)) as [m|]; [|reflexivity].
  rewrite Ec. destruct (copt_apply c s p). reflexivity.
Qed.

(* ---- mime_lite.py (its full-gradient pass is mime.create_grads_for_each_client, translated in Gen_mime) ---- *)
Lemma gen_mimelite_train_client p s (c : client (K := K) (B := B)) :
  Gen_mime_lite.t_client_final (Gen_mime_lite.mk_t_shared p s)
    (fold_left (Gen_mime_lite.t_client_step grad split copt_apply) (c_batches c)
       (Gen_mime_lite.t_client_init (Gen_mime_lite.mk_t_shared p s) (c_key c))) =
  vsub p (m_params (fold_left (mimelite_step grad split copt_apply) (c_batches c) (mkM p s (c_key c) p []))).
Proof.
  unfold Gen_mime_lite.t_client_final, Gen_mime_lite.t_client_init.
  cbn [Gen_mime_lite.t_shared_params Gen_mime_lite.t_shared_opt_state]. f_equal.
  assert (G : forall bs (a : Gen_mime_lite.t_cstate (K := K) (S := S)) (b : mstate (S := S) (K := K)),
            Gen_mime_lite.t_cstate_params a = m_params b -> Gen_mime_lite.t_cstate_opt_state a = m_opt b ->
            Gen_mime_lite.t_cstate_rng a = m_rng b ->
            Gen_mime_lite.t_cstate_params (fold_left (Gen_mime_lite.t_client_step grad split copt_apply) bs a) =
            m_params (fold_left (mimelite_step grad split copt_apply) bs b)).
  { induction bs as [|x bs IH]; intros a b E1 E2 E3; cbn [fold_left]; [exact E1|].
    apply IH; unfold Gen_mime_lite.t_client_step, mimelite_step; rewrite E1, E2, E3;
      destruct (split (m_rng b)) as [rng u];
      destruct (copt_apply (grad (m_params b) x u) (m_opt b) (m_params b)); reflexivity. }
  apply G; reflexivity.
Qed.

(* mime_lite's loop updates the diagnostics first: the same accumulation with the state reordered *)
Lemma mimelite_fold nums (outputs : list (Z * list Q)) : forall dg a n,
  fold_left (fun (st : list (Z * Q) * list NanQ.t * NanQ.t) (el : Z * list Q) =>
      let '(client_diagnostics, delta_params_sum, num_examples_sum) := st in
      let '(client_id, delta_params) := el in
      let num_examples := num_of nums client_id in
      let client_diagnostics0 := dict_set client_diagnostics client_id (sumsq delta_params) in
      let delta_params_sum0 := tree_add delta_params_sum (tree_weight (vlift delta_params) (NanQ.of_Z num_examples)) in
      let num_examples_sum0 := NanQ.add num_examples_sum (NanQ.of_Z num_examples) in
      (client_diagnostics0, delta_params_sum0, num_examples_sum0)) outputs (dg, a, n) =
  (snd (fold_left (apply_step nums) outputs (a, n, dg)), fst (fst (fold_left (apply_step nums) outputs (a, n, dg))),
   snd (fst (fold_left (apply_step nums) outputs (a, n, dg)))).
Proof.
  induction outputs as [|[id d] outputs IH]; intros dg a n; [reflexivity|]. cbn [fold_left]. rewrite IH. reflexivity.
Qed.

Lemma gen_mimelite_is_skeleton st (clients : list mclient) :
  option_map fst (Gen_mime_lite.apply grad split copt_apply slr m_len m_srb m_padded
                    (Gen_mime.grads_for_each_client grad_padded (@snd B Z) split) st (map as_mtuple clients)) =
  mimelite grad split copt_apply slr st clients.
Proof.
  destruct st as [p s]. unfold Gen_mime_lite.apply, mimelite, mime_round. cbn [fst snd].
  rewrite gen_grads_for_each_client, gen_server_grads, gen_mime_nums.
  assert (Eo : Gen_mime_lite.train_for_each_client grad split copt_apply (Gen_mime_lite.mk_t_shared p s)
                 (map (fun x : Z * MDS * K => let '(cid, cds, crng) := x in (cid, m_srb cds, crng)) (map as_mtuple clients)) =
               map (fun mc : mclient => (c_id (fst mc),
                      vsub p (m_params (fold_left (mimelite_step grad split copt_apply) (c_batches (fst mc)) (mkM p s (c_key (fst mc)) p [])))))
                   clients).
  { unfold Gen_mime_lite.train_for_each_client, Gen_mime_lite.t_train_for_each_client, for_each_client. rewrite !map_map.
    apply map_ext. intros mc. cbn [as_mtuple m_srb fst snd]. rewrite gen_mimelite_train_client. reflexivity. }
  rewrite Eo.
  match goal with |- context [fold_left ?f (map ?g clients) (@nil (Z * Q), ?a, ?n)] =>
    change (fold_left f (map g clients) (@nil (Z * Q), a, n)) with
      (fold_left (fun (st : list (Z * Q) * list NanQ.t * NanQ.t) (el : Z * list Q) =>
         let '(client_diagnostics, delta_params_sum, num_examples_sum) := st in
         let '(client_id, delta_params) := el in
         let num_examples := num_of (client_num_examples (map fst clients)) client_id in
         let client_diagnostics0 := dict_set client_diagnostics client_id (sumsq delta_params) in
         let delta_params_sum0 := tree_add delta_params_sum (tree_weight (vlift delta_params) (NanQ.of_Z num_examples)) in
         let num_examples_sum0 := NanQ.add num_examples_sum (NanQ.of_Z num_examples) in
         (client_diagnostics0, delta_params_sum0, num_examples_sum0)) (map g clients) (@nil (Z * Q), a, n));
    rewrite (mimelite_fold (client_num_examples (map fst clients)) (map g clients) [] a n)
  end.
  match goal with |- context [fold_left ?f ?l ?a] => set (F := fold_left f l a) end.
  repeat match goal with |- context [fold_left ?f ?l ?a] => change (fold_left f l a) with F end.
  destruct F as [[dsum nsum] dg]. cbn [fst snd].
  unfold Gen_mime_lite.server_update. cbn [fst snd].
  destruct (unlift (server_grads grad split p clients)) as [c|];
    destruct (unlift (tree_inverse_weight dsum nsum)) as [m|]; try reflexivity.
  destruct (copt_apply c s p). reflexivity.
Qed.
End GenMime.

(* ---------------- hyp_cluster.py, one cluster ---------------- *)
Section GenHyp.
Context {K U B S OS : Type}.
Variable grad : list Q -> B -> U -> list Q.
Variable split : K -> K * U.
Variable split_pair : K -> K * K.
Variable copt_init : list Q -> S.
Variable copt_apply : list Q -> S -> list Q -> S * list Q.
Variable sopt : list Q -> OS -> list Q -> OS * list Q.
Notation client := (@client K B).
Notation as_tuple := (@as_tuple K B).
Notation h_step := (Gen_hyp_cluster.hc_client_step grad split copt_apply).

(* ClientDeltaTrainer on one client = the FedAvg client program started from its cluster's params *)
Lemma gen_hc_train_client p rng (bs : list B) id n :
  Gen_hyp_cluster.hc_client_final tt (fold_left h_step bs (Gen_hyp_cluster.hc_client_init copt_init tt (rng, p))) =
  run_client (gd_init copt_init) (avg_step grad split copt_apply) t_params p (mkClient id n rng bs).
Proof.
  unfold run_client, C01_Model.client_final, Gen_hyp_cluster.hc_client_init. cbn [c_batches c_key].
  assert (G : forall bs (k : K) (q : list Q) (o : S) (b : tstate (S := S) (K := K)),
            q = t_params b -> o = t_opt b -> k = t_rng b ->
            Gen_hyp_cluster.hc_client_final tt (fold_left h_step bs (k, q, o, p)) =
            vsub p (t_params (fold_left (avg_step grad split copt_apply) bs b))).
  { induction bs0 as [|x bs0 IH]; intros k q o b E1 E2 E3; cbn [fold_left]; [subst; reflexivity|].
    unfold Gen_hyp_cluster.hc_client_step at 2. unfold avg_step at 2, gd_step. rewrite E1, E2, E3.
    destruct (split (t_rng b)) as [rng' u]. destruct (copt_apply (grad (t_params b) x u) (t_opt b) (t_params b)) as [o' q'].
    apply IH; reflexivity. }
  apply G; reflexivity.
Qed.

Lemma map_combine_self {A C D} (g : A -> C) (f : A * C -> D) (l : list A) :
  map f (combine l (map g l)) = map (fun x => f (x, g x)) l.
Proof. induction l as [|x l IH]; cbn; [reflexivity|]. rewrite IH. reflexivity. Qed.

Definition hc_reshape (l : list (list Q * OS)) : list (list Q) * list OS * unit := ((map fst l, map snd l), tt).

(* hyp_cluster.apply as translated, with a single cluster, = the HypCluster skeleton *)
Lemma gen_hypcluster_is_skeleton p os (clients : list client) :
  Gen_hyp_cluster.apply grad split split_pair copt_init copt_apply sopt fst snd (fun _ _ _ => O) ([p], [os]) (map as_tuple clients) =
  option_map hc_reshape (hypcluster grad split split_pair copt_init copt_apply sopt (fun _ => O) [(p, os)] clients).
Proof.
  unfold Gen_hyp_cluster.apply, hypcluster. cbn [fst snd map].
  (* the expectation step *)
  assert (E : Gen_hyp_cluster.expectation_step grad split copt_init copt_apply fst snd [p] (fun _ => O)
                (map (fun xr : Z * (Z * list B) * K * (K * K) => let '(client_id, dataset, _, rng) := xr in (client_id, dataset, snd rng))
                   (combine (map as_tuple clients)
                      (map (fun x : Z * (Z * list B) * K => let '(_, _, rng) := x in split_pair rng) (map as_tuple clients)))) =
              hc_expectation grad split split_pair copt_init copt_apply [p] (fun _ => O) clients).
  { unfold Gen_hyp_cluster.expectation_step, hc_expectation.
    rewrite (map_combine_self (fun x : Z * (Z * list B) * K => let '(_, _, rng) := x in split_pair rng)), !map_map.
    cbn [map].
    assert (En : dict_of (map (fun x : client => (c_id x, c_n x)) clients) = client_num_examples clients) by reflexivity.
    assert (Eo : Gen_hyp_cluster.train_per_client_params grad split copt_init copt_apply
                   (map (fun x : client => (c_id x, c_batches x, snd (split_pair (c_key x)), p)) clients) =
                 map (fun c : client => (c_id c, hc_train grad split split_pair copt_init copt_apply [p] (fun _ => O) c)) clients).
    { unfold Gen_hyp_cluster.train_per_client_params, for_each_client. rewrite !map_map. apply map_ext. intros c.
      unfold hc_train. cbn [nth]. rewrite (gen_hc_train_client p _ _ (c_id c) (c_n c)). reflexivity. }
    cbn [as_tuple fst snd nth]. rewrite En, Eo.
    set (outs := map (fun c : client => (c_id c, hc_train grad split split_pair copt_init copt_apply [p] (fun _ => O) c)) clients).
    assert (Ef : forall a k,
      fold_left (fun (st : list (list NanQ.t) * list Z) (el : Z * list Q) =>
          let '(cluster_delta_params_sum, cluster_num_examples_sum) := st in
          let '(client_id, delta_params) := el in
          (list_set cluster_delta_params_sum O
             (tree_add (nth O cluster_delta_params_sum [])
                (tree_weight (vlift delta_params) (NanQ.of_Z (num_of (client_num_examples clients) client_id)))),
           list_set cluster_num_examples_sum O (nth O cluster_num_examples_sum 0 + num_of (client_num_examples clients) client_id)%Z))
        outs ([a], [k]) =
      fold_left (hc_step (client_num_examples clients) (fun _ => O)) outs ([a], [k])).
    { induction outs as [|[id d] outs IH]; intros a k; [reflexivity|]. cbn [fold_left]. cbn [list_set nth]. rewrite IH. reflexivity. }
    match goal with |- context [fold_left ?f outs ?a] =>
      change (fold_left f outs a) with
        (fold_left (fun (st : list (list NanQ.t) * list Z) (el : Z * list Q) =>
          let '(cluster_delta_params_sum, cluster_num_examples_sum) := st in
          let '(client_id, delta_params) := el in
          (list_set cluster_delta_params_sum O
             (tree_add (nth O cluster_delta_params_sum [])
                (tree_weight (vlift delta_params) (NanQ.of_Z (num_of (client_num_examples clients) client_id)))),
           list_set cluster_num_examples_sum O (nth O cluster_num_examples_sum 0 + num_of (client_num_examples clients) client_id)%Z))
        outs ([tree_zeros_like (vlift p)], [0%Z])) end.
    rewrite Ef, tree_zeros_like_lift, hc_fold_single. cbn [combine fold_left map fst snd app].
    unfold hc_cluster_delta. destruct (0 <? _)%Z; reflexivity. }
  rewrite E.
  destruct (hc_expectation grad split split_pair copt_init copt_apply [p] (fun _ => O) clients) as [|d [|d' ds]] eqn:Ed.
  - reflexivity.
  - unfold hc_update. cbn [combine fold_left map fst snd sequence option_map]. destruct d as [d|]; cbn [fst snd sequence option_map map].
    + destruct (unlift d) as [g|]; [|reflexivity]. destruct (sopt g os p) as [os' p']. reflexivity.
    + reflexivity.
  - exfalso. unfold hc_expectation in Ed. cbn [map] in Ed.
    rewrite tree_zeros_like_lift, hc_fold_single in Ed. cbn in Ed. discriminate.
Qed.
End GenHyp.

(* ---------------- constructors: init, wiring, the FedProx objective ---------------- *)
Lemma gen_inits {S OS : Type} (sinit : list Q -> OS) (binit : list Q -> S) p :
  Gen_fed_prox.init sinit p = (p, sinit p) /\ Gen_apfl.init sinit p = (p, sinit p) /\
  Gen_mime.init binit p = (p, binit p) /\ Gen_mime_lite.init binit p = (p, binit p).
Proof. repeat split; reflexivity. Qed.

Lemma gen_wiring :
  Gen_fed_prox.fed_prox_wiring = true /\ Gen_apfl.apfl_wiring = true /\ Gen_hyp_cluster.hyp_cluster_wiring = true /\
  Gen_mime.mime_one_grad_fn_for_both_passes = true /\ Gen_mime_lite.mimelite_one_grad_fn_for_both_passes = true.
Proof. repeat split; reflexivity. Qed.

(* The proximal penalty as translated from fed_prox_loss, 0.5 * mu * |server_params - params|^2, has the exact
   second-order expansion  penalty(p + h) = penalty(p) + < mu (p - s), h > + 0.5 mu |h|^2 : its gradient in p is
   mu (p - s), the term `prox_grad` adds to the example gradient (what jax.grad computes is trusted). *)
Lemma vdot_vscale c x h : vdot (vscale c x) h == c * vdot x h.
Proof.
  revert h; induction x as [|a x IH]; intros [|b h]; unfold vdot in *; cbn; try ring. rewrite IH. ring.
Qed.

Lemma sumsq_shift p : forall s h, length s = length p -> length h = length p ->
  sumsq (vsub s (vadd p h)) == sumsq (vsub s p) + 2 * vdot (vsub p s) h + sumsq h.
Proof.
  induction p as [|a p IH]; intros [|b s] [|c h] Ls Lh; cbn in *; try discriminate; unfold sumsq, vdot in *; cbn; [ring|].
  rewrite (IH s h) by lia. ring.
Qed.

Lemma prox_penalty_expansion mu p s h : length s = length p -> length h = length p ->
  Gen_fed_prox.proximal_penalty mu (vadd p h) s ==
  Gen_fed_prox.proximal_penalty mu p s + vdot (vscale mu (vsub p s)) h + (1 # 2) * mu * sumsq h.
Proof.
  intros Ls Lh. unfold Gen_fed_prox.proximal_penalty. rewrite (sumsq_shift p s h Ls Lh), vdot_vscale. ring.
Qed.

Lemma gen_process_independent :
  Gen_fed_prox.process_independent = true /\ Gen_apfl.process_independent = true /\ Gen_mime.process_independent = true /\
  Gen_mime_lite.process_independent = true /\ Gen_hyp_cluster.process_independent = true.
Proof. repeat split; reflexivity. Qed.
