From Coq Require Import ZArith List Bool Lia.
From FV Require Import Common.ListX Common.PySem Common.Batch Common.Chunk gen.Gen_client_datasets Model.C03_Model.
Import ListNotations.
Local Open Scope Z_scope.

(* ------------------------------------------------------------------ *)
(* _pick_final_batch_size                                               *)

Lemma div_div_pow2 a k : 0 <= k -> a / 2 ^ k / 2 = a / 2 ^ (k + 1).
Proof.
  intros Hk. rewrite Z.pow_add_r by lia. rewrite Z.pow_1_r.
  rewrite Z.div_div; [reflexivity| |lia]. apply Z.pow_nonzero; lia.
Qed.

Lemma pick_loop_spec : forall fuel N bs nb rem high low n,
  1 <= rem -> 1 <= n -> rem <= high -> low = high / 2 -> low < Z.of_nat fuel ->
  exists r k, pick_final_batch_size_loop1 fuel N bs nb rem high low n = Some r /\
    0 <= k /\ r = high / 2 ^ k /\ rem <= r /\
    (k = 0 \/ n + k <= nb) /\ (nb <= n + k \/ r / 2 < rem).
Proof.
  induction fuel as [|f IH]; intros N bs nb rem high low n Hrem Hn Hhigh Hlow Hfuel.
  - exfalso. assert (0 <= high / 2) by (apply Z.div_pos; lia). lia.
  - cbn [pick_final_batch_size_loop1].
    destruct (low >=? rem) eqn:E1; cbn [andb].
    + destruct (n <? nb) eqn:E2.
      * apply Z.geb_le in E1. apply Z.ltb_lt in E2.
        destruct (IH N bs nb rem low (low / 2) (n + 1)) as (r & k & Hr & Hk & Hrk & Hrr & Hub & Hmin);
          try lia.
        { assert (low / 2 < low) by (apply Z.div_lt; lia). lia. }
        exists r, (k + 1). split; [exact Hr|]. split; [lia|]. split.
        { subst low. rewrite Hrk. rewrite Z.div_div; [|lia|apply Z.pow_pos_nonneg; lia].
          rewrite Z.pow_add_r, Z.pow_1_r by lia. f_equal. lia. }
        split; [exact Hrr|]. split; [right; lia|]. destruct Hmin; [left; lia|right; assumption].
      * apply Z.ltb_ge in E2. exists high, 0. split; [reflexivity|]. split; [lia|].
        split; [now rewrite Z.pow_0_r, Z.div_1_r|]. split; [lia|]. split; [left; reflexivity|left; lia].
    + exists high, 0. split; [reflexivity|]. split; [lia|].
      split; [now rewrite Z.pow_0_r, Z.div_1_r|]. split; [lia|]. split; [left; reflexivity|].
      right. subst low. rewrite Z.geb_leb in E1. apply Z.leb_gt in E1. lia.
Qed.

(* The documented rule: bs halved k times, 0 <= k < max 1 buckets, holds the
   remainder, and is minimal (all halvings used up, or one more would be too small). *)
Definition pick_ok (N bs nb r : Z) : Prop :=
  if N mod bs =? 0 then r = bs
  else exists k, 0 <= k /\ (k = 0 \/ k < nb) /\ r = bs / 2 ^ k /\ N mod bs <= r /\
                 (nb <= k + 1 \/ bs / 2 ^ (k + 1) < N mod bs).

Lemma pick_total N bs nb : 0 <= N -> 1 <= bs -> exists r, pick N bs nb = Some r /\ pick_ok N bs nb r.
Proof.
  intros HN Hbs. unfold pick, pick_final_batch_size, pick_ok.
  destruct (N mod bs =? 0) eqn:E; [eexists; split; reflexivity|].
  apply Z.eqb_neq in E.
  assert (Hm : 0 <= N mod bs < bs) by (apply Z.mod_pos_bound; lia).
  destruct (pick_loop_spec (Z.to_nat bs + 1) N bs nb (N mod bs) bs (bs / 2) 1)
    as (r & k & Hr & Hk & Hrk & Hrr & Hub & Hmin); try lia.
  { assert (bs / 2 < bs) by (apply Z.div_lt; lia). lia. }
  exists r. split; [exact Hr|]. exists k. split; [exact Hk|]. split; [lia|].
  split; [exact Hrk|]. split; [exact Hrr|].
  destruct Hmin as [H|H]; [left; lia|right]. rewrite <- div_div_pow2 by lia. now rewrite <- Hrk.
Qed.

Lemma pick_ge_rem N bs nb r : 0 <= N -> 1 <= bs -> pick N bs nb = Some r -> N mod bs <= r <= bs.
Proof.
  intros HN Hbs Hp. destruct (pick_total N bs nb HN Hbs) as (r' & Hr' & Hok).
  rewrite Hp in Hr'. injection Hr' as <-. unfold pick_ok in Hok.
  assert (Hm : 0 <= N mod bs < bs) by (apply Z.mod_pos_bound; lia).
  destruct (N mod bs =? 0) eqn:E; [lia|].
  destruct Hok as (k & Hk & _ & -> & Hge & _). split; [exact Hge|].
  assert (H2k : 0 < 2 ^ k) by (apply Z.pow_pos_nonneg; lia).
  apply Z.div_le_upper_bound; [exact H2k|]. nia.
Qed.

(* ------------------------------------------------------------------ *)
(* BatchView / PaddedBatchView                                          *)

Section Views.
Context {A : Type} (zero : A).

Definition fullb (bs : nat) (c : list A) : bool := (length c =? bs)%nat.

Definition batch_spec (pre : list A -> list A) (bs : nat) (drop : bool) (raw : list A) : list (list A) :=
  map pre (if drop then filter (fullb bs) (chunks bs raw) else chunks bs raw).

Lemma gen_batch_view_spec pre raw bs drop : 1 <= bs ->
  batch_view pre raw bs drop = batch_spec pre (Z.to_nat bs) drop raw.
Proof.
  intros Hbs. unfold batch_view, batch_view_iter, batch_spec. cbv zeta.
  destruct drop; cbn [negb orb].
  - rewrite (flat_map_filter (fun s => s + bs <=? Z.of_nat (length raw))
                             (fun s => pre (py_slice raw s (s + bs)))).
    rewrite <- (slices_are_chunks0 raw bs Hbs). rewrite filter_map_comm, map_map.
    f_equal. apply filter_ext_in'. intros s Hs. apply py_range_In in Hs; [|exact Hbs].
    unfold fullb. apply slice_full_iff; lia.
  - rewrite (flat_map_singleton (fun s => pre (py_slice raw s (s + bs)))).
    rewrite <- (slices_are_chunks0 raw bs Hbs), map_map. reflexivity.
Qed.

Definition padded_spec (pre : list A -> list A) (bs : nat) (final : Z) (raw : list A) : list (batch A) :=
  map (fun c => if fullb bs c then attach_mask (pre c) (repeat true bs)
                else pad_examples zero (pre c) final) (chunks bs raw).

Lemma gen_padded_view_spec pre raw bs final : 1 <= bs ->
  padded_batch_view_iter zero pre raw (Z.of_nat (length raw)) bs final
  = padded_spec pre (Z.to_nat bs) final raw.
Proof.
  intros Hbs. unfold padded_batch_view_iter, padded_spec. cbv zeta.
  rewrite <- (slices_are_chunks0 raw bs Hbs), map_map.
  rewrite <- flat_map_singleton. apply flat_map_ext_in'.
  intros s Hs. apply py_range_In in Hs; [|exact Hbs].
  rewrite (slice_full_iff raw bs s Hbs) by lia. unfold fullb.
  destruct (length (py_slice raw s (s + bs)) =? Z.to_nat bs)%nat; reflexivity.
Qed.

(* filter of the full chunks only ever removes one trailing short chunk *)
Lemma chunks_f_filter_full : forall fuel bs (l : list A), (1 <= bs)%nat ->
  exists tail, chunks_f fuel bs l = filter (fullb bs) (chunks_f fuel bs l) ++ tail /\
    (tail = [] \/ exists c, tail = [c] /\ (1 <= length c < bs)%nat).
Proof.
  induction fuel as [|f IH]; intros bs l Hbs; cbn [chunks_f].
  - exists []. split; [reflexivity|left; reflexivity].
  - destruct l as [|x l']; [exists []; split; [reflexivity|left; reflexivity]|].
    cbn [filter]. unfold fullb at 1. destruct (length (firstn bs (x :: l')) =? bs)%nat eqn:E.
    + destruct (IH bs (skipn bs (x :: l')) Hbs) as (tail & Ht & Hc).
      exists tail. split; [|exact Hc]. cbn [app]. f_equal. exact Ht.
    + apply Nat.eqb_neq in E. rewrite firstn_length in E.
      assert (Hs : skipn bs (x :: l') = []) by (apply skipn_all2; lia).
      rewrite Hs. assert (Hn : chunks_f f bs (@nil A) = []) by (destruct f; reflexivity).
      rewrite Hn. cbn [filter app]. exists [firstn bs (x :: l')]. split; [reflexivity|].
      right. eexists; split; [reflexivity|]. rewrite firstn_length. cbn [length] in *. lia.
Qed.


(* ---- property-level statements ---- *)
Variable f : A -> A.   (* a per-example preprocessor; chains: see chain_is_map *)

Lemma plain_partition raw bs : 1 <= bs -> concat (batch_view (map f) raw bs false) = map f raw.
Proof.
  intros Hbs. rewrite gen_batch_view_spec by exact Hbs. unfold batch_spec.
  rewrite <- concat_map. f_equal. apply chunks_concat. lia.
Qed.

Lemma plain_sizes raw bs : 1 <= bs ->
  let bl := batch_view (map f) raw bs false in
  Forall (fun c => (1 <= length c <= Z.to_nat bs)%nat) bl /\
  (forall pre c post, bl = pre ++ c :: post -> post <> [] -> length c = Z.to_nat bs).
Proof.
  intros Hbs bl. subst bl. rewrite gen_batch_view_spec by exact Hbs. unfold batch_spec. split.
  - apply Forall_map. eapply Forall_impl; [|apply chunks_f_sizes; lia].
    cbn. intros c Hc. now rewrite map_length.
  - intros pre c post E Hpost.
    apply map_eq_app in E. destruct E as (l1 & l2 & E & <- & E2).
    destruct l2 as [|c0 l2']; [discriminate|]. cbn [map] in E2. injection E2 as <- <-.
    rewrite map_length. eapply chunks_f_full_but_last; [|exact E|]; [lia|].
    destruct l2'; [contradiction Hpost; reflexivity|discriminate].
Qed.

Lemma drop_remainder_only_last raw bs : 1 <= bs ->
  exists tail, batch_view (map f) raw bs false = batch_view (map f) raw bs true ++ tail /\
    (tail = [] \/ exists c, tail = [c] /\ (1 <= length c < Z.to_nat bs)%nat) /\
    Forall (fun c => length c = Z.to_nat bs) (batch_view (map f) raw bs true).
Proof.
  intros Hbs. rewrite !gen_batch_view_spec by exact Hbs. unfold batch_spec.
  destruct (chunks_f_filter_full (length raw) (Z.to_nat bs) raw) as (tail & Ht & Hc); [lia|].
  exists (map (map f) tail). split; [|split].
  - rewrite <- map_app. f_equal. exact Ht.
  - destruct Hc as [->|(c & -> & Hlen)]; [left; reflexivity|right].
    exists (map f c). split; [reflexivity|now rewrite map_length].
  - apply Forall_map. apply Forall_forall. intros c Hin. apply filter_In in Hin.
    destruct Hin as [_ Hfull]. unfold fullb in Hfull. apply Nat.eqb_eq in Hfull. now rewrite map_length.
Qed.

Lemma preprocess_commutes (pre : list A -> list A) (raw : list A) bs drop : 1 <= bs ->
  batch_view pre raw bs drop = map pre (batch_view (fun x => x) raw bs drop).
Proof.
  intros Hbs. rewrite !gen_batch_view_spec by exact Hbs. unfold batch_spec. now rewrite map_id.
Qed.

(* a padded batch is well-formed: mask true on a prefix of k real rows, the
   remaining size - k rows are the zero row *)
Definition wf_padded (size : nat) (b : batch A) : Prop :=
  exists k, (k <= size)%nat /\ b_mask b = repeat true k ++ repeat false (size - k) /\
    b_rows b = real_rows b ++ repeat zero (size - k) /\ length (real_rows b) = k.

Lemma real_rows_full (rows : list A) : real_rows (attach_mask rows (repeat true (length rows))) = rows.
Proof. unfold real_rows; cbn. apply strip_all_true. Qed.

Lemma wf_full (rows : list A) : wf_padded (length rows) (attach_mask rows (repeat true (length rows))).
Proof.
  exists (length rows). split; [lia|]. unfold real_rows; cbn [attach_mask b_rows b_mask].
  rewrite Nat.sub_diag. cbn [repeat]. rewrite !app_nil_r, strip_all_true. auto.
Qed.

Lemma padded_view_total raw bs nb : 1 <= bs ->
  exists final, pick (Z.of_nat (length raw)) bs nb = Some final /\
    pick_ok (Z.of_nat (length raw)) bs nb final /\
    padded_view zero (map f) raw bs nb = Some (padded_spec (map f) (Z.to_nat bs) final raw).
Proof.
  intros Hbs. destruct (pick_total (Z.of_nat (length raw)) bs nb) as (final & Hp & Hok); try lia.
  exists final. split; [exact Hp|]. split; [exact Hok|].
  unfold padded_view. rewrite Hp. f_equal. apply gen_padded_view_spec. exact Hbs.
Qed.

(* the last chunk has exactly N mod bs rows when it is not full *)
Lemma chunks_f_short_is_rem : forall fuel bs (l : list A) c, (1 <= bs)%nat -> (length l <= fuel)%nat ->
  In c (chunks_f fuel bs l) -> length c <> bs -> length c = (length l mod bs)%nat.
Proof.
  induction fuel as [|fu IH]; intros bs l c Hbs Hl Hin Hne; cbn [chunks_f] in Hin; [destruct Hin|].
  destruct l as [|x l']; [destruct Hin|]. destruct Hin as [<-|Hin].
  - rewrite firstn_length in *. assert (length (x :: l') < bs)%nat by lia.
    rewrite Nat.mod_small by lia. lia.
  - specialize (IH bs (skipn bs (x :: l')) c Hbs). rewrite skipn_length in IH.
    cbn [length] in *. rewrite IH; [|lia|exact Hin|exact Hne].
    destruct (Nat.le_gt_cases bs (S (length l'))) as [Hge|Hlt].
    + replace (S (length l')) with ((S (length l') - bs) + 1 * bs)%nat at 2 by lia.
      now rewrite Nat.mod_add by lia.
    + replace (S (length l') - bs)%nat with 0%nat in Hin |- * by lia.
      exfalso. assert (Hs : skipn bs (x :: l') = []) by (apply skipn_all2; cbn [length]; lia).
      rewrite Hs in Hin. destruct fu; destruct Hin.
Qed.

Lemma padded_partition raw bs nb : 1 <= bs ->
  exists bl, padded_view zero (map f) raw bs nb = Some bl /\ concat (map real_rows bl) = map f raw.
Proof.
  intros Hbs. destruct (padded_view_total raw bs nb Hbs) as (final & Hp & Hok & Hv).
  eexists; split; [exact Hv|]. unfold padded_spec. rewrite map_map.
  rewrite <- (chunks_concat (Z.to_nat bs) raw) at 2 by lia. rewrite concat_map. f_equal.
  apply map_ext_in. intros c Hc. unfold fullb. destruct (length c =? Z.to_nat bs)%nat eqn:E.
  - apply Nat.eqb_eq in E. rewrite <- E, <- (map_length f c). apply real_rows_full.
  - apply Nat.eqb_neq in E. apply real_rows_pad. rewrite map_length.
    pose proof (pick_ge_rem _ bs nb final (Nat2Z.is_nonneg (length raw)) Hbs Hp) as [Hge _].
    unfold chunks in Hc. rewrite (chunks_f_short_is_rem (length raw) (Z.to_nat bs) raw c) by (first [assumption | lia]).
    rewrite Nat2Z.inj_mod. rewrite Z2Nat.id by lia. exact Hge.
Qed.

Lemma padded_shape raw bs nb : 1 <= bs ->
  exists final bl, pick (Z.of_nat (length raw)) bs nb = Some final /\
    padded_view zero (map f) raw bs nb = Some bl /\
    Forall (fun b => wf_padded (Z.to_nat bs) b \/ wf_padded (Z.to_nat final) b) bl /\
    (forall pre b post, bl = pre ++ b :: post -> post <> [] ->
       b_mask b = repeat true (Z.to_nat bs) /\ length (b_rows b) = Z.to_nat bs) /\
    (forall pre b, bl = pre ++ [b] ->
       length (b_rows b) = length (b_mask b) /\
       (length (b_rows b) = Z.to_nat bs \/ length (b_rows b) = Z.to_nat final)).
Proof.
  intros Hbs. destruct (padded_view_total raw bs nb Hbs) as (final & Hp & Hok & Hv).
  pose proof (pick_ge_rem _ bs nb final (Nat2Z.is_nonneg (length raw)) Hbs Hp) as [Hge Hle].
  assert (Hf0 : 0 <= final).
  { assert (0 <= Z.of_nat (length raw) mod bs) by (apply Z.mod_pos_bound; lia). lia. }
  exists final. eexists. split; [exact Hp|]. split; [exact Hv|].
  assert (Hshort : forall c, In c (chunks (Z.to_nat bs) raw) -> length c <> Z.to_nat bs ->
                             (length c <= Z.to_nat final)%nat).
  { intros c Hc E. unfold chunks in Hc. rewrite (chunks_f_short_is_rem (length raw) (Z.to_nat bs) raw c) by (first [assumption | lia]).
    assert (0 <= Z.of_nat (length raw) mod bs) by (apply Z.mod_pos_bound; lia).
    apply Nat2Z.inj_le. rewrite Nat2Z.inj_mod. rewrite !Z2Nat.id by lia. exact Hge. }
  unfold padded_spec. split; [|split].
  - apply Forall_map. apply Forall_forall. intros c Hc. unfold fullb.
    destruct (length c =? Z.to_nat bs)%nat eqn:E.
    + left. apply Nat.eqb_eq in E. rewrite <- E, <- (map_length f c). apply wf_full.
    + right. apply Nat.eqb_neq in E. specialize (Hshort c Hc E).
      exists (length c). split; [exact Hshort|].
      rewrite real_rows_pad by (rewrite map_length; lia).
      unfold pad_examples; cbn [b_rows b_mask]. rewrite map_length. rewrite Nat.min_l by lia.
      repeat split; try reflexivity.
  - intros pre b post E Hpost. apply map_eq_app in E. destruct E as (l1 & l2 & E & <- & E2).
    destruct l2 as [|c l2']; [discriminate|]. cbn [map] in E2. injection E2 as <- <-.
    assert (Hfull : length c = Z.to_nat bs).
    { eapply chunks_f_full_but_last; [|exact E|]; [lia|]. destruct l2'; [contradiction Hpost; reflexivity|discriminate]. }
    unfold fullb. rewrite Hfull, Nat.eqb_refl. cbn. split; [reflexivity|now rewrite map_length].
  - intros pre b E. apply map_eq_app in E. destruct E as (l1 & l2 & E & <- & E2).
    destruct l2 as [|c [|? ?]]; try discriminate. cbn [map] in E2. injection E2 as <-.
    assert (Hc : In c (chunks (Z.to_nat bs) raw)) by (rewrite E; apply in_or_app; right; left; reflexivity).
    unfold fullb. destruct (length c =? Z.to_nat bs)%nat eqn:Ec.
    + apply Nat.eqb_eq in Ec. cbn. rewrite map_length, repeat_length. split; [exact Ec|left; exact Ec].
    + apply Nat.eqb_neq in Ec. specialize (Hshort c Hc Ec).
      unfold pad_examples; cbn [b_rows b_mask]. rewrite !app_length, !repeat_length, map_length.
      split; [lia|right; lia].
Qed.

End Views.

(* a chain of per-example preprocessors, applied in registration order, is itself
   a per-example map (so the statements above cover all chains) *)
Definition chain {A} (fs : list (A -> A)) (rows : list A) : list A :=
  fold_left (fun r g => map g r) fs rows.
Lemma chain_is_map {A} (fs : list (A -> A)) :
  forall rows, chain fs rows = map (fun x => fold_left (fun v g => g v) fs x) rows.
Proof.
  unfold chain. induction fs as [|g fs IH]; intros rows; cbn [fold_left].
  - now rewrite map_id.
  - rewrite IH, map_map. reflexivity.
Qed.
