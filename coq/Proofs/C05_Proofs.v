(* C05 lemmas: MeanStat / SumStat merge are commutative monoids on their documented
   domains; evaluate_batch / evaluate_model are folds of merge over the real rows. *)
From Coq Require Import ZArith QArith Qminmax Qabs List Permutation Bool Lia Lqa Setoid Morphisms.
From FV Require Import Common.ListX Common.Batch Common.CMonoid Common.NanQ gen.Gen_util gen.Gen_metrics gen.Gen_models
  Model.C05_Model.
Import ListNotations.
Local Open Scope Q_scope.

Lemma map_repeat' {A B} (f : A -> B) x n : map f (repeat x n) = repeat (f x) n.
Proof. induction n; cbn; congruence. Qed.

(* ---------------- generic part: any statistic algebra that is a commutative monoid
   on a domain D and whose reduce is the fold of merge ---------------- *)
Section Generic.
Context {A : Type} (alg : stat_alg A) (eqv : A -> A -> Prop) (D : A -> Prop).
Hypothesis M : cmonoid_on eqv D (sa_merge alg) (sa_zero alg).
Hypothesis reduce_spec : forall rows, Forall D rows ->
  eqv (sa_reduce alg rows) (mfold (sa_merge alg) (sa_zero alg) rows).
Hypothesis result_proper : forall x y, D x -> eqv x y -> NanQ.eq (sa_result alg x) (sa_result alg y).

Notation zero := (sa_zero alg).
Notation merge := (sa_merge alg).
Notation vD K := (vecD (D := D) K).

Lemma VM K : cmonoid_on (Forall2 eqv) (vD K) (vmerge alg) (vzero alg K).
Proof. exact (cmonoid_pointwise M K). Qed.

Local Instance eqv_equiv : Equivalence eqv := cm_equiv _ _ _ _ M.

Lemma fold_left_map_merge {B} (f : list A -> list A -> list A) (g : B -> list A) l : forall a,
  fold_left (fun st b => f st (g b)) l a = fold_left f (map g l) a.
Proof. induction l as [|b l IH]; intros a; cbn; [reflexivity|apply IH]. Qed.

Lemma evaluate_model_stat_mfold K batches :
  evaluate_model_stat alg K batches =
  mfold (vmerge alg) (vzero alg K) (map (fun b => evaluate_batch alg K (Some (mask_of b)) (snd b)) batches).
Proof.
  unfold evaluate_model_stat, Gen_models.evaluate_model_stat, mfold.
  assert (G : forall a, fold_left (fun stat batch => evaluate_model_step (vzero alg K) (vmerge alg) (vreduce alg K) batch stat) batches a =
                        fold_left (vmerge alg) (map (fun b => evaluate_batch alg K (Some (mask_of b)) (snd b)) batches) a).
  { induction batches as [|b batches IH]; intros a; cbn [fold_left map]; [reflexivity|]. exact (IH _). }
  exact (G _).
Qed.

(* the ModelEvaluator client functions compute the same thing as evaluate_model *)
Lemma evaluator_is_evaluate_model K batches : evaluator_client alg K batches = evaluate_model alg K batches.
Proof. reflexivity. Qed.

Lemma foldr_vmerge_length K rows : Forall (vD K) rows -> length (fold_right (vmerge alg) (vzero alg K) rows) = K.
Proof.
  induction 1 as [|r rows [Hl _] _ IH]; cbn; [apply repeat_length|].
  unfold vmerge. apply map2_length_eq; assumption.
Qed.

Lemma nth_foldr_vmerge K rows k : Forall (vD K) rows -> (k < K)%nat ->
  nth k (fold_right (vmerge alg) (vzero alg K) rows) zero = fold_right merge zero (column alg k rows).
Proof.
  intros H Hk. induction H as [|r rows [Hl Hr] Hrows IH]; cbn.
  - unfold vzero. apply nth_repeat.
  - unfold vmerge at 1. rewrite (map2_nth merge r _ k zero zero zero).
    + rewrite IH. reflexivity.
    + lia.
    + rewrite foldr_vmerge_length by exact Hrows. exact Hk.
Qed.

Lemma column_D K rows k : Forall (vD K) rows -> (k < K)%nat -> Forall D (column alg k rows).
Proof.
  intros H Hk. unfold column. apply Forall_map. eapply Forall_impl; [|exact H].
  intros r [Hl Hr]. rewrite Forall_forall in Hr. apply Hr. apply nth_In. lia.
Qed.

Lemma nth_map_seq {B} (f : nat -> B) K k d : (k < K)%nat -> nth k (map f (seq 0 K)) d = f k.
Proof.
  intros Hk. rewrite (nth_indep _ d (f 0%nat)) by (rewrite map_length, seq_length; exact Hk).
  rewrite map_nth. rewrite seq_nth by exact Hk. reflexivity.
Qed.

(* reduce over the batch axis = folding the rows with merge *)
Lemma vreduce_is_fold K rows : Forall (vD K) rows ->
  Forall2 eqv (vreduce alg K rows) (mfold (vmerge alg) (vzero alg K) rows).
Proof.
  intros H. pose proof (mfold_foldr (VM K) rows H) as F.
  pose proof (mfold_D (VM K) rows H) as [Lm _].
  apply (Forall2_nth_iff eqv _ _ zero zero). unfold vreduce at 1 2. rewrite map_length, seq_length.
  split; [symmetry; exact Lm|]. intros k Hk.
  unfold vreduce. rewrite nth_map_seq by exact Hk.
  apply (Forall2_nth_iff eqv _ _ zero zero) in F. destruct F as [_ F].
  etransitivity; [apply reduce_spec; apply (column_D K); assumption|].
  etransitivity; [apply (mfold_foldr M); apply (column_D K); assumption|].
  rewrite <- (nth_foldr_vmerge K rows k H Hk). symmetry. apply F. rewrite Lm. exact Hk.
Qed.

Lemma evaluate_batch_masked K m rows : Forall (vD K) (strip rows m) ->
  Forall2 eqv (evaluate_batch alg K (Some m) rows) (mfold (vmerge alg) (vzero alg K) (strip rows m)).
Proof.
  intros H. unfold evaluate_batch, Gen_metrics.evaluate_batch, apply_mask.
  change (map2 (fun (m0 : bool) x => if m0 then x else vzero alg K) m rows) with (mask_with (vzero alg K) m rows).
  pose proof (mask_with_D (VM K) m rows H) as HD.
  pose proof (Forall2_eqv_equiv M) as E2.
  etransitivity; [apply vreduce_is_fold; exact HD|]. apply (mfold_masked (VM K)). exact H.
Qed.

Lemma evaluate_batch_unmasked K rows : Forall (vD K) rows ->
  Forall2 eqv (evaluate_batch alg K None rows) (mfold (vmerge alg) (vzero alg K) rows).
Proof. intros H. unfold evaluate_batch, Gen_metrics.evaluate_batch. apply vreduce_is_fold. exact H. Qed.

Lemma Forall_concat' {B} (P : B -> Prop) ls : Forall P (concat ls) <-> Forall (Forall P) ls.
Proof.
  induction ls as [|l ls IH]; cbn; [split; constructor|].
  rewrite Forall_app, IH. split; [intros [H1 H2]; constructor; assumption|intros H; inversion H; auto].
Qed.

(* evaluate_model = merging the single-example statistics of the real rows one by one *)
Lemma model_is_fold K batches : Forall (vD K) (real_examples batches) ->
  Forall2 eqv (evaluate_model_stat alg K batches) (merge_examples alg K (real_examples batches)).
Proof.
  intros H. unfold real_examples in *. apply Forall_concat' in H. rewrite Forall_map in H.
  pose proof (Forall2_eqv_equiv M) as E2.
  rewrite evaluate_model_stat_mfold. unfold merge_examples.
  assert (F2 : Forall2 (Forall2 eqv)
                 (map (fun b => evaluate_batch alg K (Some (mask_of b)) (snd b)) batches)
                 (map (mfold (vmerge alg) (vzero alg K)) (map (fun b => strip (snd b) (mask_of b)) batches))).
  { induction H as [|b batches Hb _ IH]; cbn; constructor; [apply evaluate_batch_masked; exact Hb|exact IH]. }
  assert (DR : Forall (vD K) (map (mfold (vmerge alg) (vzero alg K)) (map (fun b => strip (snd b) (mask_of b)) batches))).
  { rewrite map_map. apply Forall_map. eapply Forall_impl; [|exact H]. intros b Hb. apply (mfold_D (VM K)). exact Hb. }
  assert (F2' : Forall2 (Forall2 eqv)
                 (map (mfold (vmerge alg) (vzero alg K)) (map (fun b => strip (snd b) (mask_of b)) batches))
                 (map (fun b => evaluate_batch alg K (Some (mask_of b)) (snd b)) batches)).
  { clear - F2 E2. induction F2; constructor; [symmetry; assumption|assumption]. }
  etransitivity; [symmetry; apply (mfold_Forall2 (VM K) _ _ F2' DR)|].
  apply (mfold_concat (VM K)). rewrite Forall_map. exact H.
Qed.

Lemma model_stat_D K batches : Forall (vD K) (real_examples batches) -> vD K (evaluate_model_stat alg K batches).
Proof.
  intros H. pose proof (model_is_fold K batches H) as E.
  pose proof (Forall2_eqv_equiv M) as E2.
  apply (cm_D_proper _ _ _ _ (VM K)) with (x := merge_examples alg K (real_examples batches)); [symmetry; exact E|].
  apply (mfold_D (VM K)). exact H.
Qed.

Lemma vresult_proper K x y : vD K x -> Forall2 eqv x y -> Forall2 NanQ.eq (vresult alg x) (vresult alg y).
Proof.
  intros [_ HD] E. unfold vresult. induction E as [|a b x y Eab E IH]; cbn; constructor.
  - apply result_proper; [exact (Forall_inv HD)|exact Eab].
  - apply IH. exact (Forall_inv_tail HD).
Qed.

(* any partition into batches, any batch order, any number and content of masked rows *)
Lemma batching_invariance K batches examples :
  Permutation (real_examples batches) examples -> Forall (vD K) examples ->
  Forall2 eqv (evaluate_model_stat alg K batches) (merge_examples alg K examples) /\
  Forall2 NanQ.eq (evaluate_model alg K batches) (vresult alg (merge_examples alg K examples)).
Proof.
  intros HP HD. pose proof (Forall2_eqv_equiv M) as E2.
  assert (HR : Forall (vD K) (real_examples batches)) by (eapply Permutation_Forall; [symmetry; exact HP|exact HD]).
  assert (E : Forall2 eqv (evaluate_model_stat alg K batches) (merge_examples alg K examples)).
  { etransitivity; [apply model_is_fold; exact HR|]. apply (mfold_perm (VM K)); assumption. }
  split; [exact E|]. unfold evaluate_model. apply (vresult_proper K); [apply model_stat_D; exact HR|exact E].
Qed.

Lemma two_batchings_agree K batches batches' :
  Permutation (real_examples batches) (real_examples batches') -> Forall (vD K) (real_examples batches) ->
  Forall2 NanQ.eq (evaluate_model alg K batches) (evaluate_model alg K batches').
Proof.
  intros HP HD.
  assert (HD' : Forall (vD K) (real_examples batches')) by (eapply Permutation_Forall; eassumption).
  destruct (batching_invariance K batches _ HP HD') as [_ R1].
  destruct (batching_invariance K batches' _ (Permutation_refl _) HD') as [_ R2].
  assert (EN : Equivalence (Forall2 NanQ.eq)).
  { split.
    - intros l; induction l; constructor; [reflexivity|assumption].
    - intros l l' H; induction H; constructor; [symmetry; assumption|assumption].
    - intros l1 l2 l3 H; revert l3; induction H; intros l3 H3; inversion H3; subst; constructor;
        [etransitivity; eassumption|auto]. }
  etransitivity; [exact R1|symmetry; exact R2].
Qed.

Lemma real_examples_all_masked (batches : list (option (list bool) * list (list A))) :
  Forall (fun b => Forall (fun m => m = false) (mask_of b)) batches -> real_examples batches = [].
Proof.
  unfold real_examples. induction 1 as [|b batches Hm _ IH]; cbn [map concat]; [reflexivity|].
  rewrite IH, app_nil_r. clear IH. generalize (snd b). induction Hm as [|x m Hx _ IHm]; intros [|r rows]; cbn; try reflexivity.
  subst x. apply IHm.
Qed.

(* empty or fully masked input: the zero statistic, whatever the masked rows contain *)
Lemma all_masked_is_zero K batches :
  Forall (fun b => Forall (fun m => m = false) (mask_of b)) batches ->
  Forall2 eqv (evaluate_model_stat alg K batches) (vzero alg K) /\
  Forall2 NanQ.eq (evaluate_model alg K batches) (repeat (sa_result alg zero) K).
Proof.
  intros H. pose proof (real_examples_all_masked batches H) as E.
  destruct (batching_invariance K batches [] ltac:(rewrite E; constructor) ltac:(constructor)) as [S R].
  split; [exact S|]. unfold merge_examples, mfold in R. cbn in R. unfold vresult, vzero in R. rewrite map_repeat' in R. exact R.
Qed.


(* ---- PerDomainMetric: the wrapper's statistic is the concatenation over the domains d of
   (base statistic if d = domain id else base zero); folding such rows = folding, per domain, the base
   statistics of the examples of that domain ---- *)
Notation pd_row := (pd_row alg).

Lemma map2_map_repeat {X Y Z} (g : X -> Y -> Z) (f : nat -> X) (y : Y) l :
  map2 g (map f l) (repeat y (length l)) = map (fun x => g (f x) y) l.
Proof. induction l as [|x l IH]; cbn; [reflexivity|]. rewrite IH. reflexivity. Qed.

Lemma per_domain_example_blocks Dn i (s z : list A) :
  per_domain_example Dn i s z = map (fun d => if Nat.eqb d i then s else z) (seq 0 Dn).
Proof.
  unfold per_domain_example, apply_mask, one_hot_bool.
  rewrite <- (seq_length Dn 0) at 2. apply map2_map_repeat.
Qed.

Lemma map2_concat {X Y Z} (f : X -> Y -> Z) xs : forall ys,
  Forall2 (fun x y => length x = length y) xs ys ->
  map2 f (concat xs) (concat ys) = concat (map2 (map2 f) xs ys).
Proof.
  induction xs as [|x xs IH]; intros ys H; inversion H as [|? y ? ys' Hl Hr]; subst; cbn; [reflexivity|].
  rewrite map2_app by exact Hl. rewrite IH by exact Hr. reflexivity.
Qed.

Lemma map2_map_map {X Y Z W} (f : Y -> Z -> W) (g : X -> Y) (h : X -> Z) l :
  map2 f (map g l) (map h l) = map (fun x => f (g x) (h x)) l.
Proof. induction l as [|x l IH]; cbn; [reflexivity|]. rewrite IH. reflexivity. Qed.

Lemma pd_fold_blocks Dn K rows : Forall (fun r => length (snd r) = K) rows ->
  forall acc : nat -> list A, (forall d, length (acc d) = K) ->
  fold_left (vmerge alg) (map (pd_row Dn K) rows) (concat (map acc (seq 0 Dn))) =
  concat (map (fun d => fold_left (vmerge alg) (map (fun r => if Nat.eqb d (fst r) then snd r else vzero alg K) rows) (acc d))
              (seq 0 Dn)).
Proof.
  induction 1 as [|r rows Hr _ IH]; intros acc Hacc; cbn [map fold_left]; [reflexivity|].
  unfold pd_row at 2. rewrite per_domain_example_blocks.
  unfold vmerge at 2. rewrite map2_concat.
  - rewrite map2_map_map.
    change (fun x : nat => map2 merge (acc x) (if Nat.eqb x (fst r) then snd r else vzero alg K))
      with (fun d : nat => vmerge alg (acc d) (if Nat.eqb d (fst r) then snd r else vzero alg K)).
    rewrite (IH (fun d => vmerge alg (acc d) (if Nat.eqb d (fst r) then snd r else vzero alg K))).
    + reflexivity.
    + intros d. unfold vmerge. apply map2_length_eq; [apply Hacc|].
      destruct (Nat.eqb d (fst r)); [exact Hr|apply repeat_length].
  - clear IH. induction (seq 0 Dn) as [|d l IHl]; cbn; constructor; [|exact IHl].
    rewrite Hacc. destruct (Nat.eqb d (fst r)); [symmetry; exact Hr|symmetry; apply repeat_length].
Qed.

Lemma concat_const_repeat {X} (z : A) K (l : list X) :
  concat (map (fun _ => repeat z K) l) = repeat z (length l * K).
Proof. induction l as [|x l IH]; cbn; [reflexivity|]. rewrite IH, repeat_app. reflexivity. Qed.

Lemma vzero_blocks Dn K : vzero alg (Dn * K) = concat (map (fun _ => vzero alg K) (seq 0 Dn)).
Proof. unfold vzero. rewrite concat_const_repeat, seq_length. reflexivity. Qed.

Lemma strip_domain d (rows : list (nat * list A)) :
  strip (map snd rows) (map (fun r : nat * list A => Nat.eqb d (fst r)) rows) = domain_rows d rows.
Proof.
  unfold domain_rows. induction rows as [|r rows IH]; cbn; [reflexivity|].
  destruct (Nat.eqb d (fst r)); cbn; rewrite IH; reflexivity.
Qed.

Lemma Forall2_concat {X Y} (R : X -> Y -> Prop) xs ys :
  Forall2 (Forall2 R) xs ys -> Forall2 R (concat xs) (concat ys).
Proof. induction 1 as [|x y xs ys H _ IH]; cbn; [constructor|]. apply Forall2_app; assumption. Qed.

Lemma per_domain_is_per_domain Dn K rows : Forall (fun r => vD K (snd r)) rows ->
  Forall2 eqv (merge_examples alg (Dn * K) (map (pd_row Dn K) rows))
              (concat (map (fun d => merge_examples alg K (domain_rows d rows)) (seq 0 Dn))).
Proof.
  intros H. unfold merge_examples, mfold. rewrite vzero_blocks.
  rewrite (pd_fold_blocks Dn K rows); [|eapply Forall_impl; [|exact H]; intros r [L _]; exact L|intros; apply repeat_length].
  apply Forall2_concat. induction (seq 0 Dn) as [|d l IHl]; cbn [map]; constructor; [|exact IHl].
  assert (E : map (fun r : nat * list A => if Nat.eqb d (fst r) then snd r else vzero alg K) rows =
              mask_with (vzero alg K) (map (fun r => Nat.eqb d (fst r)) rows) (map snd rows)).
  { unfold mask_with. clear. induction rows as [|r rows IH]; cbn; [reflexivity|]. rewrite IH. reflexivity. }
  rewrite E. rewrite <- strip_domain.
  apply (mfold_masked (VM K)). rewrite strip_domain. unfold domain_rows.
  apply Forall_map. apply Forall_forall. intros r Hr. apply filter_In in Hr. destruct Hr as [Hin _].
  rewrite Forall_forall in H. apply H. exact Hin.
Qed.

(* a batch without a mask key counts every row *)
Lemma mask_of_None (rows : list (list A)) : strip rows (mask_of (None, rows)) = rows.
Proof. unfold mask_of. cbn. apply strip_all_true. Qed.
End Generic.

(* ---------------- safe_div ---------------- *)
Lemma safe_div_Some a b : safe_div (Some a) (Some b) = if Qeq_bool b 0 then Some 0 else Some (a / b).
Proof.
  unfold safe_div. cbn. destruct (Qeq_bool b 0) eqn:E; cbn; [reflexivity|]. rewrite E. reflexivity.
Qed.

Lemma safe_div_zero a : safe_div a (Some 0) = Some 0.
Proof. destruct a; reflexivity. Qed.

Lemma safe_div_None_l b : safe_div None b = match b with Some y => if Qeq_bool y 0 then Some 0 else None | None => None end.
Proof. destruct b as [y|]; cbn; [|reflexivity]. unfold safe_div. cbn. destruct (Qeq_bool y 0); reflexivity. Qed.

#[global] Instance safe_div_proper : Proper (NanQ.eq ==> NanQ.eq ==> NanQ.eq) safe_div.
Proof.
  intros [a|] [a'|] Ea [b|] [b'|] Eb; cbn in Ea, Eb; try contradiction; try reflexivity.
  - rewrite !safe_div_Some. rewrite (Qeq_bool_proper b b' Eb 0 0 (Qeq_refl 0)).
    destruct (Qeq_bool b' 0); cbn; [reflexivity|]. rewrite Ea, Eb. reflexivity.
  - rewrite !safe_div_None_l. rewrite (Qeq_bool_proper b b' Eb 0 0 (Qeq_refl 0)).
    destruct (Qeq_bool b' 0); cbn; [reflexivity|exact I].
Qed.

(* ---------------- MeanStat ---------------- *)
Definition stat_eq (s1 s2 : NanQ.t * NanQ.t) : Prop := NanQ.eq (fst s1) (fst s2) /\ NanQ.eq (snd s1) (snd s2).
(* the documented domain {(0,0)} u {(a,b) | b > 0}, finite values *)
Definition qD (s : Q * Q) : Prop := (fst s == 0 /\ snd s == 0) \/ 0 < snd s.
Definition qlift (s : Q * Q) : NanQ.t * NanQ.t := (Some (fst s), Some (snd s)).
Definition Dmean (s : NanQ.t * NanQ.t) : Prop := exists q, s = qlift q /\ qD q.
Definition mmerge := sa_merge mean_alg.
Definition mzero := sa_zero mean_alg.

#[global] Instance stat_eq_equiv : Equivalence stat_eq.
Proof.
  split.
  - intros s; split; reflexivity.
  - intros s t [H1 H2]; split; symmetry; assumption.
  - intros s t u [H1 H2] [H3 H4]; split; etransitivity; eassumption.
Qed.

Lemma new_Some a w :
  meanstat_new (Some a) (Some w) = (if Qeq_bool (Qmax 0 w) 0 then Some 0 else Some a, Some (Qmax 0 w)).
Proof. unfold meanstat_new. cbn. destruct (Qeq_bool (Qmax 0 w) 0); reflexivity. Qed.

Lemma new_on_domain a w : qD (a, w) -> stat_eq (meanstat_new (Some a) (Some w)) (Some a, Some w).
Proof.
  intros [[Ha Hw]|Hw]; cbn in *; rewrite new_Some.
  - assert (E : Qmax 0 w == 0) by (rewrite Hw; apply Q.max_id).
    apply Qeq_bool_iff in E. rewrite E. apply Qeq_bool_iff in E. split; cbn; [symmetry; exact Ha|rewrite E, Hw; reflexivity].
  - assert (E : Qmax 0 w == w) by (apply Q.max_r; lra).
    assert (N : ~ Qmax 0 w == 0) by (rewrite E; lra). apply Qeq_bool_false_iff in N. rewrite N.
    split; cbn; [reflexivity|exact E].
Qed.

Lemma new_sanitises a w : w <= 0 -> stat_eq (meanstat_new (Some a) (Some w)) (Some 0, Some 0).
Proof.
  intros Hw. rewrite new_Some. assert (E : Qmax 0 w == 0) by (apply Q.max_l; exact Hw).
  apply Qeq_bool_iff in E. rewrite E. apply Qeq_bool_iff in E. split; cbn; [reflexivity|exact E].
Qed.

Lemma new_in_domain a w : Dmean (meanstat_new (Some a) (Some w)).
Proof.
  rewrite new_Some. destruct (Qeq_bool (Qmax 0 w) 0) eqn:E.
  - exists (0, Qmax 0 w). split; [reflexivity|]. left. cbn. apply Qeq_bool_iff in E. split; [reflexivity|exact E].
  - exists (a, Qmax 0 w). split; [reflexivity|]. right. cbn. apply Qeq_bool_false_iff in E.
    pose proof (Q.le_max_l 0 w). lra.
Qed.

Lemma mzero_eq : mzero = (Some 0, Some (Qmax 0 0)).
Proof. reflexivity. Qed.

Lemma mzero_stat_eq : stat_eq mzero (Some 0, Some 0).
Proof. rewrite mzero_eq. split; cbn; [reflexivity|first [apply Q.max_id|reflexivity]]. Qed.

Lemma Dmean_proper x y : stat_eq x y -> Dmean x -> Dmean y.
Proof.
  intros [E1 E2] [[a w] [-> Hq]]. destruct y as [ya yw]. cbn [fst snd qlift] in E1, E2.
  destruct (NanQ.eq_Some_l _ _ E1) as [a' [Ha Ea]]. destruct (NanQ.eq_Some_l _ _ E2) as [w' [Hw Ew]].
  subst ya yw. exists (a', w'). split; [reflexivity|].
  destruct Hq as [[H1 H2]|H]; cbn [fst snd] in *; [left|right]; cbn [fst snd].
  - rewrite <- Ea, <- Ew. split; assumption.
  - rewrite <- Ew. exact H.
Qed.

Lemma qD_add p q : qD p -> qD q -> qD (fst p + fst q, snd p + snd q).
Proof.
  intros [[H1 H2]|H] [[H3 H4]|H']; unfold qD; cbn.
  - left. rewrite H1, H2, H3, H4. split; ring.
  - right. rewrite H2. lra.
  - right. rewrite H4. lra.
  - right. lra.
Qed.

Lemma merge_on_domain p q : qD p -> qD q ->
  stat_eq (mmerge (qlift p) (qlift q)) (qlift (fst p + fst q, snd p + snd q)).
Proof.
  intros Hp Hq. unfold mmerge, mean_alg, sa_merge, meanstat_merge, qlift. cbn [fst snd NanQ.add NanQ.lift2].
  apply new_on_domain. apply (qD_add p q Hp Hq).
Qed.

Lemma Dmean_lift q : qD q -> Dmean (qlift q).
Proof. intros H. exists q. split; [reflexivity|exact H]. Qed.

Lemma mmerge_closed x y : Dmean x -> Dmean y -> Dmean (mmerge x y).
Proof.
  intros [p [-> Hp]] [q [-> Hq]]. eapply Dmean_proper; [symmetry; apply merge_on_domain; assumption|].
  apply Dmean_lift. apply qD_add; assumption.
Qed.

Lemma mmerge_proper x x' y y' : Dmean x -> Dmean y -> stat_eq x x' -> stat_eq y y' ->
  stat_eq (mmerge x y) (mmerge x' y').
Proof.
  intros Hx Hy Ex Ey.
  pose proof (Dmean_proper _ _ Ex Hx) as Hx'. pose proof (Dmean_proper _ _ Ey Hy) as Hy'.
  destruct Hx as [p [-> Hp]], Hy as [q [-> Hq]], Hx' as [p' [-> Hp']], Hy' as [q' [-> Hq']].
  rewrite (merge_on_domain p q Hp Hq), (merge_on_domain p' q' Hp' Hq').
  destruct Ex as [E1 E2], Ey as [E3 E4]. cbn [qlift fst snd] in *. cbn in E1, E2, E3, E4.
  split; cbn; [rewrite E1, E3|rewrite E2, E4]; reflexivity.
Qed.

Lemma mean_monoid : cmonoid_on stat_eq Dmean mmerge mzero.
Proof.
  split.
  - exact stat_eq_equiv.
  - exact Dmean_proper.
  - exact mmerge_proper.
  - rewrite mzero_eq. exists (0, Qmax 0 0). split; [reflexivity|]. left. cbn. split; reflexivity.
  - exact mmerge_closed.
  - intros x y z [p [-> Hp]] [q [-> Hq]] [r [-> Hr]].
    assert (Hpq := qD_add p q Hp Hq). assert (Hqr := qD_add q r Hq Hr).
    transitivity (mmerge (qlift (fst p + fst q, snd p + snd q)) (qlift r)).
    { apply mmerge_proper; [apply mmerge_closed; apply Dmean_lift; assumption|apply Dmean_lift; assumption| |reflexivity].
      apply merge_on_domain; assumption. }
    transitivity (mmerge (qlift p) (qlift (fst q + fst r, snd q + snd r))).
    2:{ symmetry. apply mmerge_proper; [apply Dmean_lift; assumption|apply mmerge_closed; apply Dmean_lift; assumption|reflexivity|].
        apply merge_on_domain; assumption. }
    rewrite (merge_on_domain _ r Hpq Hr), (merge_on_domain p _ Hp Hqr).
    split; cbn; ring.
  - intros x y [p [-> Hp]] [q [-> Hq]]. rewrite (merge_on_domain p q Hp Hq), (merge_on_domain q p Hq Hp).
    split; cbn; ring.
  - intros x [p [-> Hp]].
    assert (Hz : qD (0, Qmax 0 0)) by (left; cbn; split; reflexivity).
    rewrite mzero_eq. change (Some 0, Some (Qmax 0 0)) with (qlift (0, Qmax 0 0)).
    rewrite (merge_on_domain _ p Hz Hp). split; cbn; ring.
Qed.

(* a list of in-domain statistics is the lifting of a list of rational pairs *)
Lemma Dmean_rows rows : Forall Dmean rows -> exists qrows, rows = map qlift qrows /\ Forall qD qrows.
Proof.
  induction 1 as [|s rows [q [-> Hq]] _ [qrows [-> Hqs]]]; [exists []; split; [reflexivity|constructor]|].
  exists (q :: qrows). split; [reflexivity|constructor; assumption].
Qed.

Definition qsum1 (l : list (Q * Q)) : Q := fold_right Qplus 0 (map fst l).
Definition qsum2 (l : list (Q * Q)) : Q := fold_right Qplus 0 (map snd l).

Lemma qD_sum qrows : Forall qD qrows -> qD (qsum1 qrows, qsum2 qrows).
Proof.
  induction 1 as [|q qrows Hq _ IH]; [left; cbn; split; reflexivity|].
  apply (qD_add q (qsum1 qrows, qsum2 qrows) Hq IH).
Qed.

Lemma mfold_mean qrows : Forall qD qrows ->
  stat_eq (mfold mmerge mzero (map qlift qrows)) (qlift (qsum1 qrows, qsum2 qrows)).
Proof.
  induction 1 as [|q qrows Hq Hqs IH].
  - exact mzero_stat_eq.
  - assert (HD : Forall Dmean (map qlift qrows)).
    { apply Forall_map. eapply Forall_impl; [|exact Hqs]. intros a Ha. exists a. split; [reflexivity|exact Ha]. }
    cbn [map]. rewrite (mfold_cons mean_monoid (qlift q) (map qlift qrows) (Dmean_lift q Hq) HD).
    assert (Hs := qD_sum qrows Hqs).
    etransitivity; [apply (cm_op_proper _ _ _ _ mean_monoid) with (x' := qlift q) (y' := qlift (qsum1 qrows, qsum2 qrows))|].
    + exists q; split; [reflexivity|exact Hq].
    + apply (mfold_D mean_monoid). exact HD.
    + reflexivity.
    + exact IH.
    + apply (merge_on_domain q _ Hq Hs).
Qed.

Lemma mean_reduce_spec rows : Forall Dmean rows ->
  stat_eq (sa_reduce mean_alg rows) (mfold mmerge mzero rows).
Proof.
  intros H. destruct (Dmean_rows rows H) as [qrows [-> Hq]].
  rewrite (mfold_mean qrows Hq). unfold mean_alg, sa_reduce, meanstat_reduce.
  rewrite !map_map. cbn [qlift fst snd].
  assert (E1 : map (fun x : Q * Q => Some (fst x)) qrows = map Some (map fst qrows)) by (symmetry; apply map_map).
  assert (E2 : map (fun x : Q * Q => Some (snd x)) qrows = map Some (map snd qrows)) by (symmetry; apply map_map).
  unfold NanQ.t in *. rewrite E1, E2, !NanQ.sum_Some.
  apply (new_on_domain (qsum1 qrows) (qsum2 qrows)). apply qD_sum. exact Hq.
Qed.

Lemma mean_result_proper x y : Dmean x -> stat_eq x y -> NanQ.eq (sa_result mean_alg x) (sa_result mean_alg y).
Proof. intros _ [E1 E2]. unfold mean_alg, sa_result, meanstat_result. rewrite E1, E2. reflexivity. Qed.

Lemma mean_result_zero : sa_result mean_alg mzero = Some 0.
Proof. reflexivity. Qed.

(* result on the domain: accum / weight, and 0 for the zero statistic *)
Lemma mean_result_on_domain a w : qD (a, w) ->
  NanQ.eq (sa_result mean_alg (qlift (a, w))) (Some (if Qeq_bool w 0 then 0 else a / w)).
Proof.
  intros _. unfold mean_alg, sa_result, meanstat_result, qlift. cbn [fst snd]. rewrite safe_div_Some.
  destruct (Qeq_bool w 0); reflexivity.
Qed.

(* ---------------- SumStat ---------------- *)
Definition smerge := sa_merge sum_alg.
Definition szero := sa_zero sum_alg.

Lemma sum_monoid : cmonoid_on NanQ.eq NanQ.finite smerge szero.
Proof.
  unfold smerge, szero, sum_alg, sa_merge, sa_zero, sumstat_merge, sumstat_new, sum_metric_zero. split.
  - exact NanQ.eq_equiv.
  - intros x y E [q ->]. destruct (NanQ.eq_Some_l _ _ E) as [q' [-> _]]. exists q'. reflexivity.
  - intros x x' y y' _ _ E1 E2. rewrite E1, E2. reflexivity.
  - exists 0. reflexivity.
  - intros x y [p ->] [q ->]. exists (p + q). reflexivity.
  - intros x y z _ _ _. apply NanQ.add_assoc.
  - intros x y _ _. apply NanQ.add_comm.
  - intros x _. apply NanQ.add_zero_l.
Qed.

Lemma sum_reduce_spec rows : Forall NanQ.finite rows ->
  NanQ.eq (sa_reduce sum_alg rows) (mfold smerge szero rows).
Proof.
  intros H. symmetry. etransitivity; [apply (mfold_foldr sum_monoid); exact H|]. reflexivity.
Qed.

Lemma sum_result_proper x y : NanQ.finite x -> NanQ.eq x y -> NanQ.eq (sa_result sum_alg x) (sa_result sum_alg y).
Proof. intros _ E. exact E. Qed.

(* ---------------- instantiated statements ---------------- *)
Notation vDmean K := (vecD (D := Dmean) K).
Notation vDsum K := (vecD (D := NanQ.finite) K).

Lemma mean_monoid_pointwise K :
  cmonoid_on (Forall2 stat_eq) (vDmean K) (vmerge mean_alg) (vzero mean_alg K).
Proof. exact (VM mean_alg stat_eq Dmean mean_monoid K). Qed.

Lemma sum_monoid_pointwise K :
  cmonoid_on (Forall2 NanQ.eq) (vDsum K) (vmerge sum_alg) (vzero sum_alg K).
Proof. exact (VM sum_alg NanQ.eq NanQ.finite sum_monoid K). Qed.

Lemma merge_monoid :
  cmonoid_on stat_eq Dmean mmerge mzero /\
  (forall K, cmonoid_on (Forall2 stat_eq) (vDmean K) (vmerge mean_alg) (vzero mean_alg K)) /\
  (forall p q, qD p -> qD q -> stat_eq (mmerge (qlift p) (qlift q)) (qlift (fst p + fst q, snd p + snd q))).
Proof. split; [exact mean_monoid|]. split; [exact mean_monoid_pointwise|exact merge_on_domain]. Qed.

Lemma sum_stat_monoid :
  cmonoid_on NanQ.eq NanQ.finite smerge szero /\
  (forall K, cmonoid_on (Forall2 NanQ.eq) (vDsum K) (vmerge sum_alg) (vzero sum_alg K)) /\
  (forall p q, smerge (Some p) (Some q) = Some (p + q)).
Proof. split; [exact sum_monoid|]. split; [exact sum_monoid_pointwise|reflexivity]. Qed.

Lemma new_sanitises_all a w :
  Dmean (meanstat_new (Some a) (Some w)) /\
  (w <= 0 -> stat_eq (meanstat_new (Some a) (Some w)) (Some 0, Some 0)) /\
  (0 < w -> stat_eq (meanstat_new (Some a) (Some w)) (Some a, Some w)).
Proof.
  split; [apply new_in_domain|]. split; [apply new_sanitises|].
  intros H. apply new_on_domain. right. exact H.
Qed.

Lemma mean_batching K batches examples :
  Permutation (real_examples batches) examples -> Forall (vDmean K) examples ->
  Forall2 stat_eq (evaluate_model_stat mean_alg K batches) (merge_examples mean_alg K examples) /\
  Forall2 NanQ.eq (evaluate_model mean_alg K batches) (vresult mean_alg (merge_examples mean_alg K examples)).
Proof. exact (batching_invariance mean_alg stat_eq Dmean mean_monoid mean_reduce_spec mean_result_proper K batches examples). Qed.

Lemma sum_batching K batches examples :
  Permutation (real_examples batches) examples -> Forall (vDsum K) examples ->
  Forall2 NanQ.eq (evaluate_model_stat sum_alg K batches) (merge_examples sum_alg K examples) /\
  Forall2 NanQ.eq (evaluate_model sum_alg K batches) (vresult sum_alg (merge_examples sum_alg K examples)).
Proof. exact (batching_invariance sum_alg NanQ.eq NanQ.finite sum_monoid sum_reduce_spec sum_result_proper K batches examples). Qed.

Lemma batch_is_fold_of_examples :
  (forall K batches examples,
     Permutation (real_examples batches) examples -> Forall (vDmean K) examples ->
     Forall2 stat_eq (evaluate_model_stat mean_alg K batches) (merge_examples mean_alg K examples) /\
     Forall2 NanQ.eq (evaluate_model mean_alg K batches) (vresult mean_alg (merge_examples mean_alg K examples))) /\
  (forall K batches examples,
     Permutation (real_examples batches) examples -> Forall (vDsum K) examples ->
     Forall2 NanQ.eq (evaluate_model_stat sum_alg K batches) (merge_examples sum_alg K examples) /\
     Forall2 NanQ.eq (evaluate_model sum_alg K batches) (vresult sum_alg (merge_examples sum_alg K examples))).
Proof. split; [exact mean_batching|exact sum_batching]. Qed.

Lemma batchings_agree :
  (forall K batches batches', Permutation (real_examples batches) (real_examples batches') ->
     Forall (vDmean K) (real_examples batches) ->
     Forall2 NanQ.eq (evaluate_model mean_alg K batches) (evaluate_model mean_alg K batches')) /\
  (forall K batches batches', Permutation (real_examples batches) (real_examples batches') ->
     Forall (vDsum K) (real_examples batches) ->
     Forall2 NanQ.eq (evaluate_model sum_alg K batches) (evaluate_model sum_alg K batches')).
Proof.
  split.
  - exact (two_batchings_agree mean_alg stat_eq Dmean mean_monoid mean_reduce_spec mean_result_proper).
  - exact (two_batchings_agree sum_alg NanQ.eq NanQ.finite sum_monoid sum_reduce_spec sum_result_proper).
Qed.

Lemma empty_is_zero_not_nan :
  (forall K (batches : list (option (list bool) * list (list (NanQ.t * NanQ.t)))),
     Forall (fun b => Forall (fun m => m = false) (mask_of b)) batches ->
     Forall2 NanQ.eq (evaluate_model mean_alg K batches) (repeat (Some 0) K)) /\
  (forall K (batches : list (option (list bool) * list (list NanQ.t))),
     Forall (fun b => Forall (fun m => m = false) (mask_of b)) batches ->
     Forall2 NanQ.eq (evaluate_model sum_alg K batches) (repeat (Some 0) K)).
Proof.
  split; intros K batches H.
  - exact (proj2 (all_masked_is_zero mean_alg stat_eq Dmean mean_monoid mean_reduce_spec mean_result_proper K batches H)).
  - exact (proj2 (all_masked_is_zero sum_alg NanQ.eq NanQ.finite sum_monoid sum_reduce_spec sum_result_proper K batches H)).
Qed.

(* evaluate_batch alone (mask given or None) *)
Lemma evaluate_batch_is_fold :
  (forall K m rows, Forall (vDmean K) (strip rows m) ->
     Forall2 stat_eq (evaluate_batch mean_alg K (Some m) rows) (merge_examples mean_alg K (strip rows m))) /\
  (forall K rows, Forall (vDmean K) rows ->
     Forall2 stat_eq (evaluate_batch mean_alg K None rows) (merge_examples mean_alg K rows)) /\
  (forall K m rows, Forall (vDsum K) (strip rows m) ->
     Forall2 NanQ.eq (evaluate_batch sum_alg K (Some m) rows) (merge_examples sum_alg K (strip rows m))) /\
  (forall K rows, Forall (vDsum K) rows ->
     Forall2 NanQ.eq (evaluate_batch sum_alg K None rows) (merge_examples sum_alg K rows)).
Proof.
  repeat split; intros.
  - apply (evaluate_batch_masked mean_alg stat_eq Dmean mean_monoid mean_reduce_spec); assumption.
  - apply (evaluate_batch_unmasked mean_alg stat_eq Dmean mean_monoid mean_reduce_spec); assumption.
  - apply (evaluate_batch_masked sum_alg NanQ.eq NanQ.finite sum_monoid sum_reduce_spec); assumption.
  - apply (evaluate_batch_unmasked sum_alg NanQ.eq NanQ.finite sum_monoid sum_reduce_spec); assumption.
Qed.

(* ModelEvaluator: per client, init / step / final compute evaluate_model of that client's batches *)
Lemma evaluator_client_is_evaluate_model :
  (forall K batches, evaluator_client mean_alg K batches = evaluate_model mean_alg K batches) /\
  (forall K batches, evaluator_client sum_alg K batches = evaluate_model sum_alg K batches).
Proof. split; reflexivity. Qed.

(* no mask key = every row is real *)
Lemma no_mask_key_all_real :
  (forall (rows : list (list (NanQ.t * NanQ.t))), real_examples [(None, rows)] = rows) /\
  (forall (rows : list (list NanQ.t)), real_examples [(None, rows)] = rows).
Proof. split; intros rows; unfold real_examples; cbn [map concat]; rewrite app_nil_r; apply mask_of_None. Qed.

(* zero() of every built-in metric class is the zero of its Stat type *)
Lemma builtin_zeros :
  zero_Accuracy = mean_metric_zero /\ zero_TopKAccuracy = mean_metric_zero /\
  zero_SequenceTokenCrossEntropyLoss = mean_metric_zero /\ zero_SequenceCrossEntropyLoss = mean_metric_zero /\
  zero_SequenceTokenAccuracy = mean_metric_zero /\ zero_SequenceTokenTopKAccuracy = mean_metric_zero /\
  zero_SequenceTruncationRate = mean_metric_zero /\ zero_SequenceTokenOOVRate = mean_metric_zero /\
  zero_SequenceLength = mean_metric_zero /\
  zero_SequenceCount = sum_metric_zero /\ zero_ConfusionMatrix_entry = sum_metric_zero.
Proof. repeat split; reflexivity. Qed.

(* PerDomainMetric: evaluating the wrapper = evaluating the base metric separately on the examples of each domain *)
Lemma per_domain_definition :
  (forall Dn K rows, Forall (fun r => vecD (D := Dmean) K (snd r)) rows ->
     Forall2 stat_eq (merge_examples mean_alg (Dn * K) (map (pd_row mean_alg Dn K) rows))
                     (concat (map (fun d => merge_examples mean_alg K (domain_rows d rows)) (seq 0 Dn)))) /\
  (forall Dn K rows, Forall (fun r => vecD (D := NanQ.finite) K (snd r)) rows ->
     Forall2 NanQ.eq (merge_examples sum_alg (Dn * K) (map (pd_row sum_alg Dn K) rows))
                     (concat (map (fun d => merge_examples sum_alg K (domain_rows d rows)) (seq 0 Dn)))).
Proof.
  split.
  - exact (per_domain_is_per_domain mean_alg stat_eq Dmean mean_monoid).
  - exact (per_domain_is_per_domain sum_alg NanQ.eq NanQ.finite sum_monoid).
Qed.
