From Coq Require Import ZArith List Bool Arith Lia Permutation.
From FV Require Import Common.ListX gen.Gen_client_datasets Model.C04_Model.
Import ListNotations.

(* ------------------------------------------------------------------ *)
(* number of steps: the translated `_num_steps` computation             *)
Section NumSteps.
Local Open Scope Z_scope.

(* documented table.  ceil / floor are characterised, not re-stated:
   drop_remainder=False: the smallest k with k*bs >= N*e  ("as few batches as needed")
   drop_remainder=True : the largest  k with k*bs <= N*e  (only full batches)       *)
Definition epoch_steps_ok (N bs e : Z) (drop : bool) (k : Z) : Prop :=
  if drop then k * bs <= N * e < (k + 1) * bs
  else (k - 1) * bs < N * e <= k * bs.

Lemma num_steps_spec N bs e s drop : 1 <= bs ->
  exists r, shuffle_num_steps N bs e s drop = Some r /\
  match e, s with
  | None, None => r = None
  | None, Some s' => r = Some s'
  | Some e', None => exists k, r = Some k /\ epoch_steps_ok N bs e' drop k
  | Some e', Some s' => exists k, r = Some (Z.min s' k) /\ epoch_steps_ok N bs e' drop k
  end.
Proof.
  intros Hbs. unfold shuffle_num_steps, epoch_steps_ok.
  destruct e as [e'|], s as [s'|], drop; eexists; (split; [reflexivity|]); try reflexivity;
    eexists; (split; [reflexivity|]).
  all: try (pose proof (Z.div_mod (N * e') bs ltac:(lia));
            pose proof (Z.mod_pos_bound (N * e') bs ltac:(lia)); nia).
  all: pose proof (Z.div_mod (N * e' + bs - 1) bs ltac:(lia));
       pose proof (Z.mod_pos_bound (N * e' + bs - 1) bs ltac:(lia)); nia.
Qed.
End NumSteps.

(* ------------------------------------------------------------------ *)
(* the refill loop                                                      *)
Section Refill.
Variable shuf : nat -> list nat -> list nat.
Variable N : nat.
Hypothesis Npos : 1 <= N.
Hypothesis shuf_perm : forall k b, Permutation (shuf k b) b.

Notation st := C04_Model.st.
Notation fill := (C04_Model.fill shuf N).
Notation run := (C04_Model.run shuf N).

Definition wf (s : st) := length (buf s) = N /\ pos s <= N.

(* declarative future of a state: rest of the current window, then W freshly
   shuffled windows, the k-th obtained by the k-th shuffle of the previous one *)
Fixpoint windows (W k : nat) (b : list nat) : list (list nat) :=
  match W with O => [] | S W' => let b' := shuf k b in b' :: windows W' (S k) b' end.
Definition rem (s : st) (W : nat) := skipn (pos s) (buf s) ++ concat (windows W (nsh s) (buf s)).

Lemma shuf_length k b : length (shuf k b) = length b.
Proof. apply Permutation_length, shuf_perm. Qed.

Lemma fill_spec : forall fuel need s acc W,
  need < fuel -> wf s -> need <= length (rem s W) ->
  exists s' W', fill fuel need s acc = (s', acc ++ firstn need (rem s W))
    /\ wf s' /\ W' <= W /\ rem s' W' = skipn need (rem s W).
Proof.
  induction fuel as [|f IH]; intros need s acc W Hfuel [Hlen Hpos] Hneed; [lia|].
  cbn [C04_Model.fill]. destruct (need =? 0) eqn:E0.
  - apply Nat.eqb_eq in E0; subst need. exists s, W. cbn [firstn skipn]. rewrite app_nil_r.
    repeat split; auto.
  - apply Nat.eqb_neq in E0.
    assert (H1 : exists s1 W1, (if N - pos s =? 0 then mk (shuf (nsh s) (buf s)) 0 (S (nsh s)) else s) = s1
              /\ wf s1 /\ pos s1 < N /\ W1 <= W /\ rem s1 W1 = rem s W).
    { destruct (N - pos s =? 0) eqn:Ea.
      - apply Nat.eqb_eq in Ea. assert (pos s = N) by lia.
        destruct W as [|W1].
        + exfalso. unfold rem in Hneed. cbn [windows concat] in Hneed.
          rewrite app_nil_r, skipn_length in Hneed. lia.
        + exists (mk (shuf (nsh s) (buf s)) 0 (S (nsh s))), W1. split; [reflexivity|].
          split; [split; cbn; [rewrite shuf_length; exact Hlen|lia]|]. split; [cbn; lia|]. split; [lia|].
          unfold rem; cbn [buf pos nsh windows concat skipn].
          rewrite skipn_all2 by lia. reflexivity.
      - apply Nat.eqb_neq in Ea. exists s, W. repeat split; auto; lia. }
    destruct H1 as (s1 & W1 & -> & [Hlen1 Hpos1] & Hlt & HW1 & Hrem).
    set (used := Nat.min (N - pos s1) need).
    assert (Hu : 0 < used <= need /\ used <= N - pos s1) by (unfold used; lia).
    set (s2 := mk (buf s1) (pos s1 + used) (nsh s1)).
    assert (Hrem2 : rem s2 W1 = skipn used (rem s1 W1)).
    { unfold rem, s2; cbn [buf pos nsh]. rewrite skipn_app, skipn_skipn', skipn_length.
      replace (used - (length (buf s1) - pos s1)) with 0 by lia. reflexivity. }
    assert (Hfst : firstn used (skipn (pos s1) (buf s1)) = firstn used (rem s1 W1)).
    { unfold rem. rewrite firstn_app, skipn_length.
      replace (used - (length (buf s1) - pos s1)) with 0 by lia. cbn [firstn]. now rewrite app_nil_r. }
    destruct (IH (need - used) s2 (acc ++ firstn used (skipn (pos s1) (buf s1))) W1)
      as (s' & W' & Hf & Hwf & HW' & Hr).
    + lia.
    + split; cbn; [exact Hlen1|lia].
    + rewrite Hrem2, skipn_length, Hrem. lia.
    + exists s', W'. rewrite Hf. split; [|split; [exact Hwf|split; [lia|]]].
      * f_equal. rewrite <- app_assoc. f_equal. rewrite Hfst, Hrem2, Hrem.
        rewrite <- (firstn_split_add (rem s W) used (need - used)). f_equal. lia.
      * rewrite Hr, Hrem2, Hrem, skipn_skipn'. f_equal. lia.
Qed.

(* the batches drawn from a state are the consecutive bs-chunks of its future *)
Lemma run_spec : forall steps bs s W, wf s -> steps * bs <= length (rem s W) ->
  concat (run steps bs s) = firstn (steps * bs) (rem s W) /\
  Forall (fun b => length b = bs) (run steps bs s).
Proof.
  induction steps as [|k IH]; intros bs s W Hwf Hlen; cbn [C04_Model.run].
  - split; [reflexivity|constructor].
  - destruct (fill_spec (S bs) bs s [] W) as (s' & W' & Hf & Hwf' & HW' & Hr); [lia|exact Hwf|cbn in Hlen; lia|].
    rewrite Hf. cbn [app]. destruct (IH bs s' W' Hwf') as [Hc Hall].
    { rewrite Hr, skipn_length. cbn in Hlen. lia. }
    split.
    + cbn [concat]. rewrite Hc, Hr. cbn [Nat.mul]. now rewrite firstn_split_add.
    + constructor; [|exact Hall]. rewrite firstn_length. cbn in Hlen. lia.
Qed.

Lemma windows_length W : forall k b, length b = N -> length (concat (windows W k b)) = W * N.
Proof.
  induction W as [|W IH]; intros k b Hb; cbn [windows concat]; [reflexivity|].
  rewrite app_length, shuf_length, Hb, IH by (now rewrite shuf_length). cbn. reflexivity.
Qed.

Lemma windows_perm W : forall k b, Forall (fun w => Permutation w b) (windows W k b).
Proof.
  induction W as [|W IH]; intros k b; cbn; constructor; [apply shuf_perm|].
  eapply Forall_impl; [|apply IH]. cbn. intros w Hw. etransitivity; [exact Hw|apply shuf_perm].
Qed.

Lemma windows_count W : forall k b, length (windows W k b) = W.
Proof. induction W; intros; cbn; [reflexivity|now rewrite IHW]. Qed.

Definition stream_windows (W : nat) := windows W 0 (seq 0 N).

Lemma init_wf : wf (C04_Model.init N).
Proof. split; cbn; [apply seq_length|lia]. Qed.

Lemma init_rem W : rem (C04_Model.init N) W = concat (stream_windows W).
Proof. unfold rem, C04_Model.init, stream_windows; cbn [buf pos nsh]. rewrite skipn_all2 by (rewrite seq_length; lia). reflexivity. Qed.

(* Main statement: for every number of steps and batch size, the drawn stream is the
   prefix of the concatenation of the successive reshuffles, every batch is full. *)
Lemma stream_is_window_concat steps bs W : steps * bs <= W * N ->
  concat (batches shuf N steps bs) = firstn (steps * bs) (concat (stream_windows W)) /\
  Forall (fun b => length b = bs) (batches shuf N steps bs) /\
  length (batches shuf N steps bs) = steps /\
  Forall (fun w => Permutation w (seq 0 N)) (stream_windows W).
Proof.
  intros HW. unfold batches. assert (N =? 0 = false) as -> by (apply Nat.eqb_neq; lia).
  destruct (run_spec steps bs (C04_Model.init N) W init_wf) as [Hc Hall].
  { rewrite init_rem. unfold stream_windows. rewrite windows_length by apply seq_length. exact HW. }
  rewrite init_rem in Hc. split; [exact Hc|]. split; [exact Hall|]. split; [|apply windows_perm].
  clear. generalize (C04_Model.init N). induction steps as [|k IH]; intros s; cbn [C04_Model.run]; [reflexivity|].
  destruct (C04_Model.fill shuf N (S bs) bs s []). cbn. now rewrite IH.
Qed.

(* the first ceil(N/bs) batches contain every example: their concatenation starts
   with the whole first window, a permutation of the dataset *)
Lemma first_batches_cover steps bs W : steps * bs <= W * N -> N <= steps * bs ->
  forall x, x < N -> In x (firstn N (concat (batches shuf N steps bs))).
Proof.
  intros HW Hcov x Hx. destruct (stream_is_window_concat steps bs W HW) as (Hc & _ & _ & Hperm).
  rewrite Hc. rewrite firstn_firstn, Nat.min_l by exact Hcov.
  destruct W as [|W']; [lia|]. unfold stream_windows in *. cbn [windows concat] in *.
  rewrite firstn_app, shuf_length, seq_length, Nat.sub_diag. cbn [firstn]. rewrite app_nil_r.
  rewrite firstn_all2 by (rewrite shuf_length, seq_length; lia).
  eapply Permutation_in; [symmetry; apply shuf_perm|]. apply in_seq. lia.
Qed.

End Refill.

(* ------------------------------------------------------------------ *)
(* usage counts: in any prefix of a concatenation of permutations of the same
   list, the numbers of occurrences of two elements differ by at most 1 *)
Section Balanced.
Variable base : list nat.
Hypothesis base_nodup : NoDup base.

Lemma count_perm_base x w : Permutation w base -> In x base -> count_occ Nat.eq_dec w x = 1.
Proof.
  intros Hp Hin. rewrite (Permutation_count_occ Nat.eq_dec) in Hp. rewrite Hp.
  apply NoDup_count_occ'; assumption.
Qed.

Lemma count_firstn_le1 x n w : Permutation w base -> count_occ Nat.eq_dec (firstn n w) x <= 1.
Proof.
  intros Hp. assert (Hnd : NoDup w) by (eapply Permutation_NoDup; [symmetry; exact Hp|exact base_nodup]).
  assert (Hnd' : NoDup (firstn n w)) by (apply NoDup_firstn; exact Hnd).
  rewrite (NoDup_count_occ Nat.eq_dec) in Hnd'. apply Hnd'.
Qed.

Lemma prefix_balanced : forall (ws : list (list nat)) p x y,
  Forall (fun w => Permutation w base) ws -> In x base -> In y base ->
  count_occ Nat.eq_dec (firstn p (concat ws)) x <= S (count_occ Nat.eq_dec (firstn p (concat ws)) y).
Proof.
  induction ws as [|w ws IH]; intros p x y Hall Hx Hy; cbn [concat].
  - rewrite firstn_nil. cbn. lia.
  - inversion Hall as [|? ? Hw Hws]; subst. rewrite firstn_app, !count_occ_app.
    destruct (Nat.le_gt_cases (length w) p) as [Hge|Hlt].
    + rewrite firstn_all2 by exact Hge. rewrite !(count_perm_base _ w Hw) by assumption.
      specialize (IH (p - length w) x y Hws Hx Hy). lia.
    + replace (p - length w) with 0 by lia. cbn [firstn count_occ].
      pose proof (count_firstn_le1 x p w Hw). lia.
Qed.
End Balanced.

(* skip_shuffle: the identity oracle gives the cyclic original order *)
Section Cyclic.
Variable N : nat.
Hypothesis Npos : 1 <= N.
Definition idshuf (k : nat) (b : list nat) := b.

Lemma windows_id W : forall k, windows idshuf W k (seq 0 N) = repeat (seq 0 N) W.
Proof. induction W as [|W IH]; intros k; cbn; [reflexivity|]. unfold idshuf at 1. now rewrite IH. Qed.

Lemma nth_concat_repeat_seq : forall W p, p < W * N ->
  nth p (concat (repeat (seq 0 N) W)) 0 = p mod N.
Proof.
  induction W as [|W IH]; intros p Hp; [lia|]. cbn [repeat concat].
  destruct (Nat.lt_ge_cases p N) as [Hlt|Hge].
  - rewrite app_nth1 by (rewrite seq_length; exact Hlt). rewrite seq_nth by exact Hlt.
    now rewrite Nat.mod_small.
  - rewrite app_nth2 by (rewrite seq_length; exact Hge). rewrite seq_length.
    rewrite IH by (cbn in Hp; lia).
    replace p with ((p - N) + 1 * N) at 2 by lia. now rewrite Nat.mod_add by lia.
Qed.
End Cyclic.

Lemma usage_balanced (shuf : nat -> list nat -> list nat) (N : nat) (Npos : 1 <= N)
  (shuf_perm : forall k b, Permutation (shuf k b) b) :
  forall steps bs W p x y, steps * bs <= W * N -> x < N -> y < N ->
  count_occ Nat.eq_dec (firstn p (concat (batches shuf N steps bs))) x
  <= S (count_occ Nat.eq_dec (firstn p (concat (batches shuf N steps bs))) y).
Proof.
  intros steps bs W p x y HW Hx Hy.
  destruct (stream_is_window_concat shuf N Npos shuf_perm steps bs W HW) as (Hc & _ & _ & Hperm).
  rewrite Hc, !firstn_firstn.
  apply (prefix_balanced (seq 0 N) (seq_NoDup N 0)); [exact Hperm| |]; apply in_seq; lia.
Qed.

Lemma nth_firstn_lt {A} (d : A) : forall n p (l : list A), p < n -> nth p (firstn n l) d = nth p l d.
Proof.
  induction n as [|n IH]; intros p l Hp; [lia|]. destruct l as [|x l]; [now destruct p|].
  destruct p as [|p]; cbn; [reflexivity|]. apply IH. lia.
Qed.

Lemma skip_shuffle_cyclic : forall N steps bs p, 1 <= N -> p < steps * bs ->
  nth p (concat (batches idshuf N steps bs)) 0 = p mod N.
Proof.
  intros N steps bs p HN Hp.
  assert (HW : steps * bs <= (steps * bs) * N) by nia.
  destruct (stream_is_window_concat idshuf N HN (fun _ b => Permutation_refl b) steps bs (steps * bs) HW)
    as (Hc & _ & _ & _).
  rewrite Hc. unfold stream_windows. rewrite windows_id.
  rewrite nth_firstn_lt by exact Hp. apply nth_concat_repeat_seq; [exact HN|nia].
Qed.
