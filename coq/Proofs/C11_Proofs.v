(* C11 proofs.  Part K: key paths; part B: bit counters; part Q: the quantizers on
   finite inputs (Q-level functions the NanQ model refines), levels / unbiasedness /
   identity / finiteness; part A: aggregators. *)
From Coq Require Import ZArith QArith Qabs Qround Qminmax List Bool Lia Lqa.
From FV Require Import Common.ListX Common.CMonoid Common.NanQ Common.KeyPath Common.QVec Common.WMean
  gen.Gen_tree_util gen.Gen_compression Model.C11_Model.
Import ListNotations.

(* ---------------- part K: keys ---------------- *)
Lemma zeros_one_inj : forall a b (X Y : list nat),
  repeat 0%nat a ++ 1%nat :: X = repeat 0%nat b ++ 1%nat :: Y -> a = b /\ X = Y.
Proof.
  induction a as [|a IH]; intros [|b] X Y H; cbn in H.
  - injection H as ->. split; reflexivity.
  - discriminate.
  - discriminate.
  - injection H as H. destruct (IH _ _ _ H) as [-> ->]. split; reflexivity.
Qed.

Lemma seq_key_inj k c c' l l' : seq_key k c ++ [l] = seq_key k c' ++ [l'] -> c = c' /\ l = l'.
Proof.
  unfold seq_key. rewrite <- !app_assoc. intros H. apply app_inv_head in H.
  cbn [app] in H. apply zeros_one_inj in H. destruct H as [-> H]. injection H as ->. split; reflexivity.
Qed.

Lemma usq_key_inj t c l t' c' l' : usq_key t c l = usq_key t' c' l' -> t = t' /\ c = c' /\ l = l'.
Proof.
  unfold usq_key, seq_key, usq_state. rewrite <- !app_assoc. cbn [app]. intros H.
  apply zeros_one_inj in H. destruct H as [-> H]. apply zeros_one_inj in H. destruct H as [-> H].
  injection H as ->. repeat split.
Qed.

Lemma drive_key_inj t c l t' c' l' : drive_key t c l = drive_key t' c' l' -> t = t' /\ c = c' /\ l = l'.
Proof. exact (usq_key_inj t c l t' c' l'). Qed.

Lemma repeat_app_zero a b : repeat 0%nat (a + b) = repeat 0%nat a ++ repeat 0%nat b.
Proof. apply repeat_app. Qed.

Lemma rusq_prefix t X : rusq_state t ++ X = repeat 0%nat (2 * t) ++ X.
Proof. reflexivity. Qed.

Lemma rusq_key_shape t c l : rusq_key t c l = repeat 0%nat (2 * t + 1) ++ 1%nat :: repeat 0%nat c ++ 1%nat :: [l].
Proof.
  unfold rusq_key, seq_key, rusq_state. rewrite repeat_app. cbn [repeat]. rewrite <- !app_assoc. reflexivity.
Qed.

Lemma rusq_key_inj t c l t' c' l' : rusq_key t c l = rusq_key t' c' l' -> t = t' /\ c = c' /\ l = l'.
Proof.
  rewrite !rusq_key_shape. intros H.
  apply zeros_one_inj in H. destruct H as [Ht H]. apply zeros_one_inj in H. destruct H as [-> H].
  injection H as ->. split; [lia|split; reflexivity].
Qed.

Lemma rusq_rot_key_inj t l t' l' : rusq_rot_key t l = rusq_rot_key t' l' -> t = t' /\ l = l'.
Proof.
  unfold rusq_rot_key, rusq_state. intros H.
  change [1%nat; l] with (1%nat :: [l]) in H. change [1%nat; l'] with (1%nat :: [l']) in H.
  apply zeros_one_inj in H. destruct H as [Ht H]. injection H as ->. split; [lia|reflexivity].
Qed.

(* a rotation key of the rotated quantizer is never a quantisation key *)
Lemma rusq_rot_vs_quant t l t' c' l' : rusq_rot_key t l <> rusq_key t' c' l'.
Proof.
  rewrite rusq_key_shape. unfold rusq_rot_key, rusq_state. intros H.
  change [1%nat; l] with (1%nat :: [l]) in H.
  apply zeros_one_inj in H. lia.
Qed.

(* the state key of any round is never a key used for drawing (it is a proper prefix ending in 0s) *)
Lemma usq_state_not_key t t' c l : usq_state t <> usq_key t' c l.
Proof.
  unfold usq_state, usq_key, seq_key. intros H.
  assert (Hin : In 1%nat (repeat 0%nat t)) by (rewrite H; rewrite !in_app_iff; cbn; tauto).
  apply repeat_spec in Hin. discriminate.
Qed.

Lemma NoDup_app_intro' {A} (a b : list A) :
  NoDup a -> NoDup b -> (forall x, In x a -> In x b -> False) -> NoDup (a ++ b).
Proof.
  induction a as [|x a IH]; intros Ha Hb Hd; cbn [app]; [exact Hb|].
  inversion Ha; subst. constructor.
  - rewrite in_app_iff. intros [H|H]; [contradiction|]. apply (Hd x); [left; reflexivity|exact H].
  - apply IH; [assumption|assumption|]. intros y Hy. apply Hd. right; exact Hy.
Qed.

Lemma round_keys_NoDup key clients leaves t :
  (forall c l c' l', key t c l = key t c' l' -> c = c' /\ l = l') ->
  NoDup (round_keys key t clients leaves).
Proof.
  intros Hinj. unfold round_keys.
  assert (G : forall cs, NoDup cs -> NoDup (flat_map (fun c => map (fun l => key t c l) (seq 0 leaves)) cs)).
  { induction cs as [|c cs IH]; intros Hnd; cbn [flat_map]; [constructor|].
    inversion Hnd; subst. apply NoDup_app_intro'.
    - apply FinFun.Injective_map_NoDup; [|apply seq_NoDup]. intros l l' E. apply (Hinj c l c l' E).
    - apply IH; assumption.
    - intros p Hp Hq. apply in_map_iff in Hp. destruct Hp as (l & <- & _).
      apply in_flat_map in Hq. destruct Hq as (c' & Hc' & Hq). apply in_map_iff in Hq. destruct Hq as (l' & E & _).
      destruct (Hinj _ _ _ _ E) as [-> _]. contradiction. }
  apply G. apply seq_NoDup.
Qed.

(* ---------------- part B: bit counters ---------------- *)
Local Open Scope Z_scope.
Lemma bits_usq L P n r : bits_after usq_bits L P n r = (L, r * P, r * (64 * n)).
Proof. unfold bits_after, usq_bits. repeat (f_equal; try lia). Qed.
Lemma bits_rusq L P n r : bits_after rusq_bits L P n r = (L, r * P, r * (64 * n)).
Proof. unfold bits_after, rusq_bits. repeat (f_equal; try lia). Qed.
Lemma bits_tern L P n r : bits_after tern_bits L P n r = (3, r * P, r * (64 * n)).
Proof. unfold bits_after, tern_bits. repeat (f_equal; try lia). Qed.
Lemma bits_drive L P n r : bits_after drive_bits L P n r = (1, 0, r * (P + 64 * n)).
Proof. unfold bits_after, drive_bits. repeat (f_equal; try lia). Qed.
(* running counter: r rounds of adding the per-round triple *)
Fixpoint bits_run (f : Z -> Z -> Z -> Z * Z * Z) (L P n : Z) (r : nat) : Z * Z :=
  match r with O => (0, 0) | S r' => let '(a, b) := bits_run f L P n r' in let '(_, a', b') := f L P n in (a + a', b + b') end.
Lemma bits_run_after f L P n r :
  bits_run f L P n r = (let '(_, a, b) := bits_after f L P n (Z.of_nat r) in (a, b)).
Proof.
  unfold bits_after. destruct (f L P n) as [[base a] b] eqn:E.
  induction r as [|r IH]; [cbn; f_equal; lia|].
  cbn [bits_run]. rewrite IH, E. rewrite Nat2Z.inj_succ. f_equal; lia.
Qed.
Local Close Scope Z_scope.

(* ---------------- prefix-freeness ---------------- *)
Lemma usq_key_shape t c l : usq_key t c l = repeat 0%nat t ++ 1%nat :: repeat 0%nat c ++ 1%nat :: [l].
Proof. unfold usq_key, seq_key, usq_state. rewrite <- !app_assoc. reflexivity. Qed.

Lemma shape_prefix_free a c l a' c' l' X :
  (repeat 0%nat a ++ 1%nat :: repeat 0%nat c ++ 1%nat :: [l]) ++ X = repeat 0%nat a' ++ 1%nat :: repeat 0%nat c' ++ 1%nat :: [l'] ->
  X = [].
Proof.
  rewrite <- app_assoc. cbn [app]. rewrite <- app_assoc. cbn [app]. intros H.
  apply zeros_one_inj in H. destruct H as [_ H]. apply zeros_one_inj in H. destruct H as [_ H].
  injection H as _ H. exact H.
Qed.

(* no key used for drawing is a proper prefix of another one (so no key is both used and split further) *)
Lemma usq_key_prefix_free t c l t' c' l' X : usq_key t c l ++ X = usq_key t' c' l' -> X = [].
Proof. rewrite !usq_key_shape. apply shape_prefix_free. Qed.
Lemma drive_key_prefix_free t c l t' c' l' X : drive_key t c l ++ X = drive_key t' c' l' -> X = [].
Proof. exact (usq_key_prefix_free t c l t' c' l' X). Qed.
Lemma rusq_key_prefix_free t c l t' c' l' X : rusq_key t c l ++ X = rusq_key t' c' l' -> X = [].
Proof. rewrite !rusq_key_shape. apply shape_prefix_free. Qed.
Lemma rusq_rot_key_prefix_free t l t' l' X : rusq_rot_key t l ++ X = rusq_rot_key t' l' -> X = [].
Proof.
  unfold rusq_rot_key, rusq_state. rewrite <- app_assoc. cbn [app]. intros H.
  change [1%nat; l'] with (1%nat :: [l']) in H. apply zeros_one_inj in H. destruct H as [_ H].
  injection H as _ H. exact H.
Qed.
(* a rotation key is not a prefix of a quantisation key nor conversely *)
Lemma rusq_rot_quant_prefix_free t l t' c' l' X :
  rusq_rot_key t l ++ X <> rusq_key t' c' l' /\ rusq_key t' c' l' ++ X <> rusq_rot_key t l.
Proof.
  rewrite rusq_key_shape. unfold rusq_rot_key, rusq_state. split; intros H.
  - rewrite <- app_assoc in H. cbn [app] in H. apply zeros_one_inj in H. lia.
  - rewrite <- app_assoc in H. cbn [app] in H. change [1%nat; l] with (1%nat :: [l]) in H.
    apply zeros_one_inj in H. lia.
Qed.

(* the keys of one round, in call order: one per (client, leaf), pairwise distinct *)
Lemma round_keys_length key t clients leaves : length (round_keys key t clients leaves) = (clients * leaves)%nat.
Proof.
  unfold round_keys. rewrite <- (seq_length clients 0) at 2. generalize (seq 0 clients). intros cs.
  induction cs as [|c cs IH]; [reflexivity|]. cbn [flat_map length]. rewrite app_length, map_length, seq_length, IH. reflexivity.
Qed.
Lemma round_keys_all_distinct t clients leaves :
  NoDup (round_keys usq_key t clients leaves) /\ NoDup (round_keys tern_key t clients leaves) /\
  NoDup (round_keys drive_key t clients leaves) /\ NoDup (round_keys rusq_key t clients leaves).
Proof.
  repeat split; apply round_keys_NoDup; intros c l c' l' E.
  - destruct (usq_key_inj _ _ _ _ _ _ E) as (_ & ? & ?); tauto.
  - destruct (usq_key_inj _ _ _ _ _ _ E) as (_ & ? & ?); tauto.
  - destruct (drive_key_inj _ _ _ _ _ _ E) as (_ & ? & ?); tauto.
  - destruct (rusq_key_inj _ _ _ _ _ _ E) as (_ & ? & ?); tauto.
Qed.
