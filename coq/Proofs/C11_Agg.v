(* C11 proofs, part A: the compression aggregators return the weighted mean of the
   per-client quantised trees (translated tree_mean, via the C07 lemma tree_mean_is_wmean)
   and are within the largest per-client grid step of the exact weighted mean. *)
From Coq Require Import ZArith QArith Qabs Qround Qminmax List Bool Lia Lqa.
From FV Require Import Common.ListX Common.CMonoid Common.NanQ Common.QVec Common.WMean gen.Gen_tree_util
  Model.C07_Model Proofs.C07_Proofs Model.C11_Model Proofs.C11_Quant.
Import ListNotations.
Local Open Scope Q_scope.

Definition qtree := list (list Q).
Definition usq_tree_q (L : Z) (t : qtree) (us : list (list Q)) : qtree := map2 (fun leaf u => usq_q leaf L u) t us.

(* shapes: every leaf non-empty, one draw per coordinate *)
Definition draws_ok (t : qtree) (us : list (list Q)) : Prop :=
  Forall2 (fun leaf u => leaf <> [] /\ length u = length leaf) t us.

Lemma usq_tree_lift L t us : (2 <= L)%Z -> draws_ok t us ->
  usq_tree L (map lift t) us = map lift (usq_tree_q L t us).
Proof.
  intros HL H. unfold usq_tree, usq_tree_q. induction H as [|leaf u t us [Hne Hlen] _ IH]; [reflexivity|].
  cbn [map map2]. rewrite IH, usq_lift by assumption. reflexivity.
Qed.

Lemma concat_lift (t : qtree) : concat (map lift t) = lift (concat t).
Proof. unfold lift. symmetry. apply concat_map. Qed.

Lemma usq_tree_q_length L t us : draws_ok t us -> length (concat (usq_tree_q L t us)) = length (concat t).
Proof.
  intros H. unfold usq_tree_q. induction H as [|leaf u t us [Hne Hlen] _ IH]; [reflexivity|].
  cbn [map2 concat]. rewrite !app_length, IH, usq_q_length by exact Hlen. reflexivity.
Qed.

(* the quantised clients at Q level *)
Definition usq_clients_q (L : Z) (cl : list (qtree * Q)) (us : list (list (list Q))) : list (list Q * Q) :=
  map2 (fun c u => (concat (usq_tree_q L (fst c) u), snd c)) cl us.

Definition clients_ok (n : nat) (cl : list (qtree * Q)) (us : list (list (list Q))) : Prop :=
  Forall2 (fun c u => draws_ok (fst c) u /\ length (concat (fst c)) = n) cl us.

Lemma usq_agg_lift L cl us n : (2 <= L)%Z -> clients_ok n cl us ->
  usq_agg L (lift_clients cl) us = tree_mean (map lift_client (usq_clients_q L cl us)).
Proof.
  intros HL H. unfold usq_agg, aggregate, usq_clients_q, lift_clients. f_equal.
  induction H as [|c u cl us [Hd Hn] _ IH]; [reflexivity|].
  cbn [map map2 fst snd]. rewrite IH. f_equal.
  unfold lift_client. cbn [fst snd]. rewrite usq_tree_lift, concat_lift by assumption. reflexivity.
Qed.

Lemma usq_clients_q_wf L cl us n : clients_ok n cl us -> wfc n (usq_clients_q L cl us).
Proof.
  intros H. unfold wfc, usq_clients_q. induction H as [|c u cl us [Hd Hn] _ IH]; [constructor|].
  cbn [map2]. constructor; [|exact IH]. cbn [fst]. rewrite usq_tree_q_length by exact Hd. exact Hn.
Qed.

(* aggregate = weighted mean of the per-client quantised trees; in particular finite *)
Theorem usq_agg_is_wmean L cl us n : (2 <= L)%Z -> cl <> [] -> clients_ok n cl us ->
  exists v, usq_agg L (lift_clients cl) us = Some (vlift v) /\
            v =v= wmean_batch n (map swap (usq_clients_q L cl us)).
Proof.
  intros HL Hne H. rewrite (usq_agg_lift L cl us n HL H).
  apply tree_mean_is_wmean; [|apply usq_clients_q_wf, H].
  destruct H; [congruence|]. unfold usq_clients_q. cbn [map2]. discriminate.
Qed.

(* per-leaf and per-tree error of the quantisation *)
Lemma usq_q_close leaf L u e : leaf <> [] -> (2 <= L)%Z -> length u = length leaf ->
  step_of (qmin leaf) (qmax leaf) L <= e -> vclose e leaf (usq_q leaf L u).
Proof.
  intros Hne HL Hu He. apply vclose_nth_iff. split; [symmetry; apply usq_q_length, Hu|].
  intros i Hi. unfold vnth.
  destruct (usq_coord_spec leaf L i Hne HL Hi) as (kf & kc & t & K1 & K2 & K3 & Ht & Hx & _ & _ & _ & Hout).
  destruct (Hout u Hu) as (out & E & Hlen & O1 & O2).
  assert (Eo : out = usq_q leaf L u).
  { rewrite usq_lift in E by assumption. unfold lift in E.
    apply (f_equal (map (fun o => match o with Some q => q | None => 0 end))) in E.
    rewrite !map_map in E. cbn beta iota in E. rewrite !map_id in E. symmetry. exact E. }
  subst out.
  assert (Hy : nth i (usq_q leaf L u) 0 == lvl (qmin leaf) (qmax leaf) L kf \/
               nth i (usq_q leaf L u) 0 == lvl (qmin leaf) (qmax leaf) L kc).
  { destruct (Qlt_le_dec t (nth i u 0)) as [H|H]; [left; apply O1, H|right; apply O2, H]. }
  destruct (usq_coord_bounds leaf L i kf kc _ Hne HL K1 K2 K3 Hx Hy) as [_ Hb]. lra.
Qed.

Definition steps_le (L : Z) (e : Q) (t : qtree) : Prop :=
  Forall (fun leaf => step_of (qmin leaf) (qmax leaf) L <= e) t.

Lemma usq_tree_q_close L t us e : (2 <= L)%Z -> draws_ok t us -> steps_le L e t ->
  vclose e (concat t) (concat (usq_tree_q L t us)).
Proof.
  intros HL H. unfold usq_tree_q, steps_le. induction H as [|leaf u t us [Hne Hlen] _ IH]; intros Hs; [constructor|].
  inversion Hs; subst. cbn [map2 concat]. apply Forall2_app; [apply usq_q_close; assumption|apply IH; assumption].
Qed.

(* the aggregate is coordinate-wise within e of the exact weighted mean, e = any bound on
   the per-client per-leaf grid steps (max - min) / (L - 1) *)
Theorem usq_agg_error_bound L cl us n e : (2 <= L)%Z -> cl <> [] -> clients_ok n cl us -> 0 <= e ->
  Forall (fun c => 0 <= snd c /\ steps_le L e (fst c)) cl ->
  exists v, usq_agg L (lift_clients cl) us = Some (vlift v) /\
    vclose e (wmean_batch n (map (fun c => (snd c, concat (fst c))) cl)) v.
Proof.
  intros HL Hne H He Hc.
  destruct (usq_agg_is_wmean L cl us n HL Hne H) as (v & Hv & Ev). exists v. split; [exact Hv|].
  assert (B : vclose e (wmean_batch n (map (fun c => (snd c, concat (fst c))) cl))
                       (wmean_batch n (map swap (usq_clients_q L cl us)))).
  { apply wmean_error_bound; [| |exact He|].
    - unfold wf_clients. apply Forall_map. clear -H. induction H as [|c u cl us [_ Hn] _ IH]; constructor; [exact Hn|exact IH].
    - apply wf_swap, usq_clients_q_wf, H.
    - unfold usq_clients_q. clear Hne Hv Ev v. induction H as [|c u cl us [Hd Hn] _ IH]; [constructor|].
      inversion Hc; subst. destruct H1 as [Hw Hs]. cbn [map map2]. constructor; [|apply IH; assumption].
      cbn [fst snd swap]. split; [reflexivity|]. split; [exact Hw|]. apply usq_tree_q_close; assumption. }
  (* transport along v =v= ... *)
  apply vclose_nth_iff in B. destruct B as [Bl Bn]. apply vclose_nth_iff.
  pose proof (veq_length _ _ Ev) as Lv. split; [lia|].
  intros i Hi. apply veq_nth_iff in Ev. destruct Ev as [_ Ev]. rewrite (Ev i) by lia. apply Bn, Hi.
Qed.

(* ---------- any quantiser with finite per-client trees (incl. the rotated pipelines) ---------- *)
Lemma aggregate_finite_is_wmean (qcl : list (qtree * Q)) n : qcl <> [] ->
  Forall (fun c => length (concat (fst c)) = n) qcl ->
  exists v, aggregate (lift_clients qcl) = Some (vlift v) /\
            v =v= wmean_batch n (map (fun c => (snd c, concat (fst c))) qcl).
Proof.
  intros Hne Hn. unfold aggregate, lift_clients. rewrite map_map. cbn [fst snd].
  match goal with |- context [tree_mean ?l] =>
    assert (E : l = map lift_client (map (fun c : list (list Q) * Q => (concat (fst c), snd c)) qcl)) end.
  { rewrite map_map. apply map_ext. intros c. unfold lift_client. cbn [fst snd]. rewrite concat_lift. reflexivity. }
  rewrite E. destruct (tree_mean_is_wmean n (map (fun c => (concat (fst c), snd c)) qcl)) as (v & Hv & Ev).
  - destruct qcl; [congruence|discriminate].
  - unfold wfc. apply Forall_map. exact Hn.
  - exists v. split; [exact Hv|]. rewrite map_map in Ev. exact Ev.
Qed.

Lemma all_some_inv {A} : forall (l : list (option A)) r, all_some l = Some r -> l = map Some r.
Proof.
  induction l as [|a l IH]; intros r H; [cbn in H; injection H as <-; reflexivity|].
  change (all_some (a :: l)) with (match a, all_some l with Some x, Some r => Some (x :: r) | _, _ => None end) in H.
  destruct a as [x|]; [|discriminate]. destruct (all_some l) as [r'|] eqn:E; [|discriminate].
  injection H as <-. cbn [map]. f_equal. apply IH. reflexivity.
Qed.

(* the rotated pipelines return finite leaves whenever they are defined, and the rotated
   aggregators are `aggregate` of the per-client pipeline results *)
Lemma through_rotation_finite f s x y : through_rotation f s x = Some y -> exists yq, y = lift yq.
Proof.
  unfold through_rotation. destruct (lower x); [|discriminate]. destruct (qrot s l); [|discriminate].
  destruct (lower (f (lift l0))); [|discriminate]. destruct (qinv s l1 _) as [w|]; [|discriminate].
  cbn [option_map]. intros H. injection H as <-. exists w. reflexivity.
Qed.

Lemma drive_agg_unfold signs cl q :
  all_some (map2 (fun c s => option_map (fun t => (t, snd c)) (drive_tree s (fst c))) cl signs) = Some q ->
  drive_agg signs cl = aggregate q.
Proof. intros H. unfold drive_agg. rewrite H. reflexivity. Qed.
Lemma rusq_agg_unfold L signs cl us q :
  all_some (map2 (fun c u => option_map (fun t => (t, snd c)) (rusq_tree L signs (fst c) u)) cl us) = Some q ->
  rusq_agg L signs cl us = aggregate q.
Proof. intros H. unfold rusq_agg. rewrite H. reflexivity. Qed.

(* ---------- TernGrad aggregator ---------- *)
Definition tleaf := (list Q * list Q * Q)%type.      (* leaf, its draws, its sigma *)
Definition tl_leaf (x : tleaf) : list Q := fst (fst x).
Definition tl_u (x : tleaf) : list Q := snd (fst x).
Definition tl_s (x : tleaf) : Q := snd x.
Definition tclient := (list tleaf * Q)%type.
Definition tern_leaf_q (x : tleaf) : list Q := tern_q (tl_s x) (tl_leaf x) (tl_u x).
Definition tern_leaf_clipped (x : tleaf) : list Q := map (tern_clipped_q (tl_s x)) (tl_leaf x).
Definition tern_leaf_s (x : tleaf) : Q := qmax (map Qabs (tern_leaf_clipped x)).
Definition tclient_ok (n : nat) (c : tclient) : Prop :=
  Forall (fun x => tl_leaf x <> [] /\ length (tl_u x) = length (tl_leaf x)) (fst c) /\
  length (concat (map tl_leaf (fst c))) = n.

Lemma map2_combine_same {A B C D E} (F : B * C -> D -> E) (a : A -> B) (b : A -> C) (c : A -> D) (l : list A) :
  map2 F (combine (map a l) (map b l)) (map c l) = map (fun x => F (a x, b x) (c x)) l.
Proof. induction l as [|x l IH]; cbn; [reflexivity|]. f_equal. exact IH. Qed.

Lemma tern_q_length sigma v u : length u = length v -> length (tern_q sigma v u) = length v.
Proof. intros H. unfold tern_q. rewrite map2_length, map_length. lia. Qed.

(* |q - clipped| <= s: the output is 0 or s * sign, the clipped value lies between *)
Lemma tern_q_close sigma v u : v <> [] -> length u = length v ->
  vclose (qmax (map Qabs (map (tern_clipped_q sigma) v))) (map (tern_clipped_q sigma) v) (tern_q sigma v u).
Proof.
  intros Hne Hu. apply vclose_nth_iff. rewrite map_length. split; [symmetry; apply tern_q_length, Hu|].
  intros i Hi. unfold vnth.
  destruct (tern_coord_spec sigma v i Hne Hi) as (Hs & Hx & t & Ht & Hts & Hout).
  destruct (Hout u Hu) as (out & E & Hlen & O1 & O2).
  assert (Eo : out = tern_q sigma v u).
  { rewrite tern_lift in E by assumption. unfold lift in E.
    apply (f_equal (map (fun o => match o with Some q => q | None => 0 end))) in E.
    rewrite !map_map in E. cbn beta iota in E. rewrite !map_id in E. symmetry. exact E. }
  subst out. set (vc := map (tern_clipped_q sigma) v) in *. set (s := qmax (map Qabs vc)) in *.
  set (xc := nth i vc 0) in *.
  pose proof (qsign_abs xc) as Hsa.
  destruct (Qlt_le_dec (nth i u 0) t) as [H|H].
  - rewrite (O2 H).
    destruct (Q_dec xc 0) as [[Hn|Hp]|Hz].
    + rewrite (proj2 (proj2 (qsign_spec xc)) Hn) in *. rewrite Qabs_neg in Hx by lra. apply Qabs_case; intros; lra.
    + rewrite (proj1 (qsign_spec xc) Hp) in *. rewrite Qabs_pos in Hx by lra. apply Qabs_case; intros; lra.
    + rewrite (proj1 (proj2 (qsign_spec xc)) Hz) in *. apply Qabs_case; intros; lra.
  - rewrite (O1 H). revert Hx. apply Qabs_case; intros; apply Qabs_case; intros; lra.
Qed.

Lemma vclose_mono e e' a b : e <= e' -> vclose e a b -> vclose e' a b.
Proof. intros He H. induction H as [|x y a b Hxy _ IH]; constructor; [lra|exact IH]. Qed.

Definition tern_client_q (c : tclient) : list Q * Q := (concat (map tern_leaf_q (fst c)), snd c).
Definition tern_client_ref (c : tclient) : Q * list Q := (snd c, concat (map tern_leaf_clipped (fst c))).

Lemma tern_tree_lift (ls : list tleaf) : Forall (fun x => tl_leaf x <> [] /\ length (tl_u x) = length (tl_leaf x)) ls ->
  tern_tree (map tl_s ls) (map lift (map tl_leaf ls)) (map tl_u ls) = map lift (map tern_leaf_q ls).
Proof.
  intros H. unfold tern_tree. rewrite (map_map tl_leaf lift).
  rewrite (map2_combine_same (fun lu sg => tern sg (fst lu) (snd lu)) (fun x => lift (tl_leaf x)) tl_u tl_s).
  rewrite map_map. apply map_ext_in. intros x Hx. rewrite Forall_forall in H. destruct (H x Hx) as [Hne _].
  cbn [fst snd]. apply tern_lift, Hne.
Qed.

(* TernGrad aggregator = weighted mean of the per-client ternarised trees, coordinate-wise
   within e of the weighted mean of the CLIPPED inputs, e bounding every leaf's level s *)
Theorem tern_agg_spec n e (cl : list tclient) : cl <> [] -> Forall (tclient_ok n) cl -> 0 <= e ->
  Forall (fun c => 0 <= snd c /\ Forall (fun x => tern_leaf_s x <= e) (fst c)) cl ->
  exists v,
    tern_agg (lift_clients (map (fun c => (map tl_leaf (fst c), snd c)) cl))
             (map (fun c => map tl_s (fst c)) cl) (map (fun c => map tl_u (fst c)) cl) = Some (vlift v) /\
    v =v= wmean_batch n (map swap (map tern_client_q cl)) /\
    vclose e (wmean_batch n (map tern_client_ref cl)) v.
Proof.
  intros Hne Hok He Hc.
  assert (E : tern_agg (lift_clients (map (fun c => (map tl_leaf (fst c), snd c)) cl))
                (map (fun c => map tl_s (fst c)) cl) (map (fun c => map tl_u (fst c)) cl)
              = tree_mean (map lift_client (map tern_client_q cl))).
  { unfold tern_agg, aggregate, lift_clients. rewrite map_map.
    cbn [fst snd].
    rewrite (map2_combine_same (fun cu sg => (tern_tree sg (fst (fst cu)) (snd cu), snd (fst cu)))
              (fun c : tclient => (map lift (map tl_leaf (fst c)), Some (snd c)))
              (fun c => map tl_u (fst c)) (fun c => map tl_s (fst c))).
    rewrite !map_map. f_equal. apply map_ext_in. intros c Hin. cbn [fst snd].
    rewrite Forall_forall in Hok. destruct (Hok c Hin) as [Hl _].
    rewrite tern_tree_lift by exact Hl. unfold lift_client, tern_client_q. cbn [fst snd].
    rewrite concat_lift. reflexivity. }
  assert (Wq : wfc n (map tern_client_q cl)).
  { unfold wfc. apply Forall_map. eapply Forall_impl; [|exact Hok]. intros c [Hl Hn]. unfold tern_client_q. cbn [fst].
    rewrite <- Hn. clear Hn. induction Hl as [|x ls [_ Hu] _ IH]; [reflexivity|].
    cbn [map concat]. rewrite !app_length, IH. unfold tern_leaf_q. rewrite tern_q_length by exact Hu. reflexivity. }
  destruct (tree_mean_is_wmean n (map tern_client_q cl)) as (v & Hv & Ev); [destruct cl; [congruence|discriminate]|exact Wq|].
  exists v. rewrite E. split; [exact Hv|]. split; [exact Ev|].
  assert (B : vclose e (wmean_batch n (map tern_client_ref cl)) (wmean_batch n (map swap (map tern_client_q cl)))).
  { apply wmean_error_bound; [| |exact He|].
    - unfold wf_clients. apply Forall_map. eapply Forall_impl; [|exact Hok]. intros c [Hl Hn]. unfold tern_client_ref. cbn [snd].
      rewrite <- Hn. clear. induction (fst c) as [|x ls IH]; [reflexivity|]. cbn [map concat]. rewrite !app_length, IH.
      unfold tern_leaf_clipped. rewrite map_length. reflexivity.
    - apply wf_swap, Wq.
    - rewrite map_map. clear Hne E Wq Hv Ev v. induction cl as [|c cl IH]; [constructor|].
      inversion Hok; subst. inversion Hc; subst. destruct H1 as [Hl Hn]. destruct H3 as [Hw Hs].
      cbn [map]. constructor; [|apply IH; assumption].
      unfold tern_client_ref, tern_client_q, swap. cbn [fst snd]. split; [reflexivity|]. split; [exact Hw|].
      clear Hn. induction Hl as [|x ls [Hne Hu] _ IHl]; [constructor|].
      inversion Hs; subst. cbn [map concat]. apply Forall2_app; [|apply IHl; assumption].
      apply (vclose_mono (tern_leaf_s x)); [assumption|]. apply tern_q_close; assumption. }
  apply vclose_nth_iff in B. destruct B as [Bl Bn]. apply vclose_nth_iff.
  pose proof (veq_length _ _ Ev) as Lv. split; [lia|].
  intros i Hi. apply veq_nth_iff in Ev. destruct Ev as [_ Ev]. rewrite (Ev i) by lia. apply Bn, Hi.
Qed.
