(* C11 proofs, part A: the compression aggregators return the weighted mean of the
   per-client quantised trees (translated tree_mean, via the C07 lemma tree_mean_is_wmean)
   and are within the largest per-client grid step of the exact weighted mean. *)
From Coq Require Import ZArith QArith Qabs Qround Qminmax List Bool Lia Lqa.
From FV Require Import Common.ListX Common.CMonoid Common.NanQ Common.QVec Common.WMean gen.Gen_tree_util
  Model.C07_Model Proofs.C07_Proofs Model.C11_Model Proofs.C11_Quant.
Import ListNotations.
Local Open Scope Q_scope.

Definition qtree := list (list Q).
Definition usq_tree_q (L : Z) (t : qtree) (us : list (list Q)) : qtree := map2 (fun leaf u => usq_q leaf L u) t us.

(* shapes: every leaf non-empty, one draw per coordinate *)
Definition draws_ok (t : qtree) (us : list (list Q)) : Prop :=
  Forall2 (fun leaf u => leaf <> [] /\ length u = length leaf) t us.

Lemma usq_tree_lift L t us : (2 <= L)%Z -> draws_ok t us ->
  usq_tree L (map lift t) us = map lift (usq_tree_q L t us).
Proof.
  intros HL H. unfold usq_tree, usq_tree_q. induction H as [|leaf u t us [Hne Hlen] _ IH]; [reflexivity|].
  cbn [map map2]. rewrite IH, usq_lift by assumption. reflexivity.
Qed.

Lemma concat_lift (t : qtree) : concat (map lift t) = lift (concat t).
Proof. unfold lift. symmetry. apply concat_map. Qed.

Lemma usq_tree_q_length L t us : draws_ok t us -> length (concat (usq_tree_q L t us)) = length (concat t).
Proof.
  intros H. unfold usq_tree_q. induction H as [|leaf u t us [Hne Hlen] _ IH]; [reflexivity|].
  cbn [map2 concat]. rewrite !app_length, IH, usq_q_length by exact Hlen. reflexivity.
Qed.

(* the quantised clients at Q level *)
Definition usq_clients_q (L : Z) (cl : list (qtree * Q)) (us : list (list (list Q))) : list (list Q * Q) :=
  map2 (fun c u => (concat (usq_tree_q L (fst c) u), snd c)) cl us.

Definition clients_ok (n : nat) (cl : list (qtree * Q)) (us : list (list (list Q))) : Prop :=
  Forall2 (fun c u => draws_ok (fst c) u /\ length (concat (fst c)) = n) cl us.

Lemma usq_agg_lift L cl us n : (2 <= L)%Z -> clients_ok n cl us ->
  usq_agg L (lift_clients cl) us = tree_mean (map lift_client (usq_clients_q L cl us)).
Proof.
  intros HL H. unfold usq_agg, aggregate, usq_clients_q, lift_clients. f_equal.
  induction H as [|c u cl us [Hd Hn] _ IH]; [reflexivity|].
  cbn [map map2 fst snd]. rewrite IH. f_equal.
  unfold lift_client. cbn [fst snd]. rewrite usq_tree_lift, concat_lift by assumption. reflexivity.
Qed.

Lemma usq_clients_q_wf L cl us n : clients_ok n cl us -> wfc n (usq_clients_q L cl us).
Proof.
  intros H. unfold wfc, usq_clients_q. induction H as [|c u cl us [Hd Hn] _ IH]; [constructor|].
  cbn [map2]. constructor; [|exact IH]. cbn [fst]. rewrite usq_tree_q_length by exact Hd. exact Hn.
Qed.

(* aggregate = weighted mean of the per-client quantised trees; in particular finite *)
Theorem usq_agg_is_wmean L cl us n : (2 <= L)%Z -> cl <> [] -> clients_ok n cl us ->
  exists v, usq_agg L (lift_clients cl) us = Some (vlift v) /\
            v =v= wmean_batch n (map swap (usq_clients_q L cl us)).
Proof.
  intros HL Hne H. rewrite (usq_agg_lift L cl us n HL H).
  apply tree_mean_is_wmean; [|apply usq_clients_q_wf, H].
  destruct H; [congruence|]. unfold usq_clients_q. cbn [map2]. discriminate.
Qed.

(* per-leaf and per-tree error of the quantisation *)
Lemma usq_q_close leaf L u e : leaf <> [] -> (2 <= L)%Z -> length u = length leaf ->
  step_of (qmin leaf) (qmax leaf) L <= e -> vclose e leaf (usq_q leaf L u).
Proof.
  intros Hne HL Hu He. apply vclose_nth_iff. split; [symmetry; apply usq_q_length, Hu|].
  intros i Hi. unfold vnth.
  destruct (usq_coord_spec leaf L i Hne HL Hi) as (kf & kc & t & K1 & K2 & K3 & Ht & Hx & _ & _ & _ & Hout).
  destruct (Hout u Hu) as (out & E & Hlen & O1 & O2).
  assert (Eo : out = usq_q leaf L u).
  { rewrite usq_lift in E by assumption. unfold lift in E.
    apply (f_equal (map (fun o => match o with Some q => q | None => 0 end))) in E.
    rewrite !map_map in E. cbn beta iota in E. rewrite !map_id in E. symmetry. exact E. }
  subst out.
  assert (Hy : nth i (usq_q leaf L u) 0 == lvl (qmin leaf) (qmax leaf) L kf \/
               nth i (usq_q leaf L u) 0 == lvl (qmin leaf) (qmax leaf) L kc).
  { destruct (Qlt_le_dec t (nth i u 0)) as [H|H]; [left; apply O1, H|right; apply O2, H]. }
  destruct (usq_coord_bounds leaf L i kf kc _ Hne HL K1 K2 K3 Hx Hy) as [_ Hb]. lra.
Qed.

Definition steps_le (L : Z) (e : Q) (t : qtree) : Prop :=
  Forall (fun leaf => step_of (qmin leaf) (qmax leaf) L <= e) t.

Lemma usq_tree_q_close L t us e : (2 <= L)%Z -> draws_ok t us -> steps_le L e t ->
  vclose e (concat t) (concat (usq_tree_q L t us)).
Proof.
  intros HL H. unfold usq_tree_q, steps_le. induction H as [|leaf u t us [Hne Hlen] _ IH]; intros Hs; [constructor|].
  inversion Hs; subst. cbn [map2 concat]. apply Forall2_app; [apply usq_q_close; assumption|apply IH; assumption].
Qed.

(* the aggregate is coordinate-wise within e of the exact weighted mean, e = any bound on
   the per-client per-leaf grid steps (max - min) / (L - 1) *)
Theorem usq_agg_error_bound L cl us n e : (2 <= L)%Z -> cl <> [] -> clients_ok n cl us -> 0 <= e ->
  Forall (fun c => 0 <= snd c /\ steps_le L e (fst c)) cl ->
  exists v, usq_agg L (lift_clients cl) us = Some (vlift v) /\
    vclose e (wmean_batch n (map (fun c => (snd c, concat (fst c))) cl)) v.
Proof.
  intros HL Hne H He Hc.
  destruct (usq_agg_is_wmean L cl us n HL Hne H) as (v & Hv & Ev). exists v. split; [exact Hv|].
  assert (B : vclose e (wmean_batch n (map (fun c => (snd c, concat (fst c))) cl))
                       (wmean_batch n (map swap (usq_clients_q L cl us)))).
  { apply wmean_error_bound; [| |exact He|].
    - unfold wf_clients. apply Forall_map. clear -H. induction H as [|c u cl us [_ Hn] _ IH]; constructor; [exact Hn|exact IH].
    - apply wf_swap, usq_clients_q_wf, H.
    - unfold usq_clients_q. clear Hne Hv Ev v. induction H as [|c u cl us [Hd Hn] _ IH]; [constructor|].
      inversion Hc; subst. destruct H1 as [Hw Hs]. cbn [map map2]. constructor; [|apply IH; assumption].
      cbn [fst snd swap]. split; [reflexivity|]. split; [exact Hw|]. apply usq_tree_q_close; assumption. }
  (* transport along v =v= ... *)
  apply vclose_nth_iff in B. destruct B as [Bl Bn]. apply vclose_nth_iff.
  pose proof (veq_length _ _ Ev) as Lv. split; [lia|].
  intros i Hi. apply veq_nth_iff in Ev. destruct Ev as [_ Ev]. rewrite (Ev i) by lia. apply Bn, Hi.
Qed.
