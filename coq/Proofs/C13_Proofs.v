From Coq Require Import ZArith List Bool Lia Znumtheory Zpow_facts.
From FV Require Import Common.ListX gen.Gen_client_samplers Model.C13_Model.
Import ListNotations.
Local Open Scope Z_scope.

(* ------------------------------------------------------------------ *)
(* get_pseudo_random_state: the Lehmer step                             *)

Definition M31 : Z := 2147483647.
Lemma M31_eq : M31 = 2 ^ 31 - 1.
Proof. reflexivity. Qed.

(* the value handed to np.random.RandomState *)
Definition lehmer (start r : Z) : Z := ((16807 ^ r) mod M31 * start) mod M31.

Lemma gen_lehmer_spec (rs : Z -> Z -> Z -> Z) seed r :
  get_pseudo_random_state rs seed r = Some (lehmer (rs seed 1 (M31 - 1)) r).
Proof. reflexivity. Qed.

Lemma rel_prime_16807 : rel_prime 16807 M31.
Proof. apply Zgcd_1_rel_prime. vm_compute. reflexivity. Qed.

Lemma lehmer_range start r : 0 <= r -> 1 <= start < M31 - 1 ->
  0 <= (16807 ^ r) mod M31 < M31 /\
  0 <= (16807 ^ r) mod M31 * start < 2 ^ 62 /\
  1 <= lehmer start r < M31.
Proof.
  intros Hr Hs.
  assert (HM : 0 < M31) by reflexivity.
  assert (Hp : 0 <= (16807 ^ r) mod M31 < M31) by (apply Z.mod_pos_bound; exact HM).
  split; [exact Hp|]. split.
  - change (2 ^ 62) with 4611686018427387904. unfold M31 in *. nia.
  - unfold lehmer.
    assert (Hb : 0 <= ((16807 ^ r) mod M31 * start) mod M31 < M31) by (apply Z.mod_pos_bound; exact HM).
    split; [|lia].
    destruct (Z.eq_dec (((16807 ^ r) mod M31 * start) mod M31) 0) as [E|E]; [exfalso|lia].
    apply Z.mod_divide in E; [|unfold M31; lia].
    assert (Hrp : rel_prime M31 ((16807 ^ r) mod M31)).
    { apply rel_prime_sym. apply rel_prime_mod; [exact HM|].
      apply rel_prime_sym. apply rel_prime_Zpower_r; [exact Hr|].
      apply rel_prime_sym. exact rel_prime_16807. }
    apply (Gauss _ _ _ E) in Hrp.
    apply Z.divide_pos_le in Hrp; lia.
Qed.

(* the translated round-number updates *)
Lemma next_round_spec r : next_round r = r + 1.
Proof. reflexivity. Qed.
Lemma set_round_spec cur r : set_round cur r = r.
Proof. reflexivity. Qed.

(* ------------------------------------------------------------------ *)
(* keys                                                                 *)

Lemma NoDup_map_seq {X} (g : nat -> X) : (forall i j, g i = g j -> i = j) ->
  forall n a, NoDup (map g (seq a n)).
Proof.
  intros Hinj. induction n as [|n IH]; intros a; cbn [seq map]; constructor; [|apply IH].
  intros Hin. apply in_map_iff in Hin. destruct Hin as (j & Hj & Hin).
  apply Hinj in Hj. subst j. apply in_seq in Hin. lia.
Qed.

Lemma split_NoDup k n : NoDup (split k n).
Proof. unfold split. apply NoDup_map_seq. intros i j H. now injection H. Qed.

Lemma split_length k n : length (split k n) = Z.to_nat n.
Proof. unfold split. now rewrite map_length, seq_length. Qed.

Lemma split_roots_disjoint r r' n n' a b :
  r <> r' -> In a (split (KRoot r) n) -> In b (split (KRoot r') n') -> a <> b.
Proof.
  unfold split. intros Hr Ha Hb. apply in_map_iff in Ha, Hb.
  destruct Ha as (i & <- & _). destruct Hb as (j & <- & _). intros E. injection E as E _ _. contradiction.
Qed.

(* ------------------------------------------------------------------ *)
(* key paths are prefix-free                                            *)

(* a is a proper ancestor of b in the split tree: b was derived from a by >= 1 splits *)
Fixpoint ancestor (a b : kpath) : Prop :=
  match b with
  | KRoot _ => False
  | KSplit p _ _ => a = p \/ ancestor a p
  end.

Lemma split_root_prefix_free r n r' n' a b :
  In a (split (KRoot r) n) -> In b (split (KRoot r') n') -> ~ ancestor a b /\ ~ ancestor b a.
Proof.
  unfold split. intros Ha Hb. apply in_map_iff in Ha, Hb.
  destruct Ha as (i & <- & _). destruct Hb as (j & <- & _). cbn.
  split; intros [H|H]; (discriminate || contradiction).
Qed.

(* ------------------------------------------------------------------ *)
(* UniformGetClientSampler                                              *)

Section GetProofs.
Context {Id D : Type}.
Variable id_eqb : Id -> Id -> bool.
Variable rs_randint : Z -> Z -> Z -> Z.
Variable choice : Z -> list Id -> Z -> list Id.
Variable fd : list (Id * D).
Variable n : Z.
Variable seed : Z.

(* decidable identity of client ids (python bytes equality) *)
Hypothesis id_eqb_eq : forall x y, id_eqb x y = true <-> x = y.
(* NumPy contract of choice(a, size=n, replace=False) *)
Hypothesis choice_length : forall s ids, 0 <= n <= Z.of_nat (length ids) -> length (choice s ids n) = Z.to_nat n.
Hypothesis choice_incl : forall s ids, incl (choice s ids n) ids.
Hypothesis choice_NoDup : forall s ids, NoDup ids -> NoDup (choice s ids n).

Notation prs := (get_pseudo_random_state rs_randint).
Notation sample_at := (sample_at id_eqb prs choice fd n seed).
Notation outputs := (outputs id_eqb prs choice fd n seed).
Notation state_after := (state_after id_eqb prs choice fd n seed).
Notation gstep := (gstep id_eqb prs choice fd n seed).

Lemma lookup_In id : In id (map fst fd) -> exists d, lookup id_eqb id fd = Some d /\ In (id, d) fd.
Proof.
  induction fd as [|[i d] l IH]; cbn [map fst lookup In]; [tauto|]. intros H.
  destruct (id_eqb id i) eqn:E.
  - apply id_eqb_eq in E. subst i. exists d. auto.
  - destruct H as [H|H].
    + exfalso. assert (T : id_eqb id i = true) by (apply id_eqb_eq; auto). congruence.
    + destruct (IH H) as (d' & H1 & H2). exists d'. auto.
Qed.

Lemma get_clients_ok ids : incl ids (map fst fd) ->
  exists cl, get_clients id_eqb fd ids = Some cl /\ map fst cl = ids /\ incl cl fd.
Proof.
  induction ids as [|id ids IH]; intros Hin; cbn [get_clients].
  - exists []. repeat split. intros x [].
  - destruct (lookup_In id) as (d & -> & Hd); [apply Hin; left; reflexivity|].
    destruct IH as (cl & -> & Hm & Hi); [intros x Hx; apply Hin; right; exact Hx|].
    exists ((id, d) :: cl). split; [reflexivity|]. split; [cbn; now rewrite Hm|].
    intros x [<-|Hx]; auto.
Qed.

(* sample() at round r succeeds, returns exactly num_clients distinct clients of the
   dataset, each with its own id and dataset, and the keys split(PRNGKey(r), n) *)
Lemma sample_at_spec r : 0 <= n <= Z.of_nat (length fd) -> NoDup (map fst fd) ->
  exists cl, sample_at r = Some (combine cl (split (KRoot r) n)) /\
    length cl = Z.to_nat n /\
    map fst cl = choice (lehmer (rs_randint seed 1 (M31 - 1)) r) (map fst fd) n /\
    NoDup (map fst cl) /\ incl cl fd.
Proof.
  intros Hn Hnd. unfold C13_Model.sample_at. rewrite gen_lehmer_spec.
  set (s := lehmer _ r).
  destruct (get_clients_ok (choice s (map fst fd) n)) as (cl & -> & Hm & Hi); [apply choice_incl|].
  exists cl. split; [reflexivity|]. split; [|split; [exact Hm|split; [|exact Hi]]].
  - rewrite <- (map_length fst cl), Hm. apply choice_length. now rewrite map_length.
  - rewrite Hm. apply choice_NoDup. exact Hnd.
Qed.

Lemma map_fst_combine {X Y} (l : list X) (l' : list Y) : length l = length l' -> map fst (combine l l') = l.
Proof. revert l'; induction l as [|x l IH]; intros [|y l'] H; cbn in *; try lia; [reflexivity|]. f_equal. apply IH. lia. Qed.
Lemma map_snd_combine {X Y} (l : list X) (l' : list Y) : length l = length l' -> map snd (combine l l') = l'.
Proof. revert l'; induction l as [|x l IH]; intros [|y l'] H; cbn in *; try lia; [reflexivity|]. f_equal. apply IH. lia. Qed.

Lemma sample_no_repeat_subset r : 0 <= n <= Z.of_nat (length fd) -> NoDup (map fst fd) ->
  exists out, sample_at r = Some out /\
    length out = Z.to_nat n /\
    NoDup (map (fun x => fst (fst x)) out) /\
    (forall id d k, In (id, d, k) out -> In (id, d) fd) /\
    map (fun x => fst (fst x)) out = choice (lehmer (rs_randint seed 1 (M31 - 1)) r) (map fst fd) n /\
    map snd out = split (KRoot r) n.
Proof.
  intros Hn Hnd. destruct (sample_at_spec r Hn Hnd) as (cl & -> & Hl & Hm & Hd & Hi).
  assert (Hlen : length cl = length (split (KRoot r) n)) by now rewrite split_length.
  eexists; split; [reflexivity|].
  assert (Hf : map (fun x : Id * D * kpath => fst (fst x)) (combine cl (split (KRoot r) n)) = map fst cl).
  { rewrite <- (map_map fst fst). now rewrite map_fst_combine. }
  split; [rewrite combine_length, <- Hlen; lia|]. split; [now rewrite Hf|]. split; [|split].
  - intros id d k Hin. apply in_combine_l in Hin. apply Hi. exact Hin.
  - now rewrite Hf.
  - now apply map_snd_combine.
Qed.

(* keys: pairwise distinct within a round, and no key of one round occurs in another *)
Lemma sample_keys r r' out out' : 0 <= n <= Z.of_nat (length fd) -> NoDup (map fst fd) ->
  sample_at r = Some out -> sample_at r' = Some out' ->
  NoDup (map snd out) /\
  (r = r' -> map snd out = map snd out') /\
  (r <> r' -> forall k k', In k (map snd out) -> In k' (map snd out') -> k <> k').
Proof.
  intros Hn Hnd E E'.
  destruct (sample_no_repeat_subset r Hn Hnd) as (o & Eo & _ & _ & _ & _ & Hk).
  destruct (sample_no_repeat_subset r' Hn Hnd) as (o' & Eo' & _ & _ & _ & _ & Hk').
  rewrite E in Eo. injection Eo as <-. rewrite E' in Eo'. injection Eo' as <-.
  rewrite Hk, Hk'. split; [apply split_NoDup|]. split.
  - intros <-. reflexivity.
  - intros Hr k k'. apply split_roots_disjoint. exact Hr.
Qed.

(* no key handed out in any round is derived from (is an ancestor of) another one *)
Lemma sample_keys_prefix_free r r' out out' : 0 <= n <= Z.of_nat (length fd) -> NoDup (map fst fd) ->
  sample_at r = Some out -> sample_at r' = Some out' ->
  forall k k', In k (map snd out) -> In k' (map snd out') -> ~ ancestor k k' /\ ~ ancestor k' k.
Proof.
  intros Hn Hnd E E'.
  destruct (sample_no_repeat_subset r Hn Hnd) as (o & Eo & _ & _ & _ & _ & Hk).
  destruct (sample_no_repeat_subset r' Hn Hnd) as (o' & Eo' & _ & _ & _ & _ & Hk').
  rewrite E in Eo. injection Eo as <-. rewrite E' in Eo'. injection Eo' as <-.
  rewrite Hk, Hk'. intros k k'. apply split_root_prefix_free.
Qed.

(* ---- histories ---- *)

Lemma outputs_app h1 h2 st : outputs (h1 ++ h2) st = outputs h1 st ++ outputs h2 (state_after h1 st).
Proof.
  revert st; induction h1 as [|o h1 IH]; intros st; cbn [app C13_Model.outputs C13_Model.state_after]; [reflexivity|].
  rewrite IH, app_assoc. reflexivity.
Qed.

Lemma state_after_app h1 h2 st : state_after (h1 ++ h2) st = state_after h2 (state_after h1 st).
Proof. revert st; induction h1 as [|o h1 IH]; intros st; cbn [app C13_Model.state_after]; auto. Qed.

Lemma state_after_set_round h r st : state_after (h ++ [SetRound r]) st = r.
Proof. rewrite state_after_app. reflexivity. Qed.

Section WithContract.
Hypothesis Hn : 0 <= n <= Z.of_nat (length fd).
Hypothesis Hnd : NoDup (map fst fd).

Lemma samples_from k : forall r,
  outputs (repeat Sample k) r = map (fun j => sample_at (r + Z.of_nat j)) (seq 0 k) /\
  state_after (repeat Sample k) r = r + Z.of_nat k.
Proof.
  induction k as [|k IH]; intros r; cbn [repeat C13_Model.outputs C13_Model.state_after seq map].
  - split; [reflexivity|lia].
  - destruct (sample_at_spec r Hn Hnd) as (cl & E & _).
    unfold C13_Model.gstep. rewrite E. cbn [fst snd app]. rewrite next_round_spec.
    destruct (IH (r + 1)) as [I1 I2]. rewrite I1, I2. split.
    + f_equal; [rewrite Z.add_0_r; exact (eq_sym E)|].
      rewrite <- seq_shift, map_map. apply map_ext. intros j. f_equal. lia.
    + lia.
Qed.

(* the j-th sample after `SetRound r` is F(seed, r + j), whatever happened before *)
Lemma history_independent h st r k :
  outputs (h ++ SetRound r :: repeat Sample k) st =
  outputs h st ++ map (fun j => sample_at (r + Z.of_nat j)) (seq 0 k).
Proof.
  rewrite outputs_app. f_equal. cbn [C13_Model.outputs C13_Model.gstep fst snd app].
  rewrite set_round_spec. apply samples_from.
Qed.

(* without any SetRound: the constructor's start_round_num plays the same role *)
Lemma from_start_round r k : outputs (repeat Sample k) r = map (fun j => sample_at (r + Z.of_nat j)) (seq 0 k).
Proof. apply samples_from. Qed.

(* a sampler constructed at (or seated by set_round_num at) round r + j reproduces the
   rest of a run that started at round r *)
Lemma restart_reproduces r j k :
  outputs (repeat Sample (j + k)) r =
  outputs (repeat Sample j) r ++ outputs (repeat Sample k) (r + Z.of_nat j).
Proof.
  rewrite repeat_app, outputs_app. f_equal. f_equal. apply samples_from.
Qed.

Lemma restart_by_set_round h st r k :
  outputs (h ++ SetRound r :: repeat Sample k) st = outputs h st ++ outputs (repeat Sample k) r.
Proof. rewrite history_independent, from_start_round. reflexivity. Qed.
End WithContract.
End GetProofs.

(* ------------------------------------------------------------------ *)
(* UniformShuffledClientSampler                                         *)

Section StreamProofs.
Context {C : Type}.
Variable stream : nat -> C.
Variable n : Z.

Notation s_init := (s_init n).
Notation s_sample := (s_sample stream n).
Notation s_outputs := (s_outputs stream n).

Lemma advance_spec c pos : advance c pos = (pos + c)%nat.
Proof. revert pos; induction c as [|c IH]; intros pos; cbn [advance]; [lia|]. rewrite IH. lia. Qed.

Lemma iter_advance a c : Nat.iter a (advance c) 0%nat = (a * c)%nat.
Proof.
  induction a as [|a IH]; [reflexivity|].
  change (Nat.iter (S a) (advance c) 0%nat) with (advance c (Nat.iter a (advance c) 0%nat)).
  rewrite IH, advance_spec. lia.
Qed.

Lemma s_init_spec start : s_init start = ((Z.to_nat start * Z.to_nat n)%nat, start).
Proof. unfold C13_Model.s_init. now rewrite iter_advance. Qed.

Lemma take_spec (g : nat -> kpath) : forall c pos a,
  take stream c pos (map g (seq a c)) = map (fun i => (stream (pos + i)%nat, g (a + i)%nat)) (seq 0 c).
Proof.
  induction c as [|c IH]; intros pos a; cbn [take seq map]; [reflexivity|].
  rewrite IH. rewrite !Nat.add_0_r. f_equal.
  rewrite <- (seq_shift c 0), map_map. apply map_ext. intros i. f_equal; f_equal; lia.
Qed.

(* one round of the streaming sampler, in closed form *)
Definition s_round (pos : nat) (r : Z) : list (C * kpath) :=
  map (fun i => (stream (pos + i)%nat, KSplit (KRoot r) n i)) (seq 0 (Z.to_nat n)).

Lemma s_sample_spec pos r : s_sample (pos, r) = (s_round pos r, ((pos + Z.to_nat n)%nat, r + 1)).
Proof.
  unfold C13_Model.s_sample, s_round, split. rewrite take_spec, advance_spec. reflexivity.
Qed.

Lemma s_outputs_spec k : forall pos r,
  s_outputs k (pos, r) = map (fun j => s_round (pos + j * Z.to_nat n)%nat (r + Z.of_nat j)) (seq 0 k).
Proof.
  induction k as [|k IH]; intros pos r; cbn [C13_Model.s_outputs seq map]; [reflexivity|].
  rewrite s_sample_spec, IH. f_equal.
  - f_equal; [lia|]. lia.
  - rewrite <- (seq_shift k 0), map_map. apply map_ext. intros j. f_equal; lia.
Qed.

Lemma seq_as_map a k : seq a k = map (Nat.add a) (seq 0 k).
Proof.
  revert a; induction k as [|k IH]; intros a; cbn [seq map]; [reflexivity|].
  f_equal; [lia|]. rewrite (IH (S a)), <- (seq_shift k 0), map_map. apply map_ext. intros; lia.
Qed.

(* the sampler started at round `start` reproduces rounds start, start+1, ... of the
   sampler started at round 0 over the same stream *)
Lemma streaming_restart start k : 0 <= start ->
  s_outputs k (s_init start) = skipn (Z.to_nat start) (s_outputs (Z.to_nat start + k) (s_init 0)).
Proof.
  intros Hs. rewrite !s_init_spec, !s_outputs_spec. cbn [Z.to_nat Nat.mul].
  rewrite seq_app, map_app. rewrite skipn_app, map_length, seq_length, Nat.sub_diag. cbn [skipn].
  rewrite skipn_all2 by (rewrite map_length, seq_length; lia). cbn [app].
  rewrite (seq_as_map (0 + Z.to_nat start) k). rewrite map_map. apply map_ext. intros j. f_equal; lia.
Qed.
End StreamProofs.

(* ------------------------------------------------------------------ *)
(* statements used verbatim by Props/C13.v                              *)

Lemma lehmer_no_overflow : forall (rs_randint : Z -> Z -> Z -> Z) seed r,
  (forall s a b, a < b -> a <= rs_randint s a b < b) ->
  0 <= r ->
  let start := rs_randint seed 1 (2 ^ 31 - 1 - 1) in
  get_pseudo_random_state rs_randint seed r = Some (lehmer start r) /\
  0 <= (16807 ^ r) mod (2 ^ 31 - 1) < 2 ^ 31 - 1 /\
  0 <= (16807 ^ r) mod (2 ^ 31 - 1) * start < 2 ^ 62 /\
  1 <= lehmer start r < 2 ^ 31 - 1.
Proof.
  intros rs seed r Hrs Hr start.
  split; [exact (gen_lehmer_spec rs seed r)|].
  exact (lehmer_range start r Hr (Hrs seed 1 (2 ^ 31 - 1 - 1) ltac:(reflexivity))).
Qed.

Lemma streaming_rounds {C} (stream : nat -> C) (n start : Z) (k : nat) :
  s_outputs stream n k (s_init n start) =
  map (fun j => map (fun i => (stream ((Z.to_nat start + j) * Z.to_nat n + i)%nat,
                               KSplit (KRoot (start + Z.of_nat j)) n i)) (seq 0 (Z.to_nat n)))
      (seq 0 k).
Proof.
  rewrite s_init_spec, s_outputs_spec. apply map_ext. intros j.
  unfold s_round. apply map_ext. intros i. f_equal. f_equal. lia.
Qed.

(* the NumPy contract of `choice` is satisfiable: "the first n ids" *)
Lemma firstn_In' {X} (x : X) k l : In x (firstn k l) -> In x l.
Proof. revert l; induction k as [|k IH]; intros [|y l] H; cbn in *; try contradiction. destruct H; auto. Qed.

Lemma firstn_NoDup' {X} k (l : list X) : NoDup l -> NoDup (firstn k l).
Proof.
  revert l; induction k as [|k IH]; intros l H; cbn; [constructor|].
  destruct H as [|x l Hx Hl]; constructor; [|apply IH; exact Hl].
  intros Hin. apply Hx. eapply firstn_In'; exact Hin.
Qed.

Lemma choice_firstn_contract (n : Z) :
  let ch := fun (_ : Z) (ids : list Z) (n : Z) => firstn (Z.to_nat n) ids in
  (forall s ids, 0 <= n <= Z.of_nat (length ids) -> length (ch s ids n) = Z.to_nat n) /\
  (forall s ids, incl (ch s ids n) ids) /\
  (forall s (ids : list Z), NoDup ids -> NoDup (ch s ids n)).
Proof.
  cbv zeta. split; [|split].
  - intros s ids H. rewrite firstn_length. apply Nat.min_l. lia.
  - intros s ids x Hx. eapply firstn_In'; exact Hx.
  - intros s ids H. apply firstn_NoDup'. exact H.
Qed.

(* ------------------------------------------------------------------ *)
(* the correspondence evaluates the sampler with square-and-multiply    *)

Lemma fast_is_translated (rs : Z -> Z -> Z -> Z) seed r :
  fast_random_state rs seed r = get_pseudo_random_state rs seed r.
Proof.
  unfold fast_random_state, get_pseudo_random_state. cbv zeta.
  rewrite Zpow_mod_correct by (vm_compute; discriminate). reflexivity.
Qed.

Section Ext.
Context {Id D : Type}.
Variable id_eqb : Id -> Id -> bool.
Variable choice : Z -> list Id -> Z -> list Id.
Variable fd : list (Id * D).
Variable n seed : Z.
Variables prs1 prs2 : Z -> Z -> option Z.
Hypothesis prs_eq : forall s r, prs1 s r = prs2 s r.

Lemma sample_at_ext r : sample_at id_eqb prs1 choice fd n seed r = sample_at id_eqb prs2 choice fd n seed r.
Proof. unfold sample_at. now rewrite prs_eq. Qed.

Lemma gstep_ext st o : gstep id_eqb prs1 choice fd n seed st o = gstep id_eqb prs2 choice fd n seed st o.
Proof. destruct o; cbn [gstep]; [now rewrite sample_at_ext|reflexivity]. Qed.

Lemma outputs_ext ops : forall st,
  outputs id_eqb prs1 choice fd n seed ops st = outputs id_eqb prs2 choice fd n seed ops st.
Proof.
  induction ops as [|o ops IH]; intros st; cbn [outputs]; [reflexivity|]. now rewrite gstep_ext, IH.
Qed.
End Ext.

(* the model the correspondence runs IS the model of the theorems *)
Lemma run_model_is_theorem_model {Id D} (id_eqb : Id -> Id -> bool) rs choice (fd : list (Id * D)) n seed ops st :
  outputs id_eqb (fast_random_state rs) choice fd n seed ops st =
  outputs id_eqb (get_pseudo_random_state rs) choice fd n seed ops st.
Proof. apply outputs_ext. intros. apply fast_is_translated. Qed.


(* ------------------------------------------------------------------ *)
(* (T) the bodies of sample() / __init__ translated on this run are the model *)

From FV Require Import gen.Gen_client_samplers_model.

Lemma gen_get_sample_spec {Id D} (id_eqb : Id -> Id -> bool) prs choice (fd : list (Id * D)) n seed r :
  get_sample_gen id_eqb prs choice fd n seed r = sample_at id_eqb prs choice fd n seed r.
Proof. reflexivity. Qed.

Lemma gen_stream_init_spec n start : stream_init_gen n start = s_init n start.
Proof. reflexivity. Qed.

Lemma gen_stream_sample_spec {C} (stream : nat -> C) n pos r :
  s_sample stream n (pos, r) =
  (fst (stream_take_gen stream n pos r),
   (snd (stream_take_gen stream n pos r), match shuffled_sampler_next_round r with Some r' => r' | None => r end)).
Proof. reflexivity. Qed.

(* ------------------------------------------------------------------ *)
(* how much of the client stream a streaming sampler has consumed        *)

Fixpoint s_after {C} (stream : nat -> C) (n : Z) (k : nat) (st : nat * Z) : nat * Z :=
  match k with O => st | S k' => s_after stream n k' (snd (s_sample stream n st)) end.

(* constructed at round `start` and sampled k times: exactly (start + k) * n calls of next(),
   and the round counter is start + k *)
Lemma stream_position {C} (stream : nat -> C) (n start : Z) (k : nat) :
  s_after stream n k (s_init n start) = (((Z.to_nat start + k) * Z.to_nat n)%nat, start + Z.of_nat k).
Proof.
  rewrite s_init_spec.
  assert (G : forall k pos r, s_after stream n k (pos, r) = ((pos + k * Z.to_nat n)%nat, r + Z.of_nat k)).
  { induction k0 as [|k0 IH]; intros pos r; cbn [s_after].
    - f_equal; lia.
    - rewrite s_sample_spec. cbn [snd]. rewrite IH. f_equal; lia. }
  rewrite G. f_equal; lia.
Qed.
