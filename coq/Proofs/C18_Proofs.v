(* C18 proofs.  Part A: Kronecker step (ported from spikes/wht.v, generic in R);
   part B: one einsum with the Sylvester sign matrix = chunk-level Sylvester recursion;
   part C: kron_apply = wht; part D: the translated reshape schedule; part E: matrix
   form; part F: linearity, involution, Parseval; part G: rotation and inverse. *)
From Coq Require Import ZArith List Bool Lia Arith Ring Permutation.
From FV Require Import Common.ListX Common.RingVec gen.Gen_walsh_hadamard Model.C18_Model.
Import ListNotations.

Section Th.
Context {R : Type} (rO rI : R) (radd rmul rsub : R -> R -> R) (ropp : R -> R).
Context (Rth : ring_theory rO rI radd rmul rsub ropp eq).
Add Ring C18Ring : Rth.
Notation vadd := (vadd radd). Notation vsub := (vsub rsub). Notation vopp := (vopp ropp).
Notation vzero := (vzero rO). Notation vsign := (vsign ropp). Notation vscale := (vscale rmul).
Notation sumsq := (sumsq rO radd rmul). Notation dot := (dot rO radd rmul).
Notation wht := (wht radd rsub). Notation mix := (mix radd rsub).
Notation madd := (madd radd). Notation msub := (msub rsub).
Notation slincomb := (slincomb rO radd rsub). Notation mixM := (mixM rO radd rsub).
Notation kron_apply := (kron_apply rO radd rsub).
Notation wht_impl := (wht_impl rO radd rsub).
Local Notation RV l := (l rO rI radd rmul rsub ropp Rth).

(* ---------------- part A ---------------- *)
Lemma wht_length k : forall x, length x = Nat.pow 2 k -> length (wht k x) = Nat.pow 2 k.
Proof.
  induction k as [|k IH]; intros x Hx; cbn [C18_Model.wht]; [exact Hx|].
  cbn [Nat.pow] in Hx.
  assert (Ha : length (firstn (2^k) x) = (2^k)%nat) by (rewrite firstn_length; lia).
  assert (Hb : length (skipn (2^k) x) = (2^k)%nat) by (rewrite skipn_length; lia).
  rewrite app_length, (RV vadd_length), (RV vsub_length); rewrite ?IH; auto. cbn [Nat.pow]; lia.
Qed.

Definition shaped (c n : nat) (A : list (list R)) := length A = c /\ Forall (fun r => length r = n) A.

Lemma concat_length_shaped c n A : shaped c n A -> length (concat A) = (c * n)%nat.
Proof.
  revert c; induction A as [|r A IH]; intros c [Hl Hf]; cbn in *; [subst; reflexivity|].
  inversion Hf; subst. rewrite app_length. rewrite (IH (length A)); [lia|split; auto].
Qed.

Lemma concat_madd c n A B : shaped c n A -> shaped c n B ->
  concat (madd A B) = vadd (concat A) (concat B).
Proof.
  revert c B; induction A as [|r A IH]; intros c B [HlA HfA] [HlB HfB].
  - destruct B; simpl length in *; [reflexivity|lia].
  - destruct B as [|s B]; simpl length in *; [lia|].
    inversion HfA; inversion HfB; subst.
    change (concat (madd (r :: A) (s :: B))) with (vadd r s ++ concat (madd A B)).
    change (concat (r :: A)) with (r ++ concat A). change (concat (s :: B)) with (s ++ concat B).
    rewrite (RV vadd_app) by lia. f_equal. apply (IH (length A)); split; auto; lia.
Qed.
Lemma concat_msub c n A B : shaped c n A -> shaped c n B ->
  concat (msub A B) = vsub (concat A) (concat B).
Proof.
  revert c B; induction A as [|r A IH]; intros c B [HlA HfA] [HlB HfB].
  - destruct B; simpl length in *; [reflexivity|lia].
  - destruct B as [|s B]; simpl length in *; [lia|].
    inversion HfA; inversion HfB; subst.
    change (concat (msub (r :: A) (s :: B))) with (vsub r s ++ concat (msub A B)).
    change (concat (r :: A)) with (r ++ concat A). change (concat (s :: B)) with (s ++ concat B).
    rewrite (RV vsub_app) by lia. f_equal. apply (IH (length A)); split; auto; lia.
Qed.

Lemma madd_shaped c n A B : shaped c n A -> shaped c n B -> shaped c n (madd A B).
Proof.
  intros [HlA HfA] [HlB HfB]; split.
  - unfold C18_Model.madd; rewrite map_length, combine_length; lia.
  - unfold C18_Model.madd. apply Forall_forall. intros r Hr. apply in_map_iff in Hr.
    destruct Hr as [[a b] [<- Hin]]. cbn [fst snd].
    pose proof (in_combine_l _ _ _ _ Hin) as Ha. pose proof (in_combine_r _ _ _ _ Hin) as Hb.
    rewrite Forall_forall in HfA, HfB. rewrite (RV vadd_length); [apply HfA; auto|].
    rewrite (HfA _ Ha), (HfB _ Hb); reflexivity.
Qed.
Lemma msub_shaped c n A B : shaped c n A -> shaped c n B -> shaped c n (msub A B).
Proof.
  intros [HlA HfA] [HlB HfB]; split.
  - unfold C18_Model.msub; rewrite map_length, combine_length; lia.
  - unfold C18_Model.msub. apply Forall_forall. intros r Hr. apply in_map_iff in Hr.
    destruct Hr as [[a b] [<- Hin]]. cbn [fst snd].
    pose proof (in_combine_l _ _ _ _ Hin) as Ha. pose proof (in_combine_r _ _ _ _ Hin) as Hb.
    rewrite Forall_forall in HfA, HfB. rewrite (RV vsub_length); [apply HfA; auto|].
    rewrite (HfA _ Ha), (HfB _ Hb); reflexivity.
Qed.

Lemma shaped_firstn c1 c2 n A : shaped (c1 + c2) n A -> shaped c1 n (firstn c1 A).
Proof. intros [Hl Hf]; split; [rewrite firstn_length; lia| apply Forall_firstn; auto]. Qed.
Lemma shaped_skipn c1 c2 n A : shaped (c1 + c2) n A -> shaped c2 n (skipn c1 A).
Proof. intros [Hl Hf]; split; [rewrite skipn_length; lia| apply Forall_skipn; auto]. Qed.
Lemma shaped_app c1 c2 n A B : shaped c1 n A -> shaped c2 n B -> shaped (c1 + c2) n (A ++ B).
Proof. intros [Hl Hf] [Hl' Hf']; split; [rewrite app_length; lia|apply Forall_app; split; auto]. Qed.

Lemma mix_shaped j : forall n A, shaped (2^j) n A -> shaped (2^j) n (mix j A).
Proof.
  induction j as [|j IH]; intros n A H; cbn [C18_Model.mix]; [exact H|].
  cbn [Nat.pow] in H. replace (2 * 2^j)%nat with (2^j + 2^j)%nat in H by lia.
  pose proof (IH n _ (shaped_firstn _ _ _ _ H)) as HA.
  pose proof (IH n _ (shaped_skipn _ _ _ _ H)) as HB.
  destruct (madd_shaped _ _ _ _ HA HB) as [l1 f1]. destruct (msub_shaped _ _ _ _ HA HB) as [l2 f2].
  split; [rewrite app_length; cbn [Nat.pow]; lia | apply Forall_app; split; auto].
Qed.

Lemma cchunks_shaped c n : forall x : list R, length x = (c * n)%nat -> shaped c n (cchunks c n x).
Proof.
  induction c as [|c IH]; intros x Hx; cbn [cchunks]; [split; [reflexivity|constructor]|].
  destruct (IH (skipn n x)) as [Hl Hf]; [rewrite skipn_length; lia|].
  split; cbn; [lia|]. constructor; auto. rewrite firstn_length; lia.
Qed.

Lemma cchunks_app c1 c2 n : forall x y : list R, length x = (c1 * n)%nat ->
  cchunks (c1 + c2) n (x ++ y) = cchunks c1 n x ++ cchunks c2 n y.
Proof.
  induction c1 as [|c1 IH]; intros x y Hx; cbn [cchunks plus].
  - destruct x; cbn in *; [reflexivity|lia].
  - cbn [app]. rewrite firstn_app, skipn_app.
    replace (n - length x)%nat with 0%nat by lia. cbn [firstn skipn]. rewrite app_nil_r.
    f_equal. rewrite <- IH; [reflexivity|rewrite skipn_length; lia].
Qed.

Lemma concat_cchunks c n : forall x : list R, length x = (c * n)%nat -> concat (cchunks c n x) = x.
Proof.
  induction c as [|c IH]; intros x Hx; cbn [cchunks concat].
  - destruct x; cbn in *; [reflexivity|lia].
  - rewrite IH by (rewrite skipn_length; lia). apply firstn_skipn.
Qed.

(* H_{2^j} (x) H_{2^K} = H_{2^(j+K)}, with the inner transform abstracted to any f that
   agrees with wht K on vectors of length 2^K *)
Lemma kron_step K (f : list R -> list R) :
  (forall y, length y = (2^K)%nat -> f y = wht K y) ->
  forall j x, length x = (2^j * 2^K)%nat ->
  concat (mix j (map f (cchunks (2^j) (2^K) x))) = wht (j + K) x.
Proof.
  intros Hf. induction j as [|j IH]; intros x Hx.
  - cbn [C18_Model.mix Nat.pow cchunks map concat plus]. rewrite app_nil_r.
    rewrite Hf by (rewrite firstn_length; cbn in Hx; lia). f_equal.
    apply firstn_all2. cbn in Hx. lia.
  - set (h := (2^j * 2^K)%nat).
    assert (Hpow : (2 ^ (j + K) = h)%nat) by (unfold h; apply Nat.pow_add_r).
    assert (Hx' : length x = (h + h)%nat) by (unfold h; cbn [Nat.pow] in Hx; lia).
    assert (Hxa : length (firstn h x) = (2^j * 2^K)%nat) by (rewrite firstn_length; unfold h in *; lia).
    assert (Hxb : length (skipn h x) = (2^j * 2^K)%nat) by (rewrite skipn_length; unfold h in *; lia).
    assert (Hch : cchunks (2 ^ S j) (2^K) x
                  = cchunks (2^j) (2^K) (firstn h x) ++ cchunks (2^j) (2^K) (skipn h x)).
    { replace (2 ^ S j)%nat with (2^j + 2^j)%nat by (cbn [Nat.pow]; lia).
      rewrite <- (firstn_skipn h x) at 1. apply cchunks_app. exact Hxa. }
    rewrite Hch, map_app.
    assert (Sh : forall y, length y = (2^j * 2^K)%nat ->
                 shaped (2^j) (2^K) (map f (cchunks (2^j) (2^K) y))).
    { intros y Hy. destruct (cchunks_shaped _ _ _ Hy) as [Hl Hfa]. split; [rewrite map_length; exact Hl|].
      apply Forall_map. eapply Forall_impl; [|exact Hfa]. cbn beta. intros r Hr.
      rewrite Hf by exact Hr. apply wht_length; exact Hr. }
    pose proof (Sh _ Hxa) as [HlA _].
    cbn [C18_Model.mix].
    rewrite firstn_app, skipn_app, HlA, Nat.sub_diag. cbn [firstn skipn]. rewrite app_nil_r.
    rewrite firstn_all2 by lia. rewrite skipn_all2 by lia. cbn [app].
    pose proof (mix_shaped j _ _ (Sh _ Hxa)) as SA. pose proof (mix_shaped j _ _ (Sh _ Hxb)) as SB.
    rewrite concat_app, (concat_madd _ _ _ _ SA SB), (concat_msub _ _ _ _ SA SB).
    rewrite (IH _ Hxa), (IH _ Hxb).
    change (wht (S j + K) x) with (wht (S (j + K)) x). cbn [C18_Model.wht]. rewrite Hpow. reflexivity.
Qed.

(* ---------------- part B ---------------- *)
Lemma Hsign_shape j : length (Hsign j) = (2^j)%nat /\ Forall (fun r => length r = (2^j)%nat) (Hsign j).
Proof.
  induction j as [|j [IHl IHf]]; cbn [Hsign]; [split; [reflexivity|repeat constructor]|].
  split.
  - rewrite app_length, !map_length, IHl. cbn [Nat.pow]. lia.
  - apply Forall_app; split; apply Forall_map; (eapply Forall_impl; [|exact IHf]); cbn beta; intros r Hr;
      rewrite app_length, ?map_length, Hr; cbn [Nat.pow]; lia.
Qed.

Lemma slincomb_nil n cs : slincomb n [] cs = vzero n.
Proof. reflexivity. Qed.
Lemma slincomb_cons n b row c cs :
  slincomb n (b :: row) (c :: cs) = if b then vsub (slincomb n row cs) c else vadd (slincomb n row cs) c.
Proof. reflexivity. Qed.

Lemma slincomb_length n : forall row cs, Forall (fun c => length c = n) cs -> length (slincomb n row cs) = n.
Proof.
  induction row as [|b row IH]; intros cs Hf; [apply (RV vzero_length)|].
  destruct cs as [|c cs]; [apply (RV vzero_length)|]. inversion Hf; subst.
  rewrite slincomb_cons. destruct b; [rewrite (RV vsub_length)|rewrite (RV vadd_length)]; rewrite ?IH; auto.
Qed.

Lemma slincomb_app n : forall r1 r2 A B, length r1 = length A ->
  Forall (fun c => length c = n) A -> Forall (fun c => length c = n) B ->
  slincomb n (r1 ++ r2) (A ++ B) = vadd (slincomb n r1 A) (slincomb n r2 B).
Proof.
  induction r1 as [|b r1 IH]; intros r2 A B Hl HA HB.
  - destruct A; [|discriminate]. cbn [app]. rewrite slincomb_nil.
    symmetry. apply (RV vadd_zero_l). apply slincomb_length; exact HB.
  - destruct A as [|c A]; [discriminate|]. inversion HA; subst. cbn [app]. rewrite !slincomb_cons.
    rewrite IH by (auto; cbn in Hl; lia).
    assert (LX : length (slincomb (length c) r1 A) = length c) by (apply slincomb_length; auto).
    assert (LY : length (slincomb (length c) r2 B) = length c) by (apply slincomb_length; auto).
    destruct b.
    + symmetry. apply (RV vsub_vadd_swap); lia.
    + apply (RV vadd_assoc_swap); lia.
Qed.

Lemma slincomb_negb n : forall r B, Forall (fun c => length c = n) B ->
  slincomb n (map negb r) B = vopp (slincomb n r B).
Proof.
  induction r as [|b r IH]; intros B HB.
  - cbn [map]. rewrite !slincomb_nil. symmetry. apply (RV vopp_vzero).
  - destruct B as [|c B]; [cbn [map]; unfold C18_Model.slincomb; rewrite !(RV combine_nil_r') || idtac|].
    + unfold C18_Model.slincomb. destruct (map negb (b :: r)); cbn; symmetry; apply (RV vopp_vzero).
    + inversion HB; subst. cbn [map]. rewrite !slincomb_cons, IH by assumption.
      assert (LX : length (slincomb (length c) r B) = length c) by (apply slincomb_length; auto).
      destruct b; cbn [negb].
      * rewrite (RV vopp_vsub) by lia. rewrite <- (RV vadd_vopp) by (rewrite !(RV vopp_length); lia).
        rewrite (RV vopp_involutive). reflexivity.
      * rewrite (RV vopp_vadd) by lia. rewrite (RV vadd_vopp) by (rewrite (RV vopp_length); lia). reflexivity.
Qed.

Lemma madd_map_map {X} (f g : X -> list R) (l : list X) :
  madd (map f l) (map g l) = map (fun r => vadd (f r) (g r)) l.
Proof. unfold C18_Model.madd. induction l as [|a l IH]; cbn; [reflexivity|]. f_equal. exact IH. Qed.
Lemma msub_map_map {X} (f g : X -> list R) (l : list X) :
  msub (map f l) (map g l) = map (fun r => vsub (f r) (g r)) l.
Proof. unfold C18_Model.msub. induction l as [|a l IH]; cbn; [reflexivity|]. f_equal. exact IH. Qed.

Lemma mixM_is_mix n : forall j cs, shaped (2^j) n cs -> mixM n (Hsign j) cs = mix j cs.
Proof.
  induction j as [|j IH]; intros cs [Hl Hf].
  - cbn [Hsign C18_Model.mix]. unfold C18_Model.mixM. cbn [map].
    destruct cs as [|c [|c' cs]]; cbn in Hl; try lia. inversion Hf; subst.
    rewrite slincomb_cons, slincomb_nil. f_equal. apply (RV vadd_zero_l). reflexivity.
  - cbn [Nat.pow] in Hl.
    assert (Hsh : shaped (2^j + 2^j) n cs) by (split; [lia|exact Hf]).
    pose proof (shaped_firstn _ _ _ _ Hsh) as SA. pose proof (shaped_skipn _ _ _ _ Hsh) as SB.
    cbn [C18_Model.mix]. rewrite <- (IH _ SA), <- (IH _ SB).
    unfold C18_Model.mixM. cbn [Hsign]. rewrite map_app, !map_map.
    rewrite madd_map_map, msub_map_map.
    destruct (Hsign_shape j) as [HHl HHf]. destruct SA as [LA FA]. destruct SB as [LB FB].
    f_equal; apply map_ext_in; intros r Hr; rewrite Forall_forall in HHf; specialize (HHf _ Hr);
      rewrite <- (firstn_skipn (2^j) cs) at 1.
    + apply slincomb_app; auto; lia.
    + rewrite slincomb_app by (auto; lia). rewrite slincomb_negb by assumption.
      apply (RV vadd_vopp). rewrite !slincomb_length; auto.
Qed.

(* ---------------- part C ---------------- *)
Lemma pow2_sumn_cons e es : (2 ^ sumn (e :: es) = 2 ^ e * 2 ^ sumn es)%nat.
Proof. cbn [sumn]. apply Nat.pow_add_r. Qed.

Lemma kron_apply_is_wht : forall es x, length x = (2 ^ sumn es)%nat -> kron_apply es x = wht (sumn es) x.
Proof.
  induction es as [|e es IH]; intros x Hx; [reflexivity|].
  cbn [C18_Model.kron_apply]. rewrite pow2_sumn_cons in Hx.
  rewrite mixM_is_mix.
  - cbn [sumn]. apply kron_step; [exact IH|exact Hx].
  - destruct (cchunks_shaped _ _ _ Hx) as [Hl Hf]. split; [rewrite map_length; exact Hl|].
    apply Forall_map. eapply Forall_impl; [|exact Hf]. cbn beta. intros r Hr.
    rewrite IH by exact Hr. apply wht_length; exact Hr.
Qed.

End Th.

(* ---------------- part D: the translated reshape schedule ---------------- *)
Local Open Scope Z_scope.

Definition fin (dims : list Z) : option (option (list Z)) :=
  if (Z.of_nat (length dims) + 1 >=? 10) then Some None else Some (Some dims).

Definition dim_ok (j d : Z) : Prop := exists e, 1 <= e <= j /\ d = 2 ^ e.

Lemma pow2_gt1 k : 1 <= k -> 1 < 2 ^ k.
Proof. intros. change 1 with (2 ^ 0) at 1. apply Z.pow_lt_mono_r; lia. Qed.

Lemma prodZ_app a b : prodZ (a ++ b) = prodZ a * prodZ b.
Proof. induction a as [|x a IH]; cbn [prodZ app]; [lia|]. rewrite IH. lia. Qed.

Lemma prodZ_perm a b : Permutation a b -> prodZ a = prodZ b.
Proof. induction 1; cbn [prodZ]; lia. Qed.

Lemma loop_spec lx j : 1 <= j -> forall fuel k acc, 0 <= k -> k < Z.of_nat fuel ->
  exists dims tail, wht_shape_loop1 fuel lx (2 ^ j) acc (2 ^ k) = fin dims /\
    Permutation dims (acc ++ tail) /\ Forall (dim_ok j) tail /\ prodZ tail = 2 ^ k /\
    Z.of_nat (length tail) = (k + j - 1) / j.
Proof.
  intros Hj. induction fuel as [|fuel IH]; intros k acc Hk Hf; [lia|].
  cbn [wht_shape_loop1]. rewrite Z.gtb_ltb.
  destruct (Z.eq_dec k 0) as [->|Hk0].
  - (* n = 1: the loop exits *)
    cbn [Z.pow Z.pow_pos Pos.iter Z.mul Pos.mul Z.ltb Z.compare Pos.compare Pos.compare_cont].
    eexists; exists []. split; [unfold fin; reflexivity|]. rewrite app_nil_r.
    split; [first [apply Permutation_rev' ; reflexivity | symmetry; apply Permutation_rev | reflexivity]|].
    split; [constructor|]. split; [reflexivity|]. cbn [length Z.of_nat]. symmetry. apply Z.div_small. lia.
  - assert (H1 : 1 <? 2 ^ k = true) by (apply Z.ltb_lt, pow2_gt1; lia). rewrite H1.
    destruct (Z_lt_le_dec k j) as [Hlt|Hge].
    + (* last, smaller block: n becomes 0 and the loop exits *)
      assert (Hmin : Z.min (2 ^ k) (2 ^ j) = 2 ^ k) by (apply Z.min_l, Z.pow_le_mono_r; lia).
      assert (Hdiv : 2 ^ k / 2 ^ j = 0) by (apply Z.div_small; split; [apply Z.pow_nonneg; lia|apply Z.pow_lt_mono_r; lia]).
      rewrite Hmin, Hdiv. destruct fuel as [|fuel]; [lia|]. cbn [wht_shape_loop1].
      cbn [Z.gtb Z.compare].
      eexists; exists [2 ^ k]. split; [unfold fin; reflexivity|].
      split; [first [symmetry; apply Permutation_rev | reflexivity]|].
      split; [constructor; [exists k; split; [lia|reflexivity]|constructor]|].
      split; [cbn [prodZ]; lia|]. change (Z.of_nat (length [2 ^ k])) with 1.
      apply Z.div_unique with (r := k - 1); lia.
    + assert (Hmin : Z.min (2 ^ k) (2 ^ j) = 2 ^ j) by (apply Z.min_r, Z.pow_le_mono_r; lia).
      assert (Hdiv : 2 ^ k / 2 ^ j = 2 ^ (k - j)) by (symmetry; apply Z.pow_sub_r; lia).
      rewrite Hmin, Hdiv.
      destruct (IH (k - j) (acc ++ [2 ^ j])) as (dims & tail & He & Hp & Hfa & Hpr & Hlen); [lia|lia|].
      exists dims, (2 ^ j :: tail). split; [exact He|].
      split; [rewrite <- app_assoc in Hp; exact Hp|].
      split; [constructor; [exists j; split; [lia|reflexivity]|exact Hfa]|].
      split; [cbn [prodZ]; rewrite Hpr, <- Z.pow_add_r by lia; f_equal; lia|].
      cbn [length]. rewrite Nat2Z.inj_succ, Hlen.
      replace (k + j - 1) with ((k - j + j - 1) + 1 * j) by lia. rewrite Z.div_add by lia. lia.
Qed.

Lemma fin_guard dims k j : 0 <= k -> 1 <= j -> Z.of_nat (length dims) = (k + j - 1) / j ->
  fin dims = if k <=? 8 * j then Some (Some dims) else Some None.
Proof.
  intros Hk Hj Hl. unfold fin. rewrite Hl, Z.geb_leb.
  destruct (k <=? 8 * j) eqn:E.
  - apply Z.leb_le in E.
    assert ((k + j - 1) / j < 9) by (apply Z.div_lt_upper_bound; lia).
    destruct (10 <=? (k + j - 1) / j + 1) eqn:E2; [apply Z.leb_le in E2; lia|reflexivity].
  - apply Z.leb_gt in E.
    assert (9 <= (k + j - 1) / j) by (apply Z.div_le_lower_bound; lia).
    destruct (10 <=? (k + j - 1) / j + 1) eqn:E2; [reflexivity|apply Z.leb_gt in E2; lia].
Qed.

Lemma schedule_spec k j : 0 <= k -> 1 <= j ->
  exists dims, schedule (2 ^ k) (2 ^ j) = (if k <=? 8 * j then Some (Some dims) else Some None) /\
    Forall (dim_ok j) dims /\ prodZ dims = 2 ^ k /\ Z.of_nat (length dims) = (k + j - 1) / j.
Proof.
  intros Hk Hj. unfold schedule, wht_shape.
  assert (H2 : (2 ^ j <=? 1) = false) by (apply Z.leb_gt, pow2_gt1; lia). rewrite H2.
  destruct (loop_spec (2 ^ k) j Hj (schedule_fuel (2 ^ k)) k [] Hk) as (dims & tail & He & Hp & Hfa & Hpr & Hlen).
  { unfold schedule_fuel. rewrite Z.log2_pow2 by lia. lia. }
  cbn [app] in Hp. exists dims. rewrite He.
  assert (Hl : Z.of_nat (length dims) = (k + j - 1) / j) by (rewrite (Permutation_length Hp); exact Hlen).
  split; [apply fin_guard; assumption|].
  split; [eapply Permutation_Forall; [symmetry; exact Hp|exact Hfa]|].
  split; [rewrite (prodZ_perm _ _ Hp); exact Hpr|exact Hl].
Qed.

Lemma dim_ok_pow2 j d : dim_ok j d -> is_pow2 d = true /\ d = 2 ^ Z.of_nat (exp_of d) /\ 2 <= d <= 2 ^ j.
Proof.
  intros (e & He & ->). unfold is_pow2, exp_of. rewrite Z.log2_pow2 by lia.
  assert (0 < 2 ^ e) by (apply Z.pow_pos_nonneg; lia).
  split; [apply andb_true_intro; split; [apply Z.ltb_lt; lia|apply Z.eqb_refl]|].
  split; [rewrite Z2Nat.id by lia; reflexivity|].
  split; [change 2 with (2 ^ 1) at 1; apply Z.pow_le_mono_r; lia|apply Z.pow_le_mono_r; lia].
Qed.

Lemma prodZ_pow2 j dims : Forall (dim_ok j) dims -> prodZ dims = 2 ^ Z.of_nat (sumn (map exp_of dims)).
Proof.
  induction 1 as [|d dims Hd _ IH]; [reflexivity|].
  cbn [prodZ map sumn]. rewrite Nat2Z.inj_add, Z.pow_add_r by lia. rewrite <- IH.
  destruct (dim_ok_pow2 _ _ Hd) as (_ & <- & _). reflexivity.
Qed.

Section Th2.
Context {R : Type} (rO rI : R) (radd rmul rsub : R -> R -> R) (ropp : R -> R).
Context (Rth : ring_theory rO rI radd rmul rsub ropp eq).
Add Ring C18Ring2 : Rth.
Notation vadd := (vadd radd). Notation vsub := (vsub rsub). Notation vopp := (vopp ropp).
Notation vzero := (vzero rO). Notation vsign := (vsign ropp). Notation vscale := (vscale rmul).
Notation sumsq := (sumsq rO radd rmul). Notation dot := (dot rO radd rmul).
Notation wht := (wht radd rsub).
Notation kron_apply := (kron_apply rO radd rsub).
Notation wht_impl := (wht_impl rO radd rsub).
Notation sdot := (sdot rO radd rsub). Notation hmul := (hmul rO radd rsub).
Notation Hmat := (Hmat rI ropp). Notation matvec := (matvec rO radd rmul).
Notation rot := (rot rO radd rsub ropp). Notation inv_rot := (inv_rot rO radd rsub ropp).
Local Notation RV l := (l rO rI radd rmul rsub ropp Rth).
Local Notation TH l := (l rO rI radd rmul rsub ropp Rth).

Lemma wht_impl_spec (k : nat) (j : Z) (x : list R) : 1 <= j -> length x = (2 ^ k)%nat ->
  wht_impl (2 ^ j) x = if Z.of_nat k <=? 8 * j then WOk (wht k x) else WValueError.
Proof.
  intros Hj Hx. unfold C18_Model.wht_impl.
  assert (Hn : Z.of_nat (length x) = 2 ^ Z.of_nat k) by (rewrite Hx, Nat2Z.inj_pow; reflexivity).
  rewrite Hn.
  destruct (schedule_spec (Z.of_nat k) j) as (dims & Hs & Hf & Hp & _); [lia|lia|].
  rewrite Hs. destruct (Z.of_nat k <=? 8 * j); [|reflexivity].
  assert (Hall : forallb is_pow2 dims = true).
  { apply forallb_forall. intros d Hd. rewrite Forall_forall in Hf. apply (dim_ok_pow2 j d (Hf d Hd)). }
  rewrite Hall, Hp, Z.eqb_refl. cbn [andb]. f_equal.
  assert (Hk : sumn (map exp_of dims) = k).
  { apply Nat2Z.inj. apply (Z.pow_inj_r 2); try lia. rewrite <- (prodZ_pow2 j dims Hf). exact Hp. }
  rewrite (TH kron_apply_is_wht); rewrite Hk; [reflexivity|exact Hx].
Qed.

(* ---------------- part E: matrix form ---------------- *)
Lemma sdot_nil x : sdot [] x = rO. Proof. reflexivity. Qed.
Lemma sdot_cons b r v x : sdot (b :: r) (v :: x) = if b then rsub (sdot r x) v else radd (sdot r x) v.
Proof. reflexivity. Qed.
Lemma sdot_nil_r r : sdot r [] = rO.
Proof. unfold C18_Model.sdot. rewrite combine_nil_r'. reflexivity. Qed.

Lemma sdot_app : forall r1 r2 a b, length r1 = length a ->
  sdot (r1 ++ r2) (a ++ b) = radd (sdot r1 a) (sdot r2 b).
Proof.
  induction r1 as [|c r1 IH]; intros r2 a b Hl.
  - destruct a; [|discriminate]. cbn [app]. rewrite sdot_nil. ring.
  - destruct a as [|v a]; [discriminate|]. cbn [app]. rewrite !sdot_cons, IH by (cbn in Hl; lia).
    destruct c; ring.
Qed.

Lemma sdot_negb : forall r x, sdot (map negb r) x = ropp (sdot r x).
Proof.
  induction r as [|c r IH]; intros x; [cbn [map]; rewrite !sdot_nil; ring|].
  destruct x as [|v x]; [rewrite !sdot_nil_r; ring|].
  cbn [map]. rewrite !sdot_cons, IH. destruct c; cbn [negb]; ring.
Qed.

Lemma vadd_map_map {X} (f g : X -> R) (l : list X) :
  vadd (map f l) (map g l) = map (fun r => radd (f r) (g r)) l.
Proof. unfold RingVec.vadd. induction l as [|a l IH]; cbn; [reflexivity|]. f_equal. exact IH. Qed.
Lemma vsub_map_map {X} (f g : X -> R) (l : list X) :
  vsub (map f l) (map g l) = map (fun r => rsub (f r) (g r)) l.
Proof. unfold RingVec.vsub. induction l as [|a l IH]; cbn; [reflexivity|]. f_equal. exact IH. Qed.

Lemma wht_is_hmul : forall k x, length x = (2 ^ k)%nat -> wht k x = hmul k x.
Proof.
  induction k as [|k IH]; intros x Hx.
  - cbn [C18_Model.wht]. unfold C18_Model.hmul. cbn [Hsign map].
    destruct x as [|v [|v' x]]; cbn in Hx; try lia. rewrite sdot_cons, sdot_nil. f_equal. ring.
  - cbn [Nat.pow] in Hx. cbn [C18_Model.wht].
    assert (Ha : length (firstn (2 ^ k) x) = (2 ^ k)%nat) by (rewrite firstn_length; lia).
    assert (Hb : length (skipn (2 ^ k) x) = (2 ^ k)%nat) by (rewrite skipn_length; lia).
    rewrite (IH _ Ha), (IH _ Hb). unfold C18_Model.hmul. cbn [Hsign].
    rewrite map_app, !map_map, vadd_map_map, vsub_map_map.
    destruct (Hsign_shape k) as [_ HHf]. rewrite Forall_forall in HHf.
    f_equal; apply map_ext_in; intros r Hr; specialize (HHf _ Hr);
      rewrite <- (firstn_skipn (2 ^ k) x) at 3; rewrite sdot_app by lia; [reflexivity|].
    rewrite sdot_negb. ring.
Qed.

Definition sgn (b : bool) : R := if b then ropp rI else rI.
Lemma sdot_is_dot : forall r x, sdot r x = dot (map sgn r) x.
Proof.
  induction r as [|c r IH]; intros x; [reflexivity|].
  destruct x as [|v x]; [rewrite sdot_nil_r; cbn [map]; rewrite (RV dot_nil_r); reflexivity|].
  cbn [map]. rewrite sdot_cons, (RV dot_cons), IH. unfold sgn. destruct c; ring.
Qed.

Lemma hmul_is_matvec k x : hmul k x = matvec (Hmat k) x.
Proof.
  unfold C18_Model.hmul, C18_Model.matvec, C18_Model.Hmat. rewrite map_map.
  apply map_ext. intros r. apply sdot_is_dot.
Qed.

(* ---------------- part F: linearity, involution, Parseval ---------------- *)
Lemma wht_vadd : forall k a b, length a = (2 ^ k)%nat -> length b = (2 ^ k)%nat ->
  wht k (vadd a b) = vadd (wht k a) (wht k b).
Proof.
  induction k as [|k IH]; intros a b Ha Hb; [reflexivity|].
  cbn [Nat.pow] in Ha, Hb. cbn [C18_Model.wht].
  rewrite (RV firstn_vadd), (RV skipn_vadd).
  assert (L : forall y : list R, length y = (2 * 2 ^ k)%nat ->
            length (firstn (2 ^ k) y) = (2 ^ k)%nat /\ length (skipn (2 ^ k) y) = (2 ^ k)%nat)
    by (intros y Hy; rewrite firstn_length, skipn_length; lia).
  destruct (L a Ha) as [La1 La2]. destruct (L b Hb) as [Lb1 Lb2].
  rewrite (IH _ _ La1 Lb1), (IH _ _ La2 Lb2).
  pose proof (TH wht_length k _ La1) as W1. pose proof (TH wht_length k _ La2) as W2.
  pose proof (TH wht_length k _ Lb1) as W3. pose proof (TH wht_length k _ Lb2) as W4.
  rewrite (RV vadd_app) by (rewrite !(RV vadd_length); lia).
  f_equal; [apply (RV vadd_vadd_interchange)|apply (RV vsub_vsub_interchange)]; lia.
Qed.

Lemma wht_vsub : forall k a b, length a = (2 ^ k)%nat -> length b = (2 ^ k)%nat ->
  wht k (vsub a b) = vsub (wht k a) (wht k b).
Proof.
  induction k as [|k IH]; intros a b Ha Hb; [reflexivity|].
  cbn [Nat.pow] in Ha, Hb. cbn [C18_Model.wht].
  rewrite (RV firstn_vsub), (RV skipn_vsub).
  assert (L : forall y : list R, length y = (2 * 2 ^ k)%nat ->
            length (firstn (2 ^ k) y) = (2 ^ k)%nat /\ length (skipn (2 ^ k) y) = (2 ^ k)%nat)
    by (intros y Hy; rewrite firstn_length, skipn_length; lia).
  destruct (L a Ha) as [La1 La2]. destruct (L b Hb) as [Lb1 Lb2].
  rewrite (IH _ _ La1 Lb1), (IH _ _ La2 Lb2).
  pose proof (TH wht_length k _ La1) as W1. pose proof (TH wht_length k _ La2) as W2.
  pose proof (TH wht_length k _ Lb1) as W3. pose proof (TH wht_length k _ Lb2) as W4.
  rewrite (RV vsub_app) by (rewrite !(RV vadd_length); lia).
  f_equal; [apply (RV vadd_vsub_interchange)|apply (RV vsub_vsub_interchange2)]; lia.
Qed.

Lemma wht_vscale : forall k c x, length x = (2 ^ k)%nat -> wht k (vscale c x) = vscale c (wht k x).
Proof.
  induction k as [|k IH]; intros c x Hx; [reflexivity|].
  cbn [Nat.pow] in Hx. cbn [C18_Model.wht].
  rewrite (RV firstn_vscale), (RV skipn_vscale).
  assert (La : length (firstn (2 ^ k) x) = (2 ^ k)%nat) by (rewrite firstn_length; lia).
  assert (Lb : length (skipn (2 ^ k) x) = (2 ^ k)%nat) by (rewrite skipn_length; lia).
  rewrite (IH _ _ La), (IH _ _ Lb).
  pose proof (TH wht_length k _ La) as W1. pose proof (TH wht_length k _ Lb) as W2.
  rewrite (RV vscale_app), (RV vscale_vadd), (RV vscale_vsub) by lia. reflexivity.
Qed.

Lemma wht_linear k c1 c2 x y : length x = (2 ^ k)%nat -> length y = (2 ^ k)%nat ->
  wht k (vadd (vscale c1 x) (vscale c2 y)) = vadd (vscale c1 (wht k x)) (vscale c2 (wht k y)).
Proof.
  intros Hx Hy. rewrite wht_vadd by (rewrite (RV vscale_length); assumption).
  rewrite !wht_vscale by assumption. reflexivity.
Qed.

(* 2^k as a ring element *)
Fixpoint rpow2 (k : nat) : R := match k with O => rI | S k' => radd (rpow2 k') (rpow2 k') end.

Lemma vscale_ext c c' (x : list R) : c = c' -> vscale c x = vscale c' x.
Proof. intros ->. reflexivity. Qed.

Lemma wht_involution : forall k x, length x = (2 ^ k)%nat -> wht k (wht k x) = vscale (rpow2 k) x.
Proof.
  induction k as [|k IH]; intros x Hx.
  - cbn [C18_Model.wht rpow2]. symmetry. apply (RV vscale_one).
  - cbn [Nat.pow] in Hx.
    assert (La : length (firstn (2 ^ k) x) = (2 ^ k)%nat) by (rewrite firstn_length; lia).
    assert (Lb : length (skipn (2 ^ k) x) = (2 ^ k)%nat) by (rewrite skipn_length; lia).
    pose proof (TH wht_length k _ La) as W1. pose proof (TH wht_length k _ Lb) as W2.
    cbn [C18_Model.wht].
    set (A := wht k (firstn (2 ^ k) x)) in *. set (B := wht k (skipn (2 ^ k) x)) in *.
    assert (LS : length (vadd A B) = (2 ^ k)%nat) by (rewrite (RV vadd_length); lia).
    rewrite firstn_app, skipn_app, LS, Nat.sub_diag. cbn [firstn skipn]. rewrite app_nil_r.
    rewrite firstn_all2 by lia. rewrite skipn_all2 by lia. cbn [app].
    rewrite wht_vadd, wht_vsub by assumption. unfold A, B. rewrite (IH _ La), (IH _ Lb).
    rewrite (RV vadd_add_sub), (RV vsub_add_sub) by (rewrite !(RV vscale_length); lia).
    rewrite !(RV vscale_vscale), <- (RV vscale_app), firstn_skipn.
    apply vscale_ext. cbn [rpow2]. ring.
Qed.

Lemma wht_parseval : forall k x, length x = (2 ^ k)%nat -> sumsq (wht k x) = rmul (rpow2 k) (sumsq x).
Proof.
  induction k as [|k IH]; intros x Hx.
  - cbn [C18_Model.wht rpow2]. ring.
  - cbn [Nat.pow] in Hx.
    assert (La : length (firstn (2 ^ k) x) = (2 ^ k)%nat) by (rewrite firstn_length; lia).
    assert (Lb : length (skipn (2 ^ k) x) = (2 ^ k)%nat) by (rewrite skipn_length; lia).
    pose proof (TH wht_length k _ La) as W1. pose proof (TH wht_length k _ Lb) as W2.
    cbn [C18_Model.wht]. rewrite (RV sumsq_app), (RV sumsq_parallelogram) by lia.
    rewrite (IH _ La), (IH _ Lb), (RV firstn_skipn_sumsq (2 ^ k)%nat x). cbn [rpow2]. ring.
Qed.


(* ---------------- part G: structured rotation ---------------- *)
Definition rdim (size : nat) : nat := Z.to_nat (Z.log2_up (Z.of_nat size)).

Lemma rdim_spec size : (1 <= size)%nat ->
  rotation_dim (Z.of_nat size) = 2 ^ Z.of_nat (rdim size) /\ (size <= 2 ^ rdim size)%nat.
Proof.
  intros Hs. unfold rotation_dim, rdim. rewrite Z2Nat.id by apply Z.log2_up_nonneg.
  split; [reflexivity|]. apply Nat2Z.inj_le. rewrite Nat2Z.inj_pow, Z2Nat.id by apply Z.log2_up_nonneg.
  destruct (Z.eq_dec (Z.of_nat size) 1) as [->|Hn]; [cbn; lia|]. apply Z.log2_up_spec. lia.
Qed.

Lemma pad_vec_spec size d (x : list R) : pad_vec rO size d x = x ++ vzero (Z.to_nat (d - size)).
Proof. reflexivity. Qed.

Lemma vsign_false_zero m : vsign (repeat false m) (vzero m) = vzero m.
Proof. apply (RV vsign_vzero). apply repeat_length. Qed.

Lemma to_nat_pow2 K : Z.to_nat (2 ^ Z.of_nat K) = (2 ^ K)%nat.
Proof. change 2 with (Z.of_nat 2). rewrite <- Nat2Z.inj_pow. apply Nat2Z.id. Qed.

(* the unnormalised rotated vector *)
Definition rot_u (s : list bool) (x : list R) : list R :=
  wht (rdim (length x)) (vsign s x ++ vzero (2 ^ rdim (length x) - length x)).

Lemma rot_spec s x : (1 <= length x)%nat -> Z.log2_up (Z.of_nat (length x)) <= 56 -> length s = length x ->
  rot s x = WOk (rot_u s x, 2 ^ Z.of_nat (rdim (length x))).
Proof.
  intros H1 H56 Hs. unfold C18_Model.rot, rot_u.
  destruct (rdim_spec _ H1) as [Hd Hle]. set (K := rdim (length x)) in *.
  rewrite pad_vec_spec, Hd.
  replace (Z.to_nat (2 ^ Z.of_nat K - Z.of_nat (length x))) with (2 ^ K - length x)%nat
    by (rewrite Z2Nat.inj_sub, to_nat_pow2, Nat2Z.id by lia; reflexivity).
  set (m := (2 ^ K - length x)%nat).
  assert (Lw : length (x ++ vzero m) = (2 ^ K)%nat) by (rewrite app_length, (RV vzero_length); unfold m; lia).
  rewrite Lw. replace (2 ^ K - length s)%nat with m by (unfold m; lia).
  rewrite (RV vsign_app) by exact Hs. rewrite vsign_false_zero.
  change default_small_n with (2 ^ 7).
  rewrite (wht_impl_spec K); [|lia|rewrite app_length, (RV vsign_length), (RV vzero_length) by exact Hs; unfold m; lia].
  assert (HK : Z.of_nat K <= 56) by (unfold K, rdim; rewrite Z2Nat.id by apply Z.log2_up_nonneg; exact H56).
  destruct (Z.of_nat K <=? 8 * 7) eqn:E; [reflexivity|apply Z.leb_gt in E; lia].
Qed.

Lemma rot_u_length s x : (1 <= length x)%nat -> length s = length x ->
  length (rot_u s x) = (2 ^ rdim (length x))%nat.
Proof.
  intros H1 Hs. destruct (rdim_spec _ H1) as [_ Hle]. unfold rot_u. apply (TH wht_length (rdim (length x))).
  rewrite app_length, (RV vsign_length), (RV vzero_length) by exact Hs. lia.
Qed.

Lemma rot_norm s x : (1 <= length x)%nat -> length s = length x ->
  sumsq (rot_u s x) = rmul (rpow2 (rdim (length x))) (sumsq x).
Proof.
  intros H1 Hs. destruct (rdim_spec _ H1) as [_ Hle]. unfold rot_u.
  rewrite wht_parseval by (rewrite app_length, (RV vsign_length), (RV vzero_length) by exact Hs; lia).
  rewrite (RV sumsq_app), (RV sumsq_vsign), (RV sumsq_vzero) by exact Hs. ring.
Qed.

Lemma inv_rot_spec s (y : list R) shape K : length y = (2 ^ K)%nat -> Z.of_nat K <= 56 ->
  inv_rot s y shape =
  WOk (firstn (Z.to_nat (prodZ shape)) (vsign (s ++ repeat false (2 ^ K - length s)) (wht K y)),
       2 ^ Z.of_nat K, shape).
Proof.
  intros Hy HK. unfold C18_Model.inv_rot. change default_small_n with (2 ^ 7).
  rewrite wht_impl_spec with (k := K) by (lia || exact Hy).
  destruct (Z.of_nat K <=? 8 * 7) eqn:E; [|apply Z.leb_gt in E; lia].
  unfold inverse_take, inverse_scale. rewrite Hy, Nat2Z.inj_pow. reflexivity.
Qed.

Lemma inverse_restores s x shape :
  (1 <= length x)%nat -> Z.log2_up (Z.of_nat (length x)) <= 56 -> length s = length x ->
  prodZ shape = Z.of_nat (length x) ->
  inv_rot s (rot_u s x) shape =
  WOk (vscale (rpow2 (rdim (length x))) x, 2 ^ Z.of_nat (rdim (length x)), shape).
Proof.
  intros H1 H56 Hs Hshape. destruct (rdim_spec _ H1) as [_ Hle]. set (K := rdim (length x)) in *.
  assert (HK : Z.of_nat K <= 56) by (unfold K, rdim; rewrite Z2Nat.id by apply Z.log2_up_nonneg; exact H56).
  rewrite (inv_rot_spec s _ shape K) by (exact HK || (apply rot_u_length; assumption)).
  f_equal. f_equal. f_equal. unfold rot_u. fold K. set (m := (2 ^ K - length x)%nat).
  rewrite wht_involution by (rewrite app_length, (RV vsign_length), (RV vzero_length) by exact Hs; unfold m; lia).
  rewrite (RV vscale_app), (RV vscale_vzero).
  replace (2 ^ K - length s)%nat with m by (unfold m; lia).
  rewrite (RV vsign_app) by (rewrite (RV vscale_length), (RV vsign_length) by exact Hs; exact Hs).
  rewrite vsign_false_zero, <- (RV vscale_vsign), (RV vsign_vsign) by exact Hs.
  rewrite Hshape, Nat2Z.id, firstn_app, (RV vscale_length), Nat.sub_diag. cbn [firstn].
  rewrite app_nil_r. apply firstn_all2. rewrite (RV vscale_length). lia.
Qed.

(* signs beyond the input size never matter: they multiply padding zeros *)
Lemma rot_pad_signs_irrelevant s t t' (x : list R) : length s = length x -> length t = length t' ->
  vsign (s ++ t) (x ++ vzero (length t)) = vsign (s ++ t') (x ++ vzero (length t)).
Proof.
  intros Hs Ht. rewrite !(RV vsign_app) by exact Hs. f_equal.
  rewrite !(RV vsign_vzero) by (reflexivity || (symmetry; exact Ht)). reflexivity.
Qed.

Lemma wht_impl_small_block sn (x : list R) : sn <= 1 -> wht_impl sn x = WValueError.
Proof.
  intros H. unfold C18_Model.wht_impl, schedule, wht_shape.
  assert (E : (sn <=? 1) = true) by (apply Z.leb_le; exact H). rewrite E. reflexivity.
Qed.

(* trees: leaf-wise, the same per-leaf sign vector in rotation and inverse *)
Definition leaf_ok (l : list bool * list R * list Z) : Prop :=
  let '(s, x, shape) := l in
  (1 <= length x)%nat /\ Z.log2_up (Z.of_nat (length x)) <= 56 /\ length s = length x /\
  prodZ shape = Z.of_nat (length x).

Lemma tree_inverse_restores (leaves : list (list bool * list R * list Z)) : Forall leaf_ok leaves ->
  map (fun l => let '(s, x, shape) := l in rot s x) leaves =
    map (fun l => let '(s, x, shape) := l in WOk (rot_u s x, 2 ^ Z.of_nat (rdim (length x)))) leaves /\
  map (fun l => let '(s, x, shape) := l in inv_rot s (rot_u s x) shape) leaves =
    map (fun l => let '(s, x, shape) := l in
                  WOk (vscale (rpow2 (rdim (length x))) x, 2 ^ Z.of_nat (rdim (length x)), shape)) leaves.
Proof.
  intros H. rewrite Forall_forall in H.
  split; apply map_ext_in; intros [[s x] shape] Hin; destruct (H _ Hin) as (H1 & H2 & H3 & H4).
  - apply rot_spec; assumption.
  - apply inverse_restores; assumption.
Qed.

(* different sign vectors give different rotations (needs 1 <> -1, i.e. no 2-torsion) *)
Section Inj.
Hypothesis two_regular : forall a : R, radd a a = rO -> a = rO.
Hypothesis one_neq_zero : rI <> rO.

Lemma rpow2_cancel : forall k a b, rmul (rpow2 k) a = rmul (rpow2 k) b -> a = b.
Proof.
  induction k as [|k IH]; intros a b H; cbn [rpow2] in H.
  - replace a with (rmul rI a) by ring. rewrite H. ring.
  - apply IH. set (p := rpow2 k) in *.
    assert (Ht : rsub (rmul p a) (rmul p b) = rO).
    { apply two_regular.
      replace (radd (rsub (rmul p a) (rmul p b)) (rsub (rmul p a) (rmul p b)))
        with (rsub (rmul (radd p p) a) (rmul (radd p p) b)) by ring.
      rewrite H. ring. }
    replace (rmul p a) with (radd (rsub (rmul p a) (rmul p b)) (rmul p b)) by ring. rewrite Ht. ring.
Qed.

Lemma vscale_rpow2_inj k : forall v v' : list R, length v = length v' ->
  vscale (rpow2 k) v = vscale (rpow2 k) v' -> v = v'.
Proof.
  induction v as [|a v IH]; intros [|b v'] Hl H; cbn in Hl; try lia; [reflexivity|].
  rewrite !(RV vscale_cons) in H. injection H as H1 H2. f_equal; [eapply rpow2_cancel; exact H1|apply IH; [lia|exact H2]].
Qed.

Lemma wht_inj k (v v' : list R) : length v = (2 ^ k)%nat -> length v' = (2 ^ k)%nat ->
  wht k v = wht k v' -> v = v'.
Proof.
  intros Hv Hv' H. apply (vscale_rpow2_inj k); [lia|].
  rewrite <- !wht_involution by assumption. rewrite H. reflexivity.
Qed.

Lemma sgn_inj b b' : sgn b = sgn b' -> b = b'.
Proof.
  unfold sgn. destruct b, b'; intros H; try reflexivity; exfalso; apply one_neq_zero, two_regular.
  - replace (radd rI rI) with (rsub rI (ropp rI)) by ring. rewrite H. ring.
  - replace (radd rI rI) with (rsub rI (ropp rI)) by ring. rewrite <- H. ring.
Qed.

Lemma vsign_ones : forall s, vsign s (repeat rI (length s)) = map sgn s.
Proof.
  induction s as [|b s IH]; [reflexivity|]. cbn [length repeat map]. rewrite (RV vsign_cons), IH.
  reflexivity.
Qed.

Lemma map_sgn_inj : forall s s', map sgn s = map sgn s' -> s = s'.
Proof.
  induction s as [|b s IH]; intros [|b' s'] H; cbn in H; try discriminate; [reflexivity|].
  injection H as H1 H2. f_equal; [apply sgn_inj; exact H1|apply IH; exact H2].
Qed.

Lemma rot_injective_in_signs s s' : length s = length s' -> (1 <= length s)%nat -> s <> s' ->
  exists x, length x = length s /\ rot_u s x <> rot_u s' x.
Proof.
  intros Hl H1 Hne. exists (repeat rI (length s)). split; [apply repeat_length|].
  intros H. apply Hne. unfold rot_u in H. rewrite repeat_length in H.
  assert (Hle : (length s <= 2 ^ rdim (length s))%nat) by (apply rdim_spec; exact H1).
  apply wht_inj in H.
  - apply app_inv_tail in H. rewrite vsign_ones in H. rewrite Hl in H. rewrite vsign_ones in H.
    apply map_sgn_inj; exact H.
  - rewrite app_length, (RV vsign_length), (RV vzero_length), repeat_length by (rewrite repeat_length; reflexivity). lia.
  - rewrite app_length, (RV vsign_length), (RV vzero_length), repeat_length by (rewrite repeat_length; lia). lia.
Qed.
End Inj.

End Th2.

(* per-leaf keys of the *_pytree functions (translated): leaf l uses split index l of the tree key,
   the same one in the rotation and in the inverse; different leaves use different keys *)
Lemma leaf_keys_shared (k : list nat) (l : nat) :
  rot_pytree_leaf_key k l = inv_pytree_leaf_key k l /\ rot_pytree_leaf_key k l = (k ++ [l])%list.
Proof. split; reflexivity. Qed.
Lemma leaf_keys_distinct (k : list nat) (l l' : nat) : rot_pytree_leaf_key k l = rot_pytree_leaf_key k l' -> l = l'.
Proof. unfold rot_pytree_leaf_key. intros H. apply app_inv_head in H. injection H as ->. reflexivity. Qed.
