(* C01, tie T for the round code: the definitions translated on every run from
   fedjax/algorithms/fed_avg.py (gen/Gen_fed_avg.v: create_train_for_each_client's client_init /
   client_step / client_final, federated_averaging.apply, server_update) ARE the model the
   theorems are about: `apply` is `fedavg_apply` of Model/C01_Model.v run with the translated
   client program.  An edit of that code changes (or refuses) the translation and this file
   stops compiling. *)
From Coq Require Import ZArith QArith List Bool.
From FV Require Import Common.ListX Common.CMonoid Common.NanQ Common.QVec Common.WMean gen.Gen_tree_util
  Model.C01_Model gen.Gen_fed_avg.
Import ListNotations.
Local Open Scope Q_scope.

Section GenFedAvg.
Context {K U B S OS : Type}.
Variable grad_fn : list Q -> B -> U -> list Q.
Variable split : K -> K * U.
Variable copt_init : list Q -> S.
Variable copt_apply : list Q -> S -> list Q -> S * list Q.
Variable sopt : list Q -> OS -> list Q -> OS * list Q.

(* a client of the model as the (client_id, client_dataset, rng) tuple of the code: the
   dataset is (its length, the batches its shuffle_repeat_batch view yields) *)
Definition as_tuple (c : client (K := K) (B := B)) : Z * (Z * list B) * K := (c_id c, (c_n c, c_batches c), c_key c).

Notation g_init := (Gen_fed_avg.client_init copt_init).
Notation g_step := (Gen_fed_avg.client_step grad_fn split copt_apply).
Notation g_params := (@Gen_fed_avg.f_params K S).

Lemma gen_train_for_each_client p (clients : list (client (K := K) (B := B))) :
  Gen_fed_avg.train_for_each_client grad_fn split copt_init copt_apply p
    (map (fun c : Z * (Z * list B) * K => let '(cid, cds, crng) := c in (cid, snd cds, crng)) (map as_tuple clients)) =
  C01_Model.train_for_each_client g_init g_step g_params p clients.
Proof.
  unfold Gen_fed_avg.train_for_each_client, for_each_client, C01_Model.train_for_each_client. rewrite !map_map.
  apply map_ext. intros c. reflexivity.
Qed.

Lemma gen_client_num_examples (clients : list (client (K := K) (B := B))) :
  dict_of (map (fun c : Z * (Z * list B) * K => let '(cid, cds, _) := c in (cid, fst cds)) (map as_tuple clients)) =
  client_num_examples clients.
Proof. unfold client_num_examples. rewrite map_map. reflexivity. Qed.

(* the translated apply is the model's round (result reshaped: the code returns
   (ServerState(params, opt_state), client_diagnostics)) *)
Lemma gen_apply_is_fedavg_apply st (clients : list (client (K := K) (B := B))) :
  Gen_fed_avg.apply grad_fn split copt_init copt_apply sopt fst snd st (map as_tuple clients) =
  option_map (fun r : list Q * OS * list (Z * Q) => ((fst (fst r), snd (fst r)), snd r))
    (fedavg_apply g_init g_step g_params sopt st clients).
Proof.
  unfold Gen_fed_avg.apply, fedavg_apply, apply_from_outputs.
  rewrite gen_client_num_examples, gen_train_for_each_client.
  match goal with |- context [fold_left ?f (C01_Model.train_for_each_client _ _ _ _ _) _] =>
    change f with (apply_step (client_num_examples clients)) end.
  destruct (fold_left (apply_step (client_num_examples clients)) (C01_Model.train_for_each_client g_init g_step g_params (fst st) clients)
              (tree_zeros_like (vlift (fst st)), NanQ.of_Q 0, [])) as [[dsum nsum] dg].
  unfold Gen_fed_avg.server_update.
  destruct (unlift (tree_inverse_weight dsum nsum)) as [g|]; [|reflexivity].
  destruct (sopt g (snd st) (fst st)) as [os' p']. reflexivity.
Qed.
End GenFedAvg.

(* the instance evaluated by the correspondence check is the translated client program run
   with the least-squares gradient, the stream keys and optax.sgd *)
Lemma ls_program_is_gen co p (c : client (K := key) (B := list example)) :
  run_client (ls_init co) (ls_step co) s_params p c =
  run_client (Gen_fed_avg.client_init (fun q => vzero (length q)))
             (Gen_fed_avg.client_step batch_grad split_key (sgd_apply co)) (@Gen_fed_avg.f_params key (list Q)) p c.
Proof.
  unfold run_client, C01_Model.client_final. f_equal.
  assert (G : forall bs (a : ls_state) (b : Gen_fed_avg.cstate (K := key) (S := list Q)),
            s_params a = Gen_fed_avg.f_params b -> s_trace a = Gen_fed_avg.f_opt_state b -> s_rng a = Gen_fed_avg.f_rng b ->
            s_params (fold_left (ls_step co) bs a) =
            Gen_fed_avg.f_params (fold_left (Gen_fed_avg.client_step batch_grad split_key (sgd_apply co)) bs b)).
  { induction bs as [|x bs IH]; intros a b E1 E2 E3; cbn [fold_left]; [exact E1|].
    apply IH; unfold ls_step, Gen_fed_avg.client_step; rewrite <- E1, <- E2, <- E3;
      destruct (split_key (s_rng a)) as [rng nu];
      destruct (sgd_apply co (batch_grad (s_params a) x nu) (s_trace a) (s_params a)); reflexivity. }
  apply G; reflexivity.
Qed.

Lemma ls_apply_is_gen_apply co srv st (clients : list (client (K := key) (B := list example))) :
  option_map (fun r : list Q * srv_state * list (Z * Q) => ((fst (fst r), snd (fst r)), snd r)) (ls_apply co srv st clients) =
  Gen_fed_avg.apply batch_grad split_key (fun q => vzero (length q)) (sgd_apply co) srv fst snd st (map as_tuple clients).
Proof.
  rewrite gen_apply_is_fedavg_apply. f_equal. unfold ls_apply, fedavg_apply, C01_Model.train_for_each_client.
  f_equal. apply map_ext. intros c. rewrite ls_program_is_gen. reflexivity.
Qed.

(* ---- further translated pieces of the constructor ---- *)
From FV Require gen.Gen_tree_l2.

(* tree_util.tree_l2_norm: the diagnostics value of the model (sumsq delta) is the SQUARE of what the code stores *)
Lemma gen_l2_norm_squared_is_sumsq v : Gen_tree_l2.tree_l2_norm_squared v = sumsq v.
Proof. reflexivity. Qed.

(* federated_averaging.init: the server state is (params, server_optimizer.init(params)) *)
Lemma gen_fedavg_init {OS : Type} (sinit : list Q -> OS) p : Gen_fed_avg.init sinit p = (p, sinit p).
Proof. reflexivity. Qed.

(* the constructor hands create_train_for_each_client(grad_fn, client_optimizer) to apply *)
Lemma gen_fedavg_wiring : Gen_fed_avg.fed_avg_wiring = true.
Proof. reflexivity. Qed.

(* ShuffleRepeatBatchView.__init__ (translated): the number of client steps is what the documentation of
   shuffle_repeat_batch promises -- floor(N*E/B) full batches with drop_remainder, ceil(N*E/B) otherwise, capped by
   num_steps; num_steps alone when num_epochs is None.  C01_agree checks every recorded stream against it. *)
From FV Require gen.Gen_client_datasets.
Local Open Scope Z_scope.
Lemma shuffle_num_steps_documented N bs e s (drop : bool) :
  Gen_client_datasets.shuffle_num_steps N bs e s drop =
  Some (match e with
        | Some e => let full := if drop then (N * e) / bs else (N * e + bs - 1) / bs in
                    Some (match s with Some s => Z.min s full | None => full end)
        | None => s
        end).
Proof. unfold Gen_client_datasets.shuffle_num_steps. destruct e, s, drop; reflexivity. Qed.

(* fed_avg.py and tree_util.py contain no construct whose value depends on the interpreter process
   (hash(), id(), time, uuid, os.environ, random / np.random): fail-closed recogniser *)
Lemma gen_fedavg_process_independent : Gen_fed_avg.process_independent = true /\ Gen_tree_l2.process_independent = true.
Proof. split; reflexivity. Qed.
