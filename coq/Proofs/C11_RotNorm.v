(* C11 proofs, part N: the rotated pipeline is an isometry up to cropping.  For any vector q
   put in place of the rotated vector y = R x (in particular q = Quantise(y)), the error after
   the inverse rotation is at most the error made in the rotated space:
       sum (R^-1 q - x)^2  <=  sum (q - y)^2 .
   The model rotates over Qc (Leibniz ring), so the C18 theorems (linearity, involution,
   Parseval, sign flips) apply verbatim. *)
From Coq Require Import ZArith QArith Qcanon List Bool Lia Lqa Ring.
From FV Require Import Common.ListX Common.RingVec gen.Gen_walsh_hadamard Model.C18_Model Proofs.C18_Proofs
  Model.C11_Model Proofs.C11_Rot.
Import ListNotations.

Local Notation C0 := (Q2Qc 0).
Local Notation C1 := (Q2Qc 1).
Local Notation CR l := (l C0 C1 Qcplus Qcmult Qcminus Qcopp Qcrt).
Local Notation cvsub := (RingVec.vsub Qcminus).
Local Notation cvsign := (RingVec.vsign Qcopp).
Local Notation cvscale := (RingVec.vscale Qcmult).
Local Notation cvzero := (RingVec.vzero C0).
Local Notation csumsq := (RingVec.sumsq C0 Qcplus Qcmult).
Local Notation cwht := (wht Qcplus Qcminus).
Local Notation cpow2 := (rpow2 C1 Qcplus).
Add Ring QcRing : Qcrt.

Lemma cpow2_inject k : cpow2 k = Q2Qc (inject_Z (2 ^ Z.of_nat k)).
Proof.
  induction k as [|k IH]; [apply Qc_is_canon; reflexivity|].
  cbn [rpow2]. rewrite IH. apply Qc_is_canon. cbn [this Qcplus Q2Qc]. rewrite !Qred_correct.
  rewrite Nat2Z.inj_succ, Z.pow_succ_r by lia. rewrite inject_Z_mult. change (inject_Z 2) with 2%Q. ring.
Qed.

Lemma cpow2_add a b : cpow2 (a + b) = Qcmult (cpow2 a) (cpow2 b).
Proof. induction a as [|a IH]; cbn [plus rpow2]; [ring|]. rewrite IH. ring. Qed.

Lemma cpow2_nonzero k : cpow2 k <> C0.
Proof.
  rewrite cpow2_inject. intros E. apply Q2Qc_eq_iff in E.
  assert (0 < inject_Z (2 ^ Z.of_nat k))%Q; [|lra].
  change 0%Q with (inject_Z 0). rewrite <- Zlt_Qlt. apply Z.pow_pos_nonneg; lia.
Qed.

Lemma csq_nonneg (a : Qc) : Qcle C0 (Qcmult a a).
Proof. unfold Qcle. cbn [this Qcmult Q2Qc]. rewrite !Qred_correct. nra. Qed.

Lemma csumsq_nonneg (l : list Qc) : Qcle C0 (csumsq l).
Proof.
  induction l as [|a l IH]; [unfold Qcle; cbn; lra|].
  rewrite (CR sumsq_cons). replace C0 with (Qcplus C0 C0) by ring. apply Qcplus_le_compat; [apply csq_nonneg|exact IH].
Qed.

Lemma csumsq_firstn_le n (l : list Qc) : Qcle (csumsq (firstn n l)) (csumsq l).
Proof.
  rewrite (CR firstn_skipn_sumsq n l).
  replace (csumsq (firstn n l)) with (Qcplus (csumsq (firstn n l)) C0) at 1 by ring.
  apply Qcplus_le_compat; [apply Qcle_refl|apply csumsq_nonneg].
Qed.

Lemma cscale_is_vscale r l : cscale r l = cvscale (Qcinv (Q2Qc r)) l.
Proof. reflexivity. Qed.

Theorem rot_roundtrip_error (s : list bool) (x q : list Qc) :
  rot_leaf_ok (length x) -> length s = length x -> length q = (2 ^ rdim (length x))%nat ->
  exists y back, crot s x = Some y /\ cinv s q (Z.of_nat (length x)) = Some back /\
    length y = (2 ^ rdim (length x))%nat /\ length back = length x /\
    Qcle (csumsq (cvsub back x)) (csumsq (cvsub q y)).
Proof.
  intros (H1 & H56 & Hev) Hs Hq. set (K := rdim (length x)) in *.
  destruct (rdim_spec _ H1) as [_ Hle]. fold K in Hle.
  assert (HK : (Z.of_nat K <= 56)%Z) by (unfold K, rdim; rewrite Z2Nat.id by apply Z.log2_up_nonneg; exact H56).
  apply Nat.even_spec in Hev. destruct Hev as [m Hm].
  set (rc := Q2Qc (inject_Z (2 ^ Z.of_nat m))). set (c := Qcinv rc).
  assert (Hrc : Qcmult rc rc = cpow2 K).
  { rewrite Hm. replace (2 * m)%nat with (m + m)%nat by lia. rewrite cpow2_add, cpow2_inject. reflexivity. }
  assert (Hrn : rc <> C0) by (unfold rc; rewrite <- cpow2_inject; apply cpow2_nonzero).
  assert (Hinv : Qcmult c rc = C1) by (apply Qcmult_inv_l, Hrn).
  assert (Hcc : Qcmult (Qcmult c c) (cpow2 K) = C1).
  { rewrite <- Hrc. transitivity (Qcmult (Qcmult c rc) (Qcmult c rc)); [ring|]. rewrite Hinv. ring. }
  set (mz := (2 ^ K - length x)%nat).
  set (p := cvsign s x ++ cvzero mz).
  assert (Lp : length p = (2 ^ K)%nat) by (unfold p; rewrite app_length, (CR vsign_length), (CR vzero_length) by exact Hs; unfold mz; lia).
  set (sg := s ++ repeat false mz).
  assert (Lsg : length sg = (2 ^ K)%nat) by (unfold sg; rewrite app_length, repeat_length; unfold mz; lia).
  (* the rotation *)
  assert (Ey : crot s x = Some (cvscale c (cwht K p))).
  { unfold crot. rewrite (CR rot_spec) by assumption. fold K.
    replace (2 ^ Z.of_nat K)%Z with (2 ^ Z.of_nat (2 * m))%Z by (rewrite Hm; reflexivity).
    rewrite qsqrt_exact_even. reflexivity. }
  (* the inverse on q *)
  assert (Eb : cinv s q (Z.of_nat (length x)) = Some (cvscale c (firstn (length x) (cvsign sg (cwht K q))))).
  { unfold cinv. rewrite (CR inv_rot_spec s q [Z.of_nat (length x)] K Hq HK).
    replace (2 ^ Z.of_nat K)%Z with (2 ^ Z.of_nat (2 * m))%Z by (rewrite Hm; reflexivity).
    rewrite qsqrt_exact_even. cbn [prodZ]. rewrite Z.mul_1_r, Nat2Z.id. replace (2 ^ K - length s)%nat with mz by (unfold mz; lia). reflexivity. }
  exists (cvscale c (cwht K p)), (cvscale c (firstn (length x) (cvsign sg (cwht K q)))).
  split; [exact Ey|]. split; [exact Eb|].
  assert (Lwp : length (cwht K p) = (2 ^ K)%nat) by (apply (CR wht_length), Lp).
  assert (Lwq : length (cwht K q) = (2 ^ K)%nat) by (apply (CR wht_length), Hq).
  split; [rewrite (CR vscale_length); exact Lwp|].
  split; [rewrite (CR vscale_length), firstn_length, (CR vsign_length) by lia; lia|].
  set (y := cvscale c (cwht K p)).
  set (e := cvsub q y).
  assert (Ly : length y = (2 ^ K)%nat) by (unfold y; rewrite (CR vscale_length); exact Lwp).
  (* un-rotating y gives back the padded input *)
  assert (Uy : cvscale c (cvsign sg (cwht K y)) = x ++ cvzero mz).
  { unfold y. rewrite (CR wht_vscale) by exact Lwp. rewrite (CR wht_involution) by exact Lp.
    rewrite (CR vscale_vscale c (cpow2 K) p). rewrite <- (CR vscale_vsign (Qcmult c (cpow2 K)) sg p).
    rewrite (CR vscale_vscale).
    assert (Hone : Qcmult c (Qcmult c (cpow2 K)) = C1) by (transitivity (Qcmult (Qcmult c c) (cpow2 K)); [ring|exact Hcc]).
    rewrite Hone, (CR vscale_one). unfold sg, p. rewrite (CR vsign_app) by (rewrite (CR vsign_length) by exact Hs; exact Hs).
    rewrite (CR vsign_vsign) by exact Hs. f_equal. apply (CR vsign_vzero). apply repeat_length. }
  (* un-rotating q = un-rotating e plus the padded input *)
  assert (Ue : cvscale c (cvsign sg (cwht K e)) = cvsub (cvscale c (cvsign sg (cwht K q))) (x ++ cvzero mz)).
  { assert (Lwy : length (cwht K y) = (2 ^ K)%nat) by (apply (CR wht_length), Ly).
    unfold e. rewrite (CR wht_vsub) by assumption.
    rewrite (CR vsign_vsub) by (rewrite Lwq, Lwy; reflexivity). rewrite (CR vscale_vsub) by (rewrite !(CR vsign_length) by lia; lia).
    rewrite Uy. reflexivity. }
  assert (Back : cvsub (cvscale c (firstn (length x) (cvsign sg (cwht K q)))) x
               = firstn (length x) (cvscale c (cvsign sg (cwht K e)))).
  { rewrite Ue, (CR firstn_vsub), (CR firstn_vscale). f_equal.
    rewrite firstn_app, Nat.sub_diag, firstn_all. cbn [firstn]. rewrite app_nil_r. reflexivity. }
  rewrite Back.
  eapply Qcle_trans; [apply csumsq_firstn_le|].
  assert (Le : length e = (2 ^ K)%nat) by (unfold e; rewrite (CR vsub_length); lia).
  rewrite (CR sumsq_vscale), (CR sumsq_vsign) by (rewrite (CR wht_length) by exact Le; exact Lsg).
  rewrite (CR wht_parseval) by exact Le.
  assert (Hfin : Qcmult (Qcmult c c) (Qcmult (cpow2 K) (csumsq e)) = csumsq e).
  { transitivity (Qcmult (Qcmult (Qcmult c c) (cpow2 K)) (csumsq e)); [ring|]. rewrite Hcc. ring. }
  rewrite Hfin. apply Qcle_refl.
Qed.

Lemma q2c_c2q (l : list Qc) : q2c (c2q l) = l.
Proof.
  unfold q2c, c2q. rewrite map_map. rewrite <- (map_id l) at 2. apply map_ext. intros a.
  apply Qc_is_canon. cbn [this Q2Qc]. apply Qred_correct.
Qed.

(* the whole per-leaf pipeline of the model (rotate, quantise with ANY finite length-preserving f, rotate back):
   defined, size-preserving, and its error in the original space is at most the error f makes in the rotated space *)
Theorem through_rotation_error f (fq : list Q -> list Q) (s : list bool) (xq : list Q) :
  rot_leaf_ok (length xq) -> length s = length xq ->
  (forall y, length y = (2 ^ rdim (length xq))%nat -> f (lift y) = lift (fq y) /\ length (fq y) = length y) ->
  exists y w, qrot s xq = Some y /\ through_rotation f s (lift xq) = Some (lift w) /\ length w = length xq /\
    Qcle (csumsq (cvsub (q2c w) (q2c xq))) (csumsq (cvsub (q2c (fq y)) (q2c y))).
Proof.
  intros Hok Hs Hf.
  assert (Lx : length (q2c xq) = length xq) by (unfold q2c; apply map_length).
  assert (Hok' : rot_leaf_ok (length (q2c xq))) by (rewrite Lx; exact Hok).
  destruct (crot_defined s (q2c xq) Hok') as (yc & Hyc & Lyc). rewrite Lx in Lyc.
  assert (Ly : length (c2q yc) = (2 ^ rdim (length xq))%nat) by (unfold c2q; rewrite map_length; exact Lyc).
  destruct (Hf (c2q yc) Ly) as [Ef Lf].
  destruct (rot_roundtrip_error s (q2c xq) (q2c (fq (c2q yc))) Hok') as (y' & back & Ey & Eb & _ & Lb & Hle).
  { rewrite Lx. exact Hs. }
  { rewrite Lx. unfold q2c. rewrite map_length, Lf. exact Ly. }
  rewrite Hyc in Ey. injection Ey as <-. rewrite Lx in Eb, Lb.
  exists (c2q yc), (c2q back).
  assert (Eq : qrot s xq = Some (c2q yc)) by (unfold qrot; rewrite Hyc; reflexivity).
  split; [exact Eq|]. split.
  { unfold through_rotation. rewrite lower_lift, Eq, Ef, lower_lift. unfold qinv. rewrite Eb. reflexivity. }
  split; [unfold c2q; rewrite map_length; exact Lb|].
  rewrite !q2c_c2q. exact Hle.
Qed.
