(* C17 lemmas about the definitions of Model/C17_Model.v (the ones C17_agree evaluates). *)
From Coq Require Import ZArith QArith Qminmax Qabs List Bool Lia Lqa Setoid Morphisms.
From FV Require Import Common.ListX Common.CMonoid Common.NanQ Common.QVec Model.C17_Model.
From FV Require gen.Gen_c17_agnostic gen.Gen_c17_hyp_cluster gen.Gen_c17_apfl gen.Gen_c17_mime_lite gen.Gen_c17_optimizers gen.Gen_tree_util gen.Gen_util.
Import ListNotations.
Local Open Scope Q_scope.

(* ---------------- exponentiated gradient keeps the simplex ---------------- *)
Lemma map2_max_zero m : map2 Qmax m (map (fun _ : Q => 0) m) = map (fun p => Qmax p 0) m.
Proof. induction m as [|x m IH]; cbn; [reflexivity|]. rewrite IH. reflexivity. Qed.

Lemma eg_raw_spec w e : eg_raw w e = map (fun p => Qmax p 0) (map2 Qmult w e).
Proof. unfold eg_raw. apply map2_max_zero. Qed.

Lemma eg_raw_nonneg w e : Forall (fun x => 0 <= x) (eg_raw w e).
Proof. rewrite eg_raw_spec. apply Forall_forall. intros x H. apply in_map_iff in H as (y & <- & _). apply Q.le_max_r. Qed.

Lemma eg_raw_pos : forall w e, length w = length e ->
  Forall (fun x => 0 <= x) w -> Forall (fun x => 0 < x) e -> 0 < qsum w -> 0 < qsum (eg_raw w e).
Proof.
  intros w e. rewrite eg_raw_spec. revert e.
  induction w as [|x w IH]; intros [|y e] L Hw He S; cbn in *; try discriminate; try lra.
  inversion Hw; subst. inversion He; subst.
  pose proof (qsum_nonneg _ (eg_raw_nonneg w e)) as N. rewrite eg_raw_spec in N.
  destruct (Qlt_le_dec 0 x) as [P|P].
  - assert (0 < x * y) by nra. pose proof (Q.le_max_l (x * y) 0). lra.
  - assert (x == 0) by lra. assert (0 < qsum w) by lra.
    specialize (IH e ltac:(lia) H2 H4 H0).
    pose proof (Q.le_max_r (x * y) 0). lra.
Qed.

Lemma qsum_div l s : qsum (map (fun x => x / s) l) == qsum l / s.
Proof. induction l as [|x l IH]; cbn; [unfold Qdiv; ring|]. rewrite IH. unfold Qdiv. ring. Qed.

Lemma eg_simplex w e : length w = length e ->
  Forall (fun x => 0 <= x) w -> 0 < qsum w -> Forall (fun x => 0 < x) e ->
  Forall (fun x => 0 <= x) (eg_update w e) /\ qsum (eg_update w e) == 1.
Proof.
  intros L Hw S He. pose proof (eg_raw_pos w e L Hw He S) as P. unfold eg_update. cbv zeta. split.
  - apply Forall_forall. intros x H. apply in_map_iff in H as (y & <- & Hy).
    pose proof (eg_raw_nonneg w e) as N. rewrite Forall_forall in N. specialize (N y Hy).
    apply Qle_shift_div_l; lra.
  - rewrite qsum_div. field. lra.
Qed.

Definition simplex (w : list Q) : Prop := Forall (fun x => 0 <= x) w /\ qsum w == 1.

Lemma eg_update_length w e : length w = length e -> length (eg_update w e) = length w.
Proof. intros L. unfold eg_update. cbv zeta. rewrite eg_raw_spec, !map_length, map2_length. lia. Qed.

Lemma eg_run_simplex es : forall w, simplex w ->
  Forall (fun e => length e = length w /\ Forall (fun x => 0 < x) e) es -> simplex (eg_run w es).
Proof.
  induction es as [|e es IH]; intros w [Hw S] F; cbn; [split; assumption|].
  inversion F as [|? ? [L He] F']; subst.
  destruct (eg_simplex w e (eq_sym L) Hw ltac:(lra) He) as [A B].
  apply IH; [split; assumption|].
  rewrite eg_update_length by (symmetry; exact L).
  exact F'.
Qed.

(* ---------------- the sliding window ---------------- *)
Lemma window_update_length {A} (win : list A) x : (1 <= length win)%nat -> length (window_update win x) = length win.
Proof. unfold window_update, Gen_c17_agnostic.window_shift. destruct win; cbn; [lia|]. intros _. rewrite app_length. cbn. lia. Qed.

Lemma window_run_spec {A} (hist : list A) : forall init, (1 <= length init)%nat ->
  length (window_run init hist) = length init /\
  window_run init hist = skipn (length hist) (init ++ hist).
Proof.
  induction hist as [|x h IH]; intros init L.
  - cbn. rewrite app_nil_r. split; reflexivity.
  - destruct init as [|a t]; [cbn in L; lia|].
    assert (L' : (1 <= length (window_update (a :: t) x))%nat) by (rewrite window_update_length; cbn; lia).
    destruct (IH _ L') as [I1 I2]. unfold window_run in *. cbn [fold_left length]. split.
    + rewrite I1. rewrite window_update_length by (cbn; lia). reflexivity.
    + rewrite I2. unfold window_update, Gen_c17_agnostic.window_shift. cbn [skipn app].
      rewrite <- app_assoc. reflexivity.
Qed.

(* ---------------- APFL: the unit box ---------------- *)
Lemma clip01_box x : 0 <= clip01 x <= 1.
Proof.
  unfold clip01, Gen_c17_apfl.apfl_clip_lo, Gen_c17_apfl.apfl_clip_hi. split.
  - apply Q.min_glb; [apply Q.le_max_r | lra].
  - apply Q.le_min_r.
Qed.

(* any update rule (any optimizer), clipped after every step *)
Definition clipped_run {G} (upd : Q -> G -> Q) (a0 : Q) (gs : list G) : Q :=
  fold_left (fun a g => clip01 (upd a g)) gs a0.

Lemma clipped_run_box {G} (upd : Q -> G -> Q) gs : forall a0, 0 <= a0 <= 1 -> 0 <= clipped_run upd a0 gs <= 1.
Proof. induction gs; cbn; intros a0 H; [exact H|]. apply IHgs. apply clip01_box. Qed.

Lemma apfl_run_is_clipped_run lr a0 gs : apfl_run lr a0 gs = clipped_run (fun a g => a - lr * g) a0 gs.
Proof. reflexivity. Qed.

(* ---------------- APFL: the per-client table ---------------- *)
Lemma table_set_keys {V} (t : list (Z * V)) k0 v k :
  In k (map fst (table_set t k0 v)) <-> k = k0 \/ In k (map fst t).
Proof.
  induction t as [|[k' v'] t IH]; cbn.
  - split; [intros [H|[]]; auto | intros [H|[]]; auto].
  - destruct (Z.eqb k0 k') eqn:E; cbn.
    + apply Z.eqb_eq in E. subst. split; [intros [H|H]; auto | intros [H|[H|H]]; auto].
    + destruct (Z.ltb k0 k'); cbn.
      * split; [intros [H|[H|H]]; auto | intros [H|[H|H]]; auto].
      * rewrite IH. split; [intros [H|[H|H]]; auto | intros [H|[H|H]]; auto].
Qed.

Lemma table_get_set_other {V} (t : list (Z * V)) k0 v k : k <> k0 -> table_get (table_set t k0 v) k = table_get t k.
Proof.
  intros N. induction t as [|[k' v'] t IH]; cbn.
  - destruct (Z.eqb k k0) eqn:E; [apply Z.eqb_eq in E; contradiction | reflexivity].
  - destruct (Z.eqb k0 k') eqn:E; cbn.
    + apply Z.eqb_eq in E. subst k'. destruct (Z.eqb k k0) eqn:E'; [apply Z.eqb_eq in E'; contradiction | reflexivity].
    + destruct (Z.ltb k0 k'); cbn.
      * destruct (Z.eqb k k0) eqn:E'; [apply Z.eqb_eq in E'; contradiction | reflexivity].
      * rewrite IH. reflexivity.
Qed.

Lemma table_step_keys {V} (outs : list (Z * V)) : forall t k,
  In k (map fst (table_step t outs)) <-> In k (map fst t) \/ In k (map fst outs).
Proof.
  induction outs as [|[k0 v0] outs IH]; intros t k; cbn.
  - tauto.
  - unfold table_step in *. cbn. rewrite IH, table_set_keys. cbn. intuition.
Qed.

Lemma table_step_other {V} (outs : list (Z * V)) : forall t k,
  ~ In k (map fst outs) -> table_get (table_step t outs) k = table_get t k.
Proof.
  induction outs as [|[k0 v0] outs IH]; intros t k N; cbn; [reflexivity|].
  unfold table_step in *. cbn in *. rewrite IH by tauto. apply table_get_set_other. intros ->. tauto.
Qed.

Lemma table_run_keys_from {V} (rounds : list (list (Z * V))) : forall t k,
  In k (map fst (fold_left table_step rounds t)) <-> In k (map fst t) \/ exists r, In r rounds /\ In k (map fst r).
Proof.
  induction rounds as [|r rounds IH]; intros t k; cbn.
  - split; [auto | intros [H|(r & [] & _)]; exact H].
  - rewrite IH, table_step_keys. split.
    + intros [[H|H]|(r' & H1 & H2)]; eauto 6.
    + intros [H|(r' & [->|H1] & H2)]; eauto 6.
Qed.

Lemma table_run_keys {V} (rounds : list (list (Z * V))) k :
  In k (map fst (table_run rounds)) <-> exists r, In r rounds /\ In k (map fst r).
Proof. unfold table_run. rewrite table_run_keys_from. cbn. split; [intros [[]|H]; exact H | auto]. Qed.

(* ---------------- HypCluster: argmin ---------------- *)
Lemma argmin_from_spec l : forall pre best bi, (bi < length pre)%nat -> nth bi pre 0 = best ->
  (forall j, (j < length pre)%nat -> best <= nth j pre 0) ->
  (forall j, (j < bi)%nat -> best < nth j pre 0) ->
  let a := argmin_from best bi (length pre) l in
  let full := pre ++ l in
  (a < length full)%nat /\ (forall j, (j < length full)%nat -> nth a full 0 <= nth j full 0) /\
  (forall j, (j < a)%nat -> nth a full 0 < nth j full 0).
Proof.
  induction l as [|x r IH]; intros pre best bi B E LE LT; cbn zeta.
  - cbn [argmin_from]. rewrite app_nil_r. rewrite E. repeat split; auto.
  - cbn [argmin_from].
    assert (EQ : pre ++ x :: r = (pre ++ [x]) ++ r) by (rewrite <- app_assoc; reflexivity).
    assert (LEN : S (length pre) = length (pre ++ [x])) by (rewrite app_length; cbn; lia).
    rewrite EQ, LEN.
    destruct (Qltb x best) eqn:C.
    + apply Qltb_lt in C. apply IH.
      * rewrite app_length; cbn; lia.
      * rewrite app_nth2, Nat.sub_diag by lia. reflexivity.
      * intros j Hj. rewrite app_length in Hj; cbn in Hj.
        destruct (Nat.eq_dec j (length pre)) as [->|N].
        -- rewrite app_nth2, Nat.sub_diag by lia. cbn. lra.
        -- rewrite app_nth1 by lia. specialize (LE j ltac:(lia)). lra.
      * intros j Hj. rewrite app_nth1 by lia. specialize (LE j Hj). lra.
    + apply Qltb_ge in C. apply IH.
      * rewrite app_length; cbn; lia.
      * rewrite app_nth1 by lia. exact E.
      * intros j Hj. rewrite app_length in Hj; cbn in Hj.
        destruct (Nat.eq_dec j (length pre)) as [->|N].
        -- rewrite app_nth2, Nat.sub_diag by lia. cbn. exact C.
        -- rewrite app_nth1 by lia. apply LE. lia.
      * intros j Hj. rewrite app_nth1 by lia. apply LT. exact Hj.
Qed.

Lemma argmin_first_spec l : l <> [] ->
  let a := argmin_first l in
  (a < length l)%nat /\ (forall j, (j < length l)%nat -> nth a l 0 <= nth j l 0) /\
  (forall j, (j < a)%nat -> nth a l 0 < nth j l 0).
Proof.
  destruct l as [|x r]; [congruence|]. intros _. unfold argmin_first.
  apply (argmin_from_spec r [x] x 0%nat); cbn; auto; try lia.
  - intros j Hj. assert (j = 0)%nat by lia. subst. cbn. lra.
Qed.

(* ---------------- HypCluster: per-cluster running sums ---------------- *)
Lemma upd_nth_length {A} (l : list A) : forall i f, length (upd_nth l i f) = length l.
Proof. induction l; destruct i; cbn; auto. Qed.

Lemma nth_upd_nth {A} (l : list A) : forall i k f d, (k < length l)%nat ->
  nth k (upd_nth l i f) d = if Nat.eqb i k then f (nth k l d) else nth k l d.
Proof.
  induction l as [|x l IH]; intros i k f d H; cbn in H; [lia|].
  destruct i, k; cbn; auto. apply IH. lia.
Qed.

Definition own (k : nat) (cl : list hclient) : list hclient := filter (fun c => Nat.eqb (fst (fst c)) k) cl.

Definition own_step (acc : vec * Q) (c : hclient) : vec * Q :=
  (vadd (fst acc) (vscale (snd (fst c)) (snd c)), snd acc + snd (fst c)).

Lemma cluster_fold_own cl : forall acc k d, (k < length acc)%nat ->
  nth k (fold_left cluster_step cl acc) d = fold_left own_step (own k cl) (nth k acc d).
Proof.
  induction cl as [|[[a n] dl] cl IH]; intros acc k d H; cbn; [reflexivity|].
  rewrite IH by (rewrite upd_nth_length; exact H).
  rewrite nth_upd_nth by exact H. destruct (Nat.eqb a k); reflexivity.
Qed.

Lemma cluster_sums_own K dim cl k : (k < K)%nat ->
  nth k (cluster_sums K dim cl) (vzero dim, 0) = fold_left own_step (own k cl) (vzero dim, 0).
Proof.
  intros H. unfold cluster_sums. rewrite cluster_fold_own by (rewrite repeat_length; exact H).
  f_equal. apply nth_repeat.
Qed.

Lemma cluster_sums_length K dim cl : length (cluster_sums K dim cl) = K.
Proof.
  unfold cluster_sums. generalize (repeat (vzero dim, 0) K) as acc, (repeat_length (vzero dim, 0) K).
  induction cl as [|[[a n] dl] cl IH]; intros acc L; cbn; [exact L|].
  apply IH. rewrite upd_nth_length. exact L.
Qed.

Lemma own_step_count l : forall acc, snd (fold_left own_step l acc) == snd acc + qsum (map (fun c => snd (fst c)) l).
Proof. induction l as [|c l IH]; intros acc; cbn; [ring|]. rewrite IH. cbn. ring. Qed.

Lemma cluster_delta_own K dim cl k : (k < K)%nat ->
  nth k (cluster_deltas K dim cl) None = cluster_delta (fold_left own_step (own k cl) (vzero dim, 0)).
Proof.
  intros H. unfold cluster_deltas.
  rewrite <- (cluster_sums_own K dim cl k H).
  change None with (@None vec).
  assert (E : forall (l : list (vec * Q)) d, (k < length l)%nat -> nth k (map cluster_delta l) None = cluster_delta (nth k l d)).
  { induction l as [|x l IH] in k |- *; intros d Hk; cbn in Hk; [lia|]. destruct k; cbn; auto. apply IH. lia. }
  apply E. rewrite cluster_sums_length. exact H.
Qed.

Lemma cluster_no_examples K dim cl k : (k < K)%nat ->
  Forall (fun c => snd (fst c) == 0) (own k cl) -> nth k (cluster_deltas K dim cl) None = None.
Proof.
  intros H F. rewrite cluster_delta_own by exact H. unfold cluster_delta, Gen_c17_hyp_cluster.cluster_delta_gen.
  assert (Z0 : snd (fold_left own_step (own k cl) (vzero dim, 0)) == 0).
  { rewrite own_step_count. cbn. rewrite qsum_zero; [ring|].
    apply Forall_forall. intros x Hx. apply in_map_iff in Hx as (c & <- & Hc). rewrite Forall_forall in F. exact (F c Hc). }
  destruct (Qltb 0 (snd (fold_left own_step (own k cl) (vzero dim, 0)))) eqn:C; [|reflexivity]. apply Qltb_lt in C. lra.
Qed.

Lemma empty_cluster_untouched {S} (opt : vec -> S -> vec -> S * vec) K dim cl k s p : (k < K)%nat ->
  Forall (fun c => snd (fst c) == 0) (own k cl) ->
  hyp_server_step opt (nth k (cluster_deltas K dim cl) None) s p = (s, p).
Proof. intros H F. rewrite (cluster_no_examples K dim cl k H F). reflexivity. Qed.

(* ---------------- MimeLite: clipping by global norm ---------------- *)
Lemma clip_norm_bound bound d n : 0 <= n -> n * n == sumsq d -> 0 <= bound ->
  sumsq (clip_delta bound d n) <= bound * bound.
Proof.
  intros Hn Hs Hb. unfold clip_delta, clip_scale. rewrite sumsq_vscale.
  destruct (Qltb bound n) eqn:E.
  - apply Qltb_lt in E. assert (P : 0 < n) by lra.
    assert (S1 : bound / n * n == bound) by (field; lra).
    rewrite <- Hs. setoid_replace (bound / n * (bound / n) * (n * n)) with ((bound / n * n) * (bound / n * n)) by ring.
    rewrite S1. lra.
  - apply Qltb_ge in E. rewrite <- Hs. nra.
Qed.

Lemma clipped_clients_bounded bound cl : 0 <= bound ->
  Forall (fun c => 0 <= snd c /\ snd c * snd c == sumsq (snd (fst c))) cl ->
  Forall (fun c => sumsq (snd c) <= bound * bound) (clipped_clients bound cl).
Proof.
  intros Hb F. unfold clipped_clients. apply Forall_forall. intros x Hx.
  apply in_map_iff in Hx as ([[n d] nd] & <- & Hc). rewrite Forall_forall in F. destruct (F _ Hc) as [A B]. cbn in *.
  apply clip_norm_bound; assumption.
Qed.

Lemma mimelite_aggregates_clipped bound cl : 0 <= bound ->
  Forall (fun c => 0 <= snd c /\ snd c * snd c == sumsq (snd (fst c))) cl ->
  Forall (fun c => sumsq (snd c) <= bound * bound) (clipped_clients bound cl) /\
  forall slr p, mimelite_params bound slr p cl = vsub p (vscale slr (mean_clients (length p) (clipped_clients bound cl))).
Proof. intros Hb F. split; [exact (clipped_clients_bounded bound cl Hb F) | reflexivity]. Qed.

(* ---------------- ignore_grads ---------------- *)
Section IgnoreProofs.
Context {K V S : Type} (named : K -> bool) (keqb : K -> K -> bool).
Hypothesis keqb_eq : forall a b, keqb a b = true <-> a = b.

Lemma tree_get_in (t : list (K * V)) : NoDup (map fst t) -> forall k v, In (k, v) t -> tree_get keqb t k = Some v.
Proof.
  induction t as [|[k' v'] t IH]; intros ND k v H; cbn in *; [contradiction|].
  inversion ND; subst. destruct H as [H|H].
  - inversion H; subst. rewrite (proj2 (keqb_eq k k) eq_refl). reflexivity.
  - destruct (keqb k k') eqn:E.
    + apply keqb_eq in E. subst. exfalso. apply H2. apply in_map_iff. exists (k', v). auto.
    + apply IH; assumption.
Qed.

Lemma put_back_keys (p r : list (K * V)) : map fst (put_back named keqb p r) = map fst p.
Proof. unfold put_back. rewrite map_map. apply map_ext. intros [k v]. cbn. destruct (named k); reflexivity. Qed.

Lemma put_back_named (p r : list (K * V)) i kv : nth_error p i = Some kv -> named (fst kv) = true ->
  nth_error (put_back named keqb p r) i = Some kv.
Proof. intros H N. unfold put_back. rewrite nth_error_map, H. cbn. rewrite N. reflexivity. Qed.

Lemma restrict_put_back (p : list (K * V)) : forall q r,
  map fst q = map fst (restrict named p) -> (forall k v, In (k, v) q -> tree_get keqb r k = Some v) ->
  restrict named (put_back named keqb p r) = q.
Proof.
  induction p as [|[k v] p IH]; intros q r M G; cbn in *.
  - destruct q; [reflexivity | discriminate].
  - destruct (named k) eqn:N; cbn; rewrite N; cbn.
    + apply IH; assumption.
    + destruct q as [|[k' v'] q]; cbn in M; [discriminate|]. inversion M; subst.
      rewrite (G k v') by (left; reflexivity). f_equal. apply IH; [assumption|].
      intros k0 v0 H. apply G. right. exact H.
Qed.

Lemma ignore_apply_spec (base : list (K * V) -> S -> list (K * V) -> S * list (K * V)) g s p :
  NoDup (map fst p) ->
  map fst (snd (base (restrict named g) s (restrict named p))) = map fst (restrict named p) ->
  let res := ignore_apply named keqb base g s p in
  let b := base (restrict named g) s (restrict named p) in
  map fst (snd res) = map fst p /\
  (forall i kv, nth_error p i = Some kv -> named (fst kv) = true -> nth_error (snd res) i = Some kv) /\
  restrict named (snd res) = snd b /\ fst res = fst b.
Proof.
  intros ND KEYS. cbv zeta. unfold ignore_apply.
  destruct (base (restrict named g) s (restrict named p)) as [s' p'] eqn:B. cbn in *.
  split; [apply put_back_keys|]. split; [intros; apply put_back_named; assumption|]. split; [|reflexivity].
  apply restrict_put_back; [exact KEYS|].
  intros k v H. apply tree_get_in; [|exact H].
  rewrite KEYS. unfold restrict.
  clear - ND. induction p as [|[k0 v0] p IH]; cbn in *; [constructor|].
  inversion ND; subst. destruct (named k0); cbn; [apply IH; assumption|].
  constructor; [|apply IH; assumption].
  intros C. apply H1. apply in_map_iff in C as (x & <- & Hx). apply filter_In in Hx as [Hx _].
  apply in_map_iff. exists x. auto.
Qed.
End IgnoreProofs.

(* ---------------- tie to the source: translated kernels (tools/anchors/c17_algorithms.py) ---------------- *)
Lemma map2_lift2 (f : Q -> Q -> Q) a : forall b,
  map2 (NanQ.lift2 f) (map Some a) (map Some b) = map Some (map2 f a b).
Proof. induction a as [|x a IH]; intros [|y b]; cbn; auto. rewrite IH. reflexivity. Qed.

(* the 'eg' branch of update_domain_weights as translated, on finite inputs whose raw weights do not sum
   to zero, IS eg_update (e standing for exp(lr * loss)) *)
Lemma eg_matches_code w e : ~ qsum (eg_raw w e) == 0 ->
  Gen_c17_agnostic.update_domain_weights_eg (map Some w) (map Some e) = map Some (eg_update w e).
Proof.
  intros NZ. unfold Gen_c17_agnostic.update_domain_weights_eg, eg_update. cbv zeta.
  change NanQ.mul with (NanQ.lift2 Qmult). change NanQ.max with (NanQ.lift2 Qmax).
  rewrite map2_lift2.
  replace (map (fun _ : NanQ.t => NanQ.zero) (map Some (map2 Qmult w e))) with (map Some (map (fun _ : Q => 0) (map2 Qmult w e)))
    by (rewrite !map_map; reflexivity).
  rewrite map2_lift2. fold (eg_raw w e).
  rewrite NanQ.sum_Some, <- qsum_fold_right, !map_map. apply map_ext. intros x. apply NanQ.div_Some. exact NZ.
Qed.

(* tree_clip_by_global_norm as translated (gen/Gen_tree_util.v), with the norm supplied: IS clip_delta *)
Lemma clip_matches_code (l2 : list NanQ.t -> NanQ.t) bound d n : 0 <= bound -> l2 (map Some d) = Some n ->
  Gen_tree_util.tree_clip_by_global_norm l2 (map Some d) (Some bound) = map Some (clip_delta bound d n).
Proof.
  intros Hb HN. unfold Gen_tree_util.tree_clip_by_global_norm, clip_delta, clip_scale, vscale. cbv zeta. rewrite HN.
  unfold NanQ.gtb, NanQ.ltb. destruct (Qltb bound n) eqn:E; cbn [NanQ.where_].
  - apply Qltb_lt in E. rewrite NanQ.div_Some by lra. rewrite !map_map. reflexivity.
  - rewrite !map_map. reflexivity.
Qed.

(* the structural facts the model relies on, as found in the source on this run *)
Lemma code_structure :
  Gen_c17_agnostic.server_update_passes_weights_through = true /\
  Gen_c17_agnostic.empty_cohort_gives_zeros = true /\
  Gen_c17_hyp_cluster.accumulate_into_assigned_cluster = true /\
  Gen_c17_hyp_cluster.assignment_is_argmin = true /\
  Gen_c17_mime_lite.clip_before_aggregate = true /\ Gen_c17_mime_lite.clip_uses_global_norm = true /\
  Gen_c17_mime_lite.mean_is_rescaled_again = false /\
  Gen_c17_apfl.clip_follows_optimizer_step = true /\ Gen_c17_apfl.table_is_copied_then_set = true /\
  Gen_c17_apfl.apfl_clip_lo == 0 /\ Gen_c17_apfl.apfl_clip_hi == 1 /\
  Gen_c17_optimizers.ignore_masks_named_to_none = true /\ Gen_c17_optimizers.ignore_restores_named_from_input = true.
Proof. repeat split; reflexivity. Qed.

Lemma model_uses_translated_code :
  (forall A (win : list A) x, window_update win x = Gen_c17_agnostic.window_shift win x) /\
  (forall S (opt : vec -> S -> vec -> S * vec) d s p,
     hyp_server_step opt d s p = Gen_c17_hyp_cluster.hyp_server_step_gen opt d s p) /\
  (forall st, cluster_delta st = Gen_c17_hyp_cluster.cluster_delta_gen (fun s n => vscale (/ n) s) (fst st) (snd st)) /\
  (forall x, clip01 x = Qmin (Qmax x Gen_c17_apfl.apfl_clip_lo) Gen_c17_apfl.apfl_clip_hi).
Proof. repeat split; reflexivity. Qed.


(* ---------------- AgnosticFedAvg: the client scaling (alpha, beta, scaled loss) never leaves the finite values ---------------- *)
Lemma safe_div_finite a b : exists q, Gen_util.safe_div (Some a) (Some b) = Some q.
Proof.
  unfold Gen_util.safe_div, NanQ.neb, NanQ.eqb, NanQ.of_Q. cbn.
  destruct (Qeq_bool b 0) eqn:E; cbn.
  - eexists. reflexivity.
  - rewrite E. eexists. reflexivity.
Qed.

Lemma map2_safe_div_finite w : forall m, exists l, map2 Gen_util.safe_div (map Some w) (map Some m) = map Some l.
Proof.
  induction w as [|x w IH]; intros [|y m]; cbn [map map2]; try (exists []; reflexivity).
  destruct (safe_div_finite x y) as [q Hq]. destruct (IH m) as [l Hl]. exists (q :: l). cbn [map]. rewrite Hq, Hl. reflexivity.
Qed.

Lemma sum_mul_finite a b : exists q, NanQ.sum (map2 NanQ.mul (map Some a) (map Some b)) = Some q.
Proof. change NanQ.mul with (NanQ.lift2 Qmult). rewrite map2_lift2, NanQ.sum_Some. eexists. reflexivity. Qed.

(* with finite weights, window means (zero allowed: a starved domain), counts and losses, and ANY finite beta (zero
   allowed: a client without examples of a live domain), alpha, beta and the scaled loss are finite *)
Lemma agnostic_scaling_finite w m num sl :
  exists al be, Gen_c17_agnostic.alpha_gen (map Some w) (map Some m) = map Some al /\
                Gen_c17_agnostic.beta_gen (map Some al) (map Some num) = Some be /\
                exists lo, Gen_c17_agnostic.scaled_loss_gen (map Some al) (map Some sl) (Some be) = Some lo.
Proof.
  destruct (map2_safe_div_finite w m) as [al Ha]. destruct (sum_mul_finite al num) as [be Hb].
  exists al, be. split; [exact Ha|]. split; [exact Hb|].
  unfold Gen_c17_agnostic.scaled_loss_gen. destruct (sum_mul_finite al sl) as [x Hx]. rewrite Hx. apply safe_div_finite.
Qed.

(* ---------------- HypCluster: the model's running sums ARE the translated loop body of expectation_step ---------------- *)
Lemma cluster_step_is_code acc a n d :
  (map fst (cluster_step acc (a, n, d)), map snd (cluster_step acc (a, n, d))) =
  Gen_c17_hyp_cluster.expectation_accumulate vadd (fun dl w => vscale w dl) (map fst acc) (map snd acc) a d n.
Proof.
  unfold cluster_step, Gen_c17_hyp_cluster.expectation_accumulate. revert a.
  induction acc as [|[s c] acc IH]; intros [|a]; cbn; try reflexivity.
  specialize (IH a). inversion IH as [[H1 H2]]. rewrite H1, H2. reflexivity.
Qed.

(* the vector operations of the model are the translated tree_util operations on finite values *)
Lemma tree_ops_are_vector_ops :
  (forall a b, Gen_tree_util.tree_add (map Some a) (map Some b) = map Some (vadd a b)) /\
  (forall d n, Forall2 NanQ.eq (Gen_tree_util.tree_weight (map Some d) (Some n)) (map Some (vscale n d))) /\
  (forall s n, 0 < n -> Forall2 NanQ.eq (Gen_tree_util.tree_inverse_weight (map Some s) (Some n)) (map Some (vscale (/ n) s))).
Proof.
  split; [|split].
  - intros a b. unfold Gen_tree_util.tree_add, vadd. change NanQ.add with (NanQ.lift2 Qplus). apply map2_lift2.
  - intros d n. unfold Gen_tree_util.tree_weight, vscale. induction d as [|x d IH]; cbn; constructor; auto. cbn. ring.
  - intros s n P. unfold Gen_tree_util.tree_inverse_weight, Gen_tree_util.tree_weight, vscale. cbv zeta.
    unfold NanQ.gtb, NanQ.ltb, NanQ.of_Q. assert (L : Qltb 0 n = true) by (apply Qltb_lt; exact P).
    replace (Qltb (0 # 1) n) with true by (symmetry; exact L). cbn [NanQ.where_].
    rewrite NanQ.div_Some by lra.
    induction s as [|x s IH]; cbn; constructor; auto. cbn. field. lra.
Qed.
