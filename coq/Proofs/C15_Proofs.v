From Coq Require Import ZArith List Bool Lia Permutation.
From FV Require Import Common.ListX Common.PySem Common.Batch Common.Chunk Model.C03_Model
  Proofs.C03_Proofs Model.C15_Model.
Import ListNotations.
Local Open Scope Z_scope.

(* ------------------------------------------------------------------ *)
(* slots and Lehmer codes                                               *)

Lemma remove_nth_perm {A} : forall (l : list A) k x, nth_error l k = Some x ->
  Permutation l (x :: remove_nth k l).
Proof.
  induction l as [|y l IH]; intros [|k] x H; cbn in *; try discriminate.
  - injection H as ->. reflexivity.
  - apply IH in H. rewrite perm_swap. constructor. exact H.
Qed.

Lemma apply_code_perm {A} : forall code (l : list A), Permutation l (apply_code code l).
Proof.
  induction code as [|k code IH]; intros l; cbn [apply_code]; [reflexivity|].
  destruct (nth_error l k) as [x|] eqn:E; [|reflexivity].
  etransitivity; [apply remove_nth_perm; exact E|]. constructor. apply IH.
Qed.

Lemma set_nth_perm {A} : forall (t : list A) k b0 bk, nth_error t k = Some bk ->
  Permutation (b0 :: t) (bk :: set_nth k b0 t).
Proof.
  induction t as [|y t IH]; intros [|k] b0 bk H; cbn in *; try discriminate.
  - injection H as ->. apply perm_swap.
  - apply (IH k b0 bk) in H.
    transitivity (y :: b0 :: t); [apply perm_swap|].
    transitivity (y :: bk :: set_nth k b0 t); [constructor; exact H|apply perm_swap].
Qed.

Lemma swap_slots_perm {A} (k : nat) (buf : list A) : Permutation buf (swap_slots k buf).
Proof.
  unfold swap_slots. destruct buf as [|b0 t]; [reflexivity|].
  destruct (nth_error (b0 :: t) k) as [bk|] eqn:E; [|reflexivity].
  destruct k as [|k]; cbn in *.
  - injection E as ->. reflexivity.
  - apply set_nth_perm. exact E.
Qed.

(* ------------------------------------------------------------------ *)
(* buffered_shuffle                                                     *)

Lemma set_nth_length {A} : forall (l : list A) k x, length (set_nth k x l) = length l.
Proof. induction l as [|y l IH]; intros [|k] x; cbn; auto. Qed.

Lemma py_index_lt len k i : py_index len k = Some i -> (i < len)%nat.
Proof.
  unfold py_index. destruct (0 <=? k) eqn:E0.
  - apply Z.leb_le in E0. destruct (k <? Z.of_nat len) eqn:E1; [|discriminate].
    apply Z.ltb_lt in E1. intros H. injection H as <-. lia.
  - apply Z.leb_gt in E0. destruct (- Z.of_nat len <=? k) eqn:E1; [|discriminate].
    apply Z.leb_le in E1. intros H. injection H as <-. lia.
Qed.

Lemma py_index_total len k : - Z.of_nat len <= k < Z.of_nat len -> exists i, py_index len k = Some i.
Proof.
  intros H. unfold py_index. destruct (0 <=? k) eqn:E0.
  - apply Z.leb_le in E0. assert (k <? Z.of_nat len = true) as -> by (apply Z.ltb_lt; lia). eauto.
  - apply Z.leb_gt in E0. assert (- Z.of_nat len <=? k = true) as -> by (apply Z.leb_le; lia). eauto.
Qed.

Lemma py_get_0 {A} (x : A) t : py_get (x :: t) 0 = Some x.
Proof. reflexivity. Qed.
Lemma py_set_0 {A} (x y : A) t : py_set (x :: t) 0 y = Some (y :: t).
Proof. reflexivity. Qed.
Lemma py_get_nil {A} k : py_get (@nil A) k = None.
Proof. unfold py_get. cbn [length]. destruct (py_index 0 k) as [i|] eqn:E; [|reflexivity]. apply py_index_lt in E. lia. Qed.

(* one iteration: what it does when it does not raise *)
Lemma bstep_spec {A} (B : Z) (buf : list A) draws out i buf' draws' out' :
  bstep B (buf, draws, out) i = Some (buf', draws', out') ->
  exists r t, buf = r :: t /\ out' = out ++ [r] /\ draws' = tl draws /\
    Permutation (i :: t) buf' /\ length buf' = length buf.
Proof.
  unfold bstep. destruct buf as [|r t]; [rewrite py_get_nil; discriminate|].
  rewrite py_get_0, py_set_0. cbv zeta.
  destruct (hd 0 draws <? B - 1).
  - rewrite py_get_0. unfold py_get at 1.
    destruct (py_index (length (i :: t)) (hd 0 draws)) as [j|] eqn:Ej; [|discriminate].
    destruct (nth_error (i :: t) j) as [x|] eqn:Ex; [|discriminate].
    unfold py_set at 1. rewrite Ej. unfold py_set. rewrite set_nth_length. cbn [length py_index].
    change (py_index (S (length t)) 0) with (Some 0%nat).
    intros H. injection H as <- <- <-. exists r, t. repeat split.
    + change (Permutation (i :: t) (set_nth 0 x (set_nth j i (i :: t)))).
      assert (E : set_nth 0 x (set_nth j i (i :: t)) = swap_slots j (i :: t)).
      { unfold swap_slots. rewrite Ex. reflexivity. }
      rewrite E. apply swap_slots_perm.
    + change (length (set_nth 0 x (set_nth j i (i :: t))) = length (r :: t)).
      rewrite !set_nth_length. reflexivity.
  - intros H. injection H as <- <- <-. exists r, t. repeat split; reflexivity.
Qed.

Lemma bstep_total {A} (B : Z) (buf : list A) draws out i :
  buf <> [] -> (hd 0 draws < B - 1 -> - Z.of_nat (length buf) <= hd 0 draws < Z.of_nat (length buf)) ->
  exists st', bstep B (buf, draws, out) i = Some st'.
Proof.
  intros Hne Hd. unfold bstep. destruct buf as [|r t]; [contradiction Hne; reflexivity|].
  rewrite py_get_0, py_set_0. cbv zeta.
  destruct (hd 0 draws <? B - 1) eqn:E; [|eauto].
  apply Z.ltb_lt in E. specialize (Hd E). rewrite py_get_0.
  destruct (py_index_total (length (i :: t)) (hd 0 draws)) as (j & Ej); [cbn [length] in *; lia|].
  unfold py_get at 1. rewrite Ej.
  assert (Hj : (j < length (i :: t))%nat) by (eapply py_index_lt; exact Ej).
  destruct (nth_error (i :: t) j) as [x|] eqn:Ex; [|apply nth_error_None in Ex; lia].
  unfold py_set at 1. rewrite Ej. unfold py_set. rewrite set_nth_length. cbn [length py_index].
  change (py_index (S (length t)) 0) with (Some 0%nat). eauto.
Qed.

Lemma bshuf_fold_perm {A} (B : Z) : forall (rest : list A) buf draws out buf' draws' out',
  bshuf_fold B rest (buf, draws, out) = Some (buf', draws', out') ->
  Permutation (out ++ buf ++ rest) (out' ++ buf') /\
  length out' = (length out + length rest)%nat /\ length buf' = length buf.
Proof.
  induction rest as [|i rest IH]; intros buf draws out buf' draws' out' H; cbn [bshuf_fold] in H.
  - injection H as <- <- <-. rewrite app_nil_r. cbn. auto with arith.
  - destruct (bstep B (buf, draws, out) i) as [[[b1 d1] o1]|] eqn:E; [|discriminate].
    apply bstep_spec in E. destruct E as (r & t & -> & -> & -> & P & L).
    apply IH in H. destruct H as (H1 & H2 & H3). split; [|split].
    + etransitivity; [|exact H1]. rewrite <- !app_assoc. apply Permutation_app_head. cbn [app].
      constructor. transitivity ((i :: t) ++ rest).
      * cbn [app]. symmetry. apply Permutation_middle.
      * apply Permutation_app_tail. exact P.
    + rewrite H2, app_length. cbn [length]. lia.
    + rewrite H3. exact L.
Qed.

(* draws that can be used as python indices into a buffer of B slots: -B <= d.  NumPy's
   contract (0 <= d < B) is a special case; d >= B - 1 is never used as an index. *)
Definition draws_ok (B : Z) (draws : list Z) : Prop := Forall (fun d => - B <= d) draws.

Lemma draws_ok_hd B draws : 1 <= B -> draws_ok B draws -> - B <= hd 0 draws.
Proof. intros HB H. destruct H; cbn; lia. Qed.
Lemma draws_ok_tl B draws : draws_ok B draws -> draws_ok B (tl draws).
Proof. intros H. destruct H; cbn; [constructor|assumption]. Qed.

Lemma bshuf_fold_total {A} (B : Z) : 1 <= B -> forall (rest : list A) buf draws out,
  length buf = Z.to_nat B -> draws_ok B draws ->
  exists st', bshuf_fold B rest (buf, draws, out) = Some st'.
Proof.
  intros HB. induction rest as [|i rest IH]; intros buf draws out Hl Hd; cbn [bshuf_fold]; [eauto|].
  destruct (bstep_total B buf draws out i) as ([[b1 d1] o1] & E).
  { intros ->. cbn in Hl. lia. }
  { intros Hlt. pose proof (draws_ok_hd B draws HB Hd). lia. }
  rewrite E. pose proof (bstep_spec B buf draws out i b1 d1 o1 E) as (r & t & _ & _ & -> & _ & L).
  apply IH; [now rewrite L|now apply draws_ok_tl].
Qed.

(* whenever buffered_shuffle returns, its output is a permutation of its input: EVERY oracle *)
Lemma buffered_shuffle_sound {A} (B : Z) code draws (src : list A) out :
  buffered_shuffle B code draws src false = SOk out -> Permutation src out.
Proof.
  unfold buffered_shuffle, bshuf_loop. cbn [andb]. set (n := Z.to_nat B).
  destruct (bshuf_fold B (skipn n src) (apply_code code (firstn n src), draws, [])) as [[[b d] o]|] eqn:E;
    [|discriminate].
  intros H. injection H as <-. apply bshuf_fold_perm in E. destruct E as [E _]. cbn [app] in E.
  etransitivity; [|exact E]. rewrite <- (firstn_skipn n src) at 1.
  apply Permutation_app_tail. apply apply_code_perm.
Qed.

(* it returns for every buffer size >= 1 and every oracle whose draws are usable indices *)
Lemma buffered_shuffle_total {A} (B : Z) code draws (src : list A) : 1 <= B -> draws_ok B draws ->
  exists out, buffered_shuffle B code draws src false = SOk out.
Proof.
  intros HB Hd. unfold buffered_shuffle, bshuf_loop. cbn [andb]. set (n := Z.to_nat B).
  destruct (skipn n src) as [|i rest] eqn:Es.
  - cbn [bshuf_fold]. eauto.
  - assert (Hl : length (apply_code code (firstn n src)) = n).
    { rewrite <- (Permutation_length (apply_code_perm code (firstn n src))), firstn_length.
      assert (Hs : length (skipn n src) = S (length rest)) by (rewrite Es; reflexivity).
      rewrite skipn_length in Hs. lia. }
    destruct (bshuf_fold_total B HB (i :: rest) _ draws [] Hl Hd) as ([[b d] o] & ->). eauto.
Qed.

Lemma buffered_shuffle_perm {A} (B : Z) code draws (src : list A) : 1 <= B -> draws_ok B draws ->
  exists out, buffered_shuffle B code draws src false = SOk out /\ Permutation src out.
Proof.
  intros HB Hd. destruct (buffered_shuffle_total B code draws src HB Hd) as (out & E).
  exists out. split; [exact E|]. eapply buffered_shuffle_sound; exact E.
Qed.

(* source that raises: either nothing was yielded (raised while filling the buffer) or
   one item per item beyond the first buffer *)
Lemma buffered_shuffle_err {A} (B : Z) code draws (src : list A) : 1 <= B -> draws_ok B draws ->
  exists out, buffered_shuffle B code draws src true = SErr out /\
              length out = (length src - Z.to_nat B)%nat.
Proof.
  intros HB Hd. unfold buffered_shuffle, bshuf_loop. cbn [andb]. set (n := Z.to_nat B).
  destruct (length src <? n)%nat eqn:El.
  - apply Nat.ltb_lt in El. eexists; split; [reflexivity|]. cbn. lia.
  - apply Nat.ltb_ge in El.
    assert (Hl : length (apply_code code (firstn n src)) = n).
    { rewrite <- (Permutation_length (apply_code_perm code (firstn n src))), firstn_length. lia. }
    destruct (bshuf_fold_total B HB (skipn n src) _ draws [] Hl Hd) as ([[b d] o] & E).
    rewrite E. eexists; split; [reflexivity|].
    apply bshuf_fold_perm in E. destruct E as (_ & E & _). rewrite E, skipn_length. cbn. lia.
Qed.

(* ------------------------------------------------------------------ *)
(* metadata checks                                                      *)

Definition meta_ok {A} (p f : Z) (d : cds A) : bool := (d_pre d =? p) && (d_feat d =? f).

(* all datasets carry the preprocessor object and the feature set of the first one *)
Definition consistentb {A} (ds : list (cds A)) : bool :=
  match ds with
  | [] => true
  | d0 :: rest => forallb (meta_ok (d_pre d0) (d_feat d0)) rest
  end.

Lemma check_ok {A} p f (d : cds A) : meta_ok p f d = true ->
  check_pre (Some p) (d_pre d) = Some p /\ check_feat (Some f) (d_feat d) = Some f.
Proof.
  unfold meta_ok. intros H. apply andb_true_iff in H. destruct H as [H1 H2].
  cbn. rewrite H1. apply Z.eqb_eq in H2. rewrite <- H2, Z.eqb_refl. auto.
Qed.

Lemma check_bad {A} p f (d : cds A) : meta_ok p f d = false ->
  check_pre (Some p) (d_pre d) = None \/
  (check_pre (Some p) (d_pre d) = Some p /\ check_feat (Some f) (d_feat d) = None).
Proof.
  unfold meta_ok. intros H. cbn. destruct (d_pre d =? p) eqn:E1; cbn in *; [right|left; reflexivity].
  split; [reflexivity|]. rewrite Z.eqb_sym, H. reflexivity.
Qed.

Lemma forallb_false_split {X} (p : X -> bool) : forall l, forallb p l = false ->
  exists l1 x l2, l = l1 ++ x :: l2 /\ forallb p l1 = true /\ p x = false.
Proof.
  induction l as [|y l IH]; cbn; [discriminate|]. intros H.
  destruct (p y) eqn:E.
  - cbn in H. destruct (IH H) as (l1 & x & l2 & -> & H1 & H2).
    exists (y :: l1), x, l2. cbn. rewrite E, H1. auto.
  - exists [], y, l. auto.
Qed.

(* ------------------------------------------------------------------ *)
(* the batching loop of buffered_shuffle_batch_client_datasets          *)

Section BatchLoop.
Context {A : Type} (pre : list A -> list A).

Lemma batch_loop_unfold (bs : Z) it items buf out :
  batch_loop pre bs (it :: items) buf out =
  if Z.of_nat (length (buf ++ [it])) =? bs then batch_loop pre bs items [] (out ++ [pre (buf ++ [it])])
  else batch_loop pre bs items (buf ++ [it]) out.
Proof.
  unfold batch_loop. cbn [fold_left]. unfold bl_step at 2 4.
  destruct (Z.of_nat (length (buf ++ [it])) =? bs); reflexivity.
Qed.

Lemma batch_loop_spec (bs : Z) : 1 <= bs -> forall items buf out,
  Z.of_nat (length buf) < bs ->
  exists fulls buf', batch_loop pre bs items buf out = (out ++ map pre fulls, buf') /\
    buf ++ items = concat fulls ++ buf' /\
    Forall (fun c => length c = Z.to_nat bs) fulls /\ Z.of_nat (length buf') < bs.
Proof.
  intros Hbs. induction items as [|it items IH]; intros buf out Hb.
  - exists [], buf. cbn. rewrite !app_nil_r. auto.
  - rewrite batch_loop_unfold. destruct (Z.of_nat (length (buf ++ [it])) =? bs) eqn:E.
    + apply Z.eqb_eq in E.
      destruct (IH [] (out ++ [pre (buf ++ [it])])) as (fulls & buf' & H1 & H2 & H3 & H4); [cbn; lia|].
      exists ((buf ++ [it]) :: fulls), buf'. split; [|split; [|split]].
      * rewrite H1. cbn [map]. now rewrite <- app_assoc.
      * cbn [concat]. cbn [app] in H2. rewrite <- app_assoc, <- H2. now rewrite <- app_assoc.
      * constructor; [lia|exact H3].
      * exact H4.
    + apply Z.eqb_neq in E. rewrite app_length in E. cbn [length] in E.
      destruct (IH (buf ++ [it]) out) as (fulls & buf' & H1 & H2 & H3 & H4).
      { rewrite app_length. cbn [length]. lia. }
      exists fulls, buf'. split; [exact H1|]. split; [|auto].
      rewrite <- H2. now rewrite <- app_assoc.
Qed.
End BatchLoop.

(* ------------------------------------------------------------------ *)
(* padded_batch_client_datasets                                         *)

Section PaddedProofs.
Context {A : Type} (zero : A) (pre : list A -> list A).

Definition mkfull (bs : Z) (c : list A) : batch A := attach_mask (pre c) (full_mask bs).

(* `em` = the raw chunks already emitted as full batches; `done` = all rows consumed *)
Definition Inv (bs : Z) (em : list (list A)) (st : pst) (done : list A) : Prop :=
  p_out st = map (mkfull bs) em /\
  Forall (fun c => length c = Z.to_nat bs) em /\
  done = concat em ++ concat (p_buf st) /\
  p_bufsize st = Z.of_nat (length (concat (p_buf st))) /\
  p_bufsize st <= bs.

Lemma emit_loop_spec (bs : Z) (ex : list A) : 1 <= bs -> forall fuel start out,
  0 <= start <= Z.of_nat (length ex) -> Z.of_nat (length ex) - start < Z.of_nat fuel ->
  exists start' em,
    emit_loop pre fuel bs (Z.of_nat (length ex)) ex start out = Some (start', out ++ map (mkfull bs) em) /\
    Forall (fun c => length c = Z.to_nat bs) em /\
    skipn (Z.to_nat start) ex = concat em ++ skipn (Z.to_nat start') ex /\
    start <= start' <= Z.of_nat (length ex) /\ Z.of_nat (length ex) <= start' + bs.
Proof.
  intros Hbs. induction fuel as [|f IH]; intros start out Hs Hf; [lia|].
  cbn [emit_loop]. destruct (start + bs <? Z.of_nat (length ex)) eqn:E.
  - apply Z.ltb_lt in E.
    destruct (IH (start + bs) (out ++ [attach_mask (pre (py_slice ex start (start + bs))) (full_mask bs)]))
      as (start' & em & H1 & H2 & H3 & H4 & H5); [lia|lia|].
    exists start', (firstn (Z.to_nat bs) (skipn (Z.to_nat start) ex) :: em).
    split; [|split; [|split; [|split]]].
    + rewrite H1. rewrite <- app_assoc. cbn [map app]. unfold mkfull at 2.
      rewrite py_slice_skipn by lia. reflexivity.
    + constructor; [|exact H2]. rewrite firstn_length, skipn_length. lia.
    + cbn [concat]. rewrite <- app_assoc, <- H3.
      replace (Z.to_nat (start + bs)) with (Z.to_nat start + Z.to_nat bs)%nat by lia.
      rewrite <- skipn_skipn'. symmetry. apply firstn_skipn.
    + lia.
    + exact H5.
  - apply Z.ltb_ge in E. exists start, []. cbn [map concat app]. rewrite app_nil_r.
    repeat split; try lia. constructor.
Qed.

Lemma Forall_app_intro {X} (P : X -> Prop) l1 l2 : Forall P l1 -> Forall P l2 -> Forall P (l1 ++ l2).
Proof. intros. apply Forall_app. auto. Qed.

(* the part of the loop body shared by the two branches *)
Lemma ptail_spec (bs : Z) pp pf (ex : list A) em start out prefix : 1 <= bs ->
  0 <= start <= Z.of_nat (length ex) ->
  out = map (mkfull bs) em -> Forall (fun c => length c = Z.to_nat bs) em ->
  prefix ++ firstn (Z.to_nat start) ex = concat em ->
  exists st' em', ptail pre bs pp pf ex (Z.of_nat (length ex)) start [] 0 out = SNext st' /\
    Inv bs (em ++ em') st' (prefix ++ ex) /\ p_pre st' = pp /\ p_feat st' = pf.
Proof.
  intros Hbs Hs Hout Hem Hpre. unfold ptail.
  destruct (emit_loop_spec bs ex Hbs (S (length ex)) start out Hs) as (start' & em' & H1 & H2 & H3 & H4 & H5); [lia|].
  rewrite H1.
  assert (Hdone : prefix ++ ex = concat (em ++ em') ++ skipn (Z.to_nat start') ex).
  { rewrite concat_app, <- Hpre, <- !app_assoc. f_equal.
    rewrite <- H3. symmetry. apply firstn_skipn. }
  destruct (start' <? Z.of_nat (length ex)) eqn:E.
  - apply Z.ltb_lt in E. eexists; exists em'. split; [reflexivity|]. split; [|split; reflexivity].
    unfold Inv; cbn [p_out p_buf p_bufsize app concat].
    assert (Hsl : py_slice ex start' (Z.of_nat (length ex)) = skipn (Z.to_nat start') ex).
    { unfold py_slice. apply firstn_all2. rewrite skipn_length. lia. }
    rewrite Hsl, app_nil_r, skipn_length.
    split; [subst out; now rewrite map_app|]. split; [apply Forall_app_intro; assumption|].
    split; [exact Hdone|]. split; lia.
  - apply Z.ltb_ge in E. eexists; exists em'. split; [reflexivity|]. split; [|split; reflexivity].
    unfold Inv; cbn [p_out p_buf p_bufsize app concat length].
    split; [subst out; now rewrite map_app|]. split; [apply Forall_app_intro; assumption|].
    split; [|split; lia].
    rewrite Hdone. f_equal. apply skipn_all2. lia.
Qed.

Lemma pstep_ok (bs : Z) (st : pst) (d : cds A) em done p f : 1 <= bs ->
  check_pre (p_pre st) (d_pre d) = Some p -> check_feat (p_feat st) (d_feat d) = Some f ->
  Inv bs em st done ->
  exists st' em', pstep pre bs st d = SNext st' /\ Inv bs (em ++ em') st' (done ++ d_rows d) /\
    p_pre st' = Some p /\ p_feat st' = Some f.
Proof.
  intros Hbs Hp Hf (Hout & Hem & Hdone & Hsz & Hle). unfold pstep. rewrite Hp, Hf. cbv zeta.
  destruct (p_bufsize st + Z.of_nat (length (d_rows d)) <? bs) eqn:E.
  - (* fits in the buffer *)
    apply Z.ltb_lt in E. eexists; exists []. split; [reflexivity|]. split; [|split; reflexivity].
    unfold Inv; cbn [p_out p_buf p_bufsize]. rewrite app_nil_r, concat_app. cbn [concat]. rewrite app_nil_r.
    split; [exact Hout|]. split; [exact Hem|]. split; [subst done; now rewrite app_assoc|].
    rewrite app_length. split; lia.
  - apply Z.ltb_ge in E. destruct (p_buf st) as [|pc buf] eqn:Eb.
    + (* buffer empty: start = 0 *)
      cbn [concat length] in Hsz. rewrite Hsz.
      destruct (ptail_spec bs (Some p) (Some f) (d_rows d) em 0 (p_out st) (concat em) Hbs) as (st' & em' & H1 & H2 & H3);
        [lia|exact Hout|exact Hem|cbn; apply app_nil_r|].
      exists st', em'. split; [exact H1|]. split; [|exact H3].
      subst done. cbn [concat]. rewrite app_nil_r. exact H2.
    + (* flush the buffer with the head of this client *)
      set (start := bs - p_bufsize st).
      set (piece := concat (pc :: buf) ++ firstn (Z.to_nat start) (d_rows d)).
      assert (Hstart : 0 <= start <= Z.of_nat (length (d_rows d))) by (subst start; lia).
      destruct (ptail_spec bs (Some p) (Some f) (d_rows d) (em ++ [piece]) start
                  (p_out st ++ [attach_mask (pre (concat ((pc :: buf) ++ [py_slice (d_rows d) 0 start]))) (full_mask bs)])
                  (concat em ++ concat (pc :: buf)) Hbs Hstart)
        as (st' & em' & H1 & H2 & H3).
      { rewrite map_app, Hout. cbn [map]. unfold mkfull at 3. f_equal. f_equal. f_equal. f_equal.
        rewrite concat_app. cbn [concat]. rewrite app_nil_r. subst piece. f_equal.
        unfold py_slice. cbn [skipn Z.to_nat]. f_equal. lia. }
      { apply Forall_app_intro; [exact Hem|]. constructor; [|constructor].
        subst piece. rewrite app_length, firstn_length. lia. }
      { rewrite concat_app. cbn [concat]. rewrite app_nil_r, <- app_assoc. reflexivity. }
      exists st', ([piece] ++ em'). split; [exact H1|]. split; [|exact H3].
      subst done. rewrite app_assoc. exact H2.
Qed.

Lemma pstep_raise (bs : Z) (st : pst) (d : cds A) p f :
  p_pre st = Some p -> p_feat st = Some f -> meta_ok p f d = false ->
  pstep pre bs st d = SRaise (p_out st).
Proof.
  intros Hp Hf Hbad. unfold pstep. rewrite Hp, Hf.
  destruct (check_bad p f d Hbad) as [->|[-> ->]]; reflexivity.
Qed.

Lemma pfold_ok (bs : Z) : 1 <= bs -> forall ds st em done p f,
  p_pre st = Some p -> p_feat st = Some f -> forallb (meta_ok p f) ds = true ->
  Inv bs em st done ->
  exists st' em', pfold pre bs st ds = SNext st' /\ Inv bs (em ++ em') st' (done ++ concat (map d_rows ds)) /\
    p_pre st' = Some p /\ p_feat st' = Some f.
Proof.
  intros Hbs. induction ds as [|d ds IH]; intros st em done p f Hp Hf Hall HI; cbn [pfold].
  - exists st, []. cbn. rewrite !app_nil_r. auto.
  - cbn [forallb] in Hall. apply andb_true_iff in Hall. destruct Hall as [Hd Hall].
    destruct (check_ok p f d Hd) as [C1 C2].
    destruct (pstep_ok bs st d em done p f Hbs) as (st1 & em1 & H1 & H2 & H3 & H4);
      [now rewrite Hp|now rewrite Hf|exact HI|].
    rewrite H1.
    destruct (IH st1 (em ++ em1) (done ++ d_rows d) p f H3 H4 Hall H2) as (st2 & em2 & G1 & G2 & G3).
    exists st2, (em1 ++ em2). split; [exact G1|]. split; [|exact G3].
    cbn [map concat]. rewrite !app_assoc in *. exact G2.
Qed.

Lemma Inv_init bs : 0 <= bs -> Inv bs [] pinit [].
Proof. intros. unfold Inv; cbn. repeat split; try lia. constructor. Qed.

(* the whole loop over a consistent sequence of datasets *)
Lemma pfold_consistent (bs : Z) (ds : list (cds A)) : 1 <= bs -> consistentb ds = true ->
  exists st em, pfold pre bs pinit ds = SNext st /\ Inv bs em st (concat (map d_rows ds)) /\
    match ds with [] => st = pinit | d0 :: _ => p_pre st = Some (d_pre d0) /\ p_feat st = Some (d_feat d0) end.
Proof.
  intros Hbs Hc. destruct ds as [|d0 rest].
  - exists pinit, []. cbn. split; [reflexivity|]. split; [apply Inv_init; lia|reflexivity].
  - cbn [consistentb] in Hc. cbn [pfold].
    destruct (pstep_ok bs pinit d0 [] [] (d_pre d0) (d_feat d0) Hbs) as (st1 & em1 & H1 & H2 & H3 & H4);
      [reflexivity|reflexivity|apply Inv_init; lia|].
    rewrite H1.
    destruct (pfold_ok bs Hbs rest st1 ([] ++ em1) ([] ++ d_rows d0) _ _ H3 H4 Hc H2) as (st2 & em2 & G1 & G2 & G3).
    exists st2, (([] ++ em1) ++ em2). split; [exact G1|]. split; [exact G2|exact G3].
Qed.

(* a mismatching dataset after a consistent non-empty prefix: ValueError, and the
   batches yielded before it are those of the prefix *)
Lemma pfold_mismatch (bs : Z) (good : list (cds A)) d0 d rest : 1 <= bs ->
  consistentb (d0 :: good) = true -> meta_ok (d_pre d0) (d_feat d0) d = false ->
  exists st, pfold pre bs pinit (d0 :: good) = SNext st /\
             pfold pre bs pinit ((d0 :: good) ++ d :: rest) = SRaise (p_out st).
Proof.
  intros Hbs Hc Hbad.
  destruct (pfold_consistent bs (d0 :: good) Hbs Hc) as (st & em & H1 & _ & Hp & Hf).
  exists st. split; [exact H1|].
  assert (G : forall l s, pfold pre bs s l = SNext st ->
               pfold pre bs s (l ++ d :: rest) = SRaise (p_out st)).
  { induction l as [|x l IHl]; intros s Hs; cbn [pfold app] in *.
    - injection Hs as ->. rewrite (pstep_raise bs st d _ _ Hp Hf Hbad). reflexivity.
    - destruct (pstep pre bs s x); try discriminate. apply IHl. exact Hs. }
  apply G. exact H1.
Qed.

End PaddedProofs.

(* ------------------------------------------------------------------ *)
(* property-level statements: per-example preprocessor f               *)

Section C15Props.
Context {A : Type} (zero : A) (f : A -> A).

Definition all_rows (ds : list (cds A)) : list A := concat (map d_rows ds).

Lemma real_rows_mkfull bs (c : list A) : length c = Z.to_nat bs ->
  real_rows (mkfull (map f) bs c) = map f c.
Proof.
  intros H. unfold mkfull, full_mask. rewrite <- H, <- (map_length f c). apply real_rows_full.
Qed.

Lemma concat_real_rows_full bs (em : list (list A)) : Forall (fun c => length c = Z.to_nat bs) em ->
  concat (map real_rows (map (mkfull (map f) bs) em)) = map f (concat em).
Proof.
  induction 1 as [|c em Hc _ IH]; cbn [map concat]; [reflexivity|].
  rewrite real_rows_mkfull by exact Hc. rewrite IH, map_app. reflexivity.
Qed.

(* pick on the buffered rows: the chosen size holds them *)
Lemma pick_holds (n bs nb : Z) : 1 <= bs -> 0 <= n <= bs ->
  exists r, pick n bs nb = Some r /\ pick_ok n bs nb r /\ n <= r <= bs.
Proof.
  intros Hbs Hn. destruct (pick_total n bs nb) as (r & Hr & Hok); try lia.
  exists r. split; [exact Hr|]. split; [exact Hok|].
  pose proof (pick_ge_rem n bs nb r ltac:(lia) Hbs Hr) as [H1 H2]. split; [|exact H2].
  destruct (Z.eq_dec n bs) as [->|Hne].
  - unfold pick_ok in Hok. rewrite Z_mod_same_full in Hok. cbn in Hok. lia.
  - rewrite Z.mod_small in H1 by lia. exact H1.
Qed.

(* The complete description of a successful run. *)
Lemma padded_run (bs nb : Z) (ds : list (cds A)) : 1 <= bs -> consistentb ds = true ->
  exists em st, pfold (map f) bs pinit ds = SNext st /\ Inv (map f) bs em st (all_rows ds) /\
    ((p_buf st = [] /\ padded_batch_client_datasets zero (map f) bs nb ds = PDone (map (mkfull (map f) bs) em)) \/
     (p_buf st <> [] /\ exists r, pick_ok (p_bufsize st) bs nb r /\ p_bufsize st <= r <= bs /\
        padded_batch_client_datasets zero (map f) bs nb ds =
        PDone (map (mkfull (map f) bs) em ++ [pad_examples zero (map f (concat (p_buf st))) r]))).
Proof.
  intros Hbs Hc. destruct (pfold_consistent (map f) bs ds Hbs Hc) as (st & em & H1 & HI & _).
  exists em, st. split; [exact H1|]. split; [exact HI|].
  unfold padded_batch_client_datasets. rewrite H1. unfold pfinish.
  destruct HI as (Hout & Hem & Hdone & Hsz & Hle).
  destruct (p_buf st) as [|pc buf] eqn:Eb.
  - left. split; [reflexivity|]. now rewrite Hout.
  - right. split; [discriminate|].
    destruct (pick_holds (p_bufsize st) bs nb Hbs) as (r & Hr & Hok & Hrange); [lia|].
    exists r. rewrite Hr, Hout. auto.
Qed.

Lemma padded_concat (bs nb : Z) (ds : list (cds A)) : 1 <= bs -> consistentb ds = true ->
  exists out, padded_batch_client_datasets zero (map f) bs nb ds = PDone out /\
    concat (map real_rows out) = map f (all_rows ds).
Proof.
  intros Hbs Hc. destruct (padded_run bs nb ds Hbs Hc) as (em & st & _ & HI & Hres).
  destruct HI as (Hout & Hem & Hdone & Hsz & Hle).
  destruct Hres as [[Hb ->]|[Hb (r & Hok & Hr & ->)]]; eexists; (split; [reflexivity|]).
  - rewrite concat_real_rows_full by exact Hem. rewrite Hdone, Hb. cbn. now rewrite app_nil_r.
  - rewrite map_app, concat_app, concat_real_rows_full by exact Hem. cbn [map concat].
    rewrite real_rows_pad by (rewrite map_length; lia).
    rewrite app_nil_r, <- map_app, <- Hdone. reflexivity.
Qed.

Lemma padded_all_full_but_last (bs nb : Z) (ds : list (cds A)) : 1 <= bs -> consistentb ds = true ->
  exists out, padded_batch_client_datasets zero (map f) bs nb ds = PDone out /\
    forall pre' b post, out = pre' ++ b :: post -> post <> [] ->
      b_mask b = repeat true (Z.to_nat bs) /\ length (b_rows b) = Z.to_nat bs /\
      length (real_rows b) = Z.to_nat bs.
Proof.
  intros Hbs Hc. destruct (padded_run bs nb ds Hbs Hc) as (em & st & _ & HI & Hres).
  destruct HI as (Hout & Hem & Hdone & Hsz & Hle).
  assert (Hfull : forall b, In b (map (mkfull (map f) bs) em) ->
            b_mask b = repeat true (Z.to_nat bs) /\ length (b_rows b) = Z.to_nat bs /\
            length (real_rows b) = Z.to_nat bs).
  { intros b Hb. apply in_map_iff in Hb. destruct Hb as (c & <- & Hc').
    rewrite Forall_forall in Hem. specialize (Hem c Hc').
    rewrite real_rows_mkfull by exact Hem. cbn. rewrite map_length. auto. }
  destruct Hres as [[Hb ->]|[Hb (r & Hok & Hr & ->)]]; eexists; (split; [reflexivity|]);
    intros pre' b post E Hpost; apply Hfull.
  - rewrite E. apply in_or_app. right. left. reflexivity.
  - (* b is not the last element, hence one of the full batches *)
    destruct (@exists_last _ post Hpost) as (post' & lastb & ->).
    replace (pre' ++ b :: post' ++ [lastb]) with ((pre' ++ b :: post') ++ [lastb]) in E
      by (rewrite <- app_assoc; reflexivity).
    apply app_inj_tail in E. destruct E as [E _]. rewrite E. apply in_or_app. right. left. reflexivity.
Qed.

Lemma padded_last_bucket_rule (bs nb : Z) (ds : list (cds A)) : 1 <= bs -> consistentb ds = true ->
  exists out, padded_batch_client_datasets zero (map f) bs nb ds = PDone out /\
    forall pre' b, out = pre' ++ [b] ->
      exists r, pick_ok (Z.of_nat (length (real_rows b))) bs nb r /\ wf_padded zero (Z.to_nat r) b.
Proof.
  intros Hbs Hc. destruct (padded_run bs nb ds Hbs Hc) as (em & st & _ & HI & Hres).
  destruct HI as (Hout & Hem & Hdone & Hsz & Hle).
  destruct Hres as [[Hb ->]|[Hb (r & Hok & Hr & ->)]]; eexists; (split; [reflexivity|]); intros pre' b E.
  - (* the last batch is a full one *)
    assert (Hin : In b (map (mkfull (map f) bs) em)) by (rewrite E; apply in_or_app; right; left; reflexivity).
    apply in_map_iff in Hin. destruct Hin as (c & <- & Hc').
    rewrite Forall_forall in Hem. specialize (Hem c Hc').
    exists bs. rewrite real_rows_mkfull by exact Hem. rewrite map_length, Hem, Z2Nat.id by lia.
    split.
    + unfold pick_ok. rewrite Z_mod_same_full. reflexivity.
    + unfold mkfull, full_mask. rewrite <- Hem, <- (map_length f c). apply wf_full.
  - apply app_inj_tail in E. destruct E as [_ <-].
    exists r. rewrite real_rows_pad by (rewrite map_length; lia).
    rewrite map_length, <- Hsz. split; [exact Hok|].
    exists (length (map f (concat (p_buf st)))). rewrite map_length.
    assert (Hl : (length (concat (p_buf st)) <= Z.to_nat r)%nat) by lia.
    split; [exact Hl|].
    rewrite real_rows_pad by (rewrite map_length; lia).
    unfold pad_examples; cbn [b_rows b_mask]. rewrite map_length. rewrite Nat.min_l by lia.
    repeat split; reflexivity.
Qed.

(* buf_size <= batch_size after every prefix of the client sequence (the code comment
   claims `<`; `=` is reachable, see C15_buffer_full_reachable) *)
Lemma padded_buffer_invariant (bs : Z) (ds rest : list (cds A)) : 1 <= bs -> consistentb (ds ++ rest) = true ->
  exists st, pfold (map f) bs pinit ds = SNext st /\
    0 <= p_bufsize st <= bs /\ p_bufsize st = Z.of_nat (length (concat (p_buf st))).
Proof.
  clear zero. intros Hbs Hc.
  assert (Hc' : consistentb ds = true).
  { destruct ds as [|d0 ds']; [reflexivity|]. cbn [consistentb app] in *.
    rewrite forallb_app in Hc. apply andb_true_iff in Hc. tauto. }
  destruct (pfold_consistent (map f) bs ds Hbs Hc') as (st & em & H1 & HI & _).
  destruct HI as (_ & _ & _ & Hsz & Hle). exists st. split; [exact H1|]. lia.
Qed.

Lemma padded_mismatch_rejected (bs nb : Z) (ds : list (cds A)) : 1 <= bs -> consistentb ds = false ->
  exists out, padded_batch_client_datasets zero (map f) bs nb ds = PValueError out.
Proof.
  intros Hbs Hc. destruct ds as [|d0 rest]; [discriminate|]. cbn [consistentb] in Hc.
  destruct (forallb_false_split _ _ Hc) as (good & d & rest' & -> & Hgood & Hbad).
  destruct (pfold_mismatch (map f) bs good d0 d rest' Hbs Hgood Hbad) as (st & _ & H2).
  exists (p_out st). unfold padded_batch_client_datasets.
  change (d0 :: good ++ d :: rest') with ((d0 :: good) ++ d :: rest'). now rewrite H2.
Qed.

(* ---- buffered_shuffle_batch_client_datasets ---- *)

Lemma gi_fold_consistent p q (ds : list (cds A)) : forall items, forallb (meta_ok p q) ds = true ->
  gi_fold (Some p) (Some q) items ds = (items ++ all_rows ds, false).
Proof.
  induction ds as [|d ds IH]; intros items H; cbn [gi_fold forallb] in *.
  - unfold all_rows. cbn. now rewrite app_nil_r.
  - apply andb_true_iff in H. destruct H as [Hd H]. unfold gi_step. destruct (check_ok p q d Hd) as [-> ->].
    rewrite (IH _ H). unfold all_rows. cbn [map concat]. now rewrite app_assoc.
Qed.

Lemma gi_fold_mismatch p q (ds : list (cds A)) : forall items, forallb (meta_ok p q) ds = false ->
  exists items', gi_fold (Some p) (Some q) items ds = (items', true).
Proof.
  induction ds as [|d ds IH]; intros items H; cbn [gi_fold forallb] in *; [discriminate|].
  unfold gi_step. destruct (meta_ok p q d) eqn:Ed.
  - destruct (check_ok p q d Ed) as [-> ->]. cbn in H. apply IH. exact H.
  - destruct (check_bad p q d Ed) as [->|[-> ->]]; eauto.
Qed.

Lemma gen_items_consistent (ds : list (cds A)) : consistentb ds = true -> gen_items ds = (all_rows ds, false).
Proof.
  destruct ds as [|d0 rest]; [reflexivity|]. cbn [consistentb]. intros H.
  unfold gen_items. cbn [gi_fold gi_step check_pre check_feat app].
  rewrite (gi_fold_consistent _ _ rest _ H). reflexivity.
Qed.

Lemma gen_items_mismatch (ds : list (cds A)) : consistentb ds = false -> exists items, gen_items ds = (items, true).
Proof.
  destruct ds as [|d0 rest]; [discriminate|]. cbn [consistentb]. intros H.
  unfold gen_items. cbn [gi_fold gi_step check_pre check_feat app].
  apply gi_fold_mismatch. exact H.
Qed.

Lemma shuffle_batch_exactly_once (bs B : Z) code draws (ds : list (cds A)) :
  1 <= bs -> 1 <= B -> draws_ok B draws -> consistentb ds = true ->
  exists out, buffered_shuffle_batch_client_datasets (map f) bs B code draws ds = Some (out, false) /\
    Permutation (concat out) (map f (all_rows ds)) /\
    Forall (fun b => (1 <= length b <= Z.to_nat bs)%nat) out /\
    (forall pre' b post, out = pre' ++ b :: post -> post <> [] -> length b = Z.to_nat bs).
Proof.
  intros Hbs HB Hdr Hc. unfold buffered_shuffle_batch_client_datasets.
  destruct ds as [|d0 rest].
  { exists []. split; [reflexivity|]. split; [reflexivity|]. split; [constructor|].
    intros [|? ?] ? ? E; discriminate. }
  rewrite (gen_items_consistent (d0 :: rest) Hc).
  destruct (buffered_shuffle_perm B code draws (all_rows (d0 :: rest)) HB Hdr) as (sh & -> & Hperm).
  destruct (batch_loop_spec (map f) bs Hbs sh [] []) as (fulls & buf' & H1 & H2 & H3 & H4); [cbn; lia|].
  rewrite H1. cbn [app] in *.
  assert (Hfl : forall c, In c fulls -> length (map f c) = Z.to_nat bs).
  { intros c Hin. rewrite Forall_forall in H3. rewrite map_length. now apply H3. }
  destruct buf' as [|x buf''].
  - exists (map (map f) fulls). split; [reflexivity|]. rewrite app_nil_r in H2. split; [|split].
    + rewrite <- concat_map, <- H2. apply Permutation_map. symmetry. exact Hperm.
    + apply Forall_forall. intros b Hb. apply in_map_iff in Hb. destruct Hb as (c & <- & Hin).
      rewrite (Hfl c Hin). lia.
    + intros pre' b post E _. assert (Hb : In b (map (map f) fulls)) by (rewrite E; apply in_or_app; right; left; reflexivity).
      apply in_map_iff in Hb. destruct Hb as (c & <- & Hin). now apply Hfl.
  - exists (map (map f) fulls ++ [map f (x :: buf'')]). split; [reflexivity|]. split; [|split].
    + rewrite concat_app. cbn [concat]. rewrite app_nil_r, <- concat_map, <- map_app, <- H2.
      apply Permutation_map. symmetry. exact Hperm.
    + apply Forall_app_intro.
      * apply Forall_forall. intros b Hb. apply in_map_iff in Hb. destruct Hb as (c & <- & Hin).
        rewrite (Hfl c Hin). lia.
      * constructor; [|constructor]. rewrite map_length. cbn [length] in *. lia.
    + intros pre' b post E Hpost.
      destruct (@exists_last _ post Hpost) as (post' & lastb & ->).
      replace (pre' ++ b :: post' ++ [lastb]) with ((pre' ++ b :: post') ++ [lastb]) in E
        by (rewrite <- app_assoc; reflexivity).
      apply app_inj_tail in E. destruct E as [E _].
      assert (Hb : In b (map (map f) fulls)) by (rewrite E; apply in_or_app; right; left; reflexivity).
      apply in_map_iff in Hb. destruct Hb as (c & <- & Hin). now apply Hfl.
Qed.

Lemma shuffle_batch_mismatch_rejected (bs B : Z) code draws (ds : list (cds A)) :
  1 <= B -> draws_ok B draws -> consistentb ds = false ->
  exists out, buffered_shuffle_batch_client_datasets (map f) bs B code draws ds = Some (out, true).
Proof.
  intros HB Hdr Hc. unfold buffered_shuffle_batch_client_datasets.
  destruct (gen_items_mismatch ds Hc) as (items & ->).
  destruct ds as [|d0 rest]; [discriminate|].
  destruct (buffered_shuffle_err B code draws items HB Hdr) as (sh & -> & _).
  eauto.
Qed.

End C15Props.

(* ------------------------------------------------------------------ *)
(* RepeatableIterator                                                   *)

Section RepeatProofs.
Context {A : Type}.

(* k passes: the items, then StopIteration, k times *)
Fixpoint passes (k : nat) (base : list A) : list (option A) :=
  match k with O => [] | S k' => (map Some base ++ [None]) ++ passes k' base end.

Lemma firstn_app_l' {X} n (l1 l2 : list X) : (n <= length l1)%nat -> firstn n (l1 ++ l2) = firstn n l1.
Proof. intros H. rewrite firstn_app. replace (n - length l1)%nat with 0%nat by lia. cbn. apply app_nil_r. Qed.

Lemma trace_later : forall n m (rest buf : list A), (n <= m)%nat ->
  rit_trace n (mk_rit false rest buf) = firstn n (map Some rest ++ None :: passes m buf).
Proof.
  induction n as [|n IH]; intros m rest buf Hm; [reflexivity|].
  cbn [rit_trace]. unfold rit_next; cbn [r_iter r_first r_buf].
  destruct rest as [|v rest]; cbn [map app firstn]; f_equal.
  - destruct m as [|m]; [lia|]. rewrite (IH m buf buf) by lia. cbn [passes].
    rewrite <- app_assoc. reflexivity.
  - apply IH. lia.
Qed.

Lemma trace_first : forall n m (rest seen : list A), (n <= m)%nat ->
  rit_trace n (mk_rit true rest seen) = firstn n (map Some rest ++ None :: passes m (seen ++ rest)).
Proof.
  induction n as [|n IH]; intros m rest seen Hm; [reflexivity|].
  cbn [rit_trace]. unfold rit_next; cbn [r_iter r_first r_buf].
  destruct rest as [|v rest]; cbn [map app firstn]; f_equal.
  - rewrite app_nil_r. destruct m as [|m]; [lia|]. rewrite (trace_later n m seen seen) by lia. cbn [passes].
    rewrite <- app_assoc. reflexivity.
  - rewrite (IH m rest (seen ++ [v])) by lia. rewrite <- app_assoc. reflexivity.
Qed.

(* every call sequence observes the first pass over and over, separated by StopIteration *)
Lemma repeatable_replays (container : bool) (base : list A) : forall n m, (n <= m)%nat ->
  rit_trace n (rit_init container base) = firstn n (passes (S m) base).
Proof.
  intros n m Hm. unfold rit_init. cbn [passes]. rewrite <- app_assoc. cbn [app].
  destruct container.
  - apply trace_later. exact Hm.
  - rewrite (trace_first n m base []) by exact Hm. reflexivity.
Qed.

Lemma passes_length k (base : list A) : length (passes k base) = (k * S (length base))%nat.
Proof. induction k; cbn [passes]; [reflexivity|]. rewrite !app_length, map_length, IHk. cbn. lia. Qed.

(* exactly k passes *)
Lemma repeatable_whole_passes (container : bool) (base : list A) k :
  rit_trace (k * S (length base)) (rit_init container base) = passes k base.
Proof.
  rewrite (repeatable_replays container base _ (k * S (length base))) by lia.
  assert (G : forall j, (k <= j)%nat -> firstn (k * S (length base)) (passes j base) = passes k base).
  { clear. induction k as [|k IH]; intros j Hj; [reflexivity|].
    destruct j as [|j]; [lia|]. cbn [passes].
    replace (S k * S (length base))%nat with (length (map Some base ++ [None]) + k * S (length base))%nat
      by (rewrite app_length, map_length; cbn; lia).
    rewrite firstn_app_2. f_equal. apply IH. lia. }
  apply (G (S (k * S (length base)))). nia.
Qed.
(* iter() calls anywhere in the call sequence change nothing: only the next() calls count *)
Lemma rit_run_spec : forall ops (s : rit (A:=A)), rit_run ops s = rit_trace (count_occ Bool.bool_dec ops true) s.
Proof.
  induction ops as [|[|] ops IH]; intros s; cbn [rit_run count_occ]; [reflexivity| |].
  - destruct (Bool.bool_dec true true) as [_|N]; [|contradiction N; reflexivity].
    cbn [rit_trace]. destruct (rit_next s) as [v s']. now rewrite IH.
  - destruct (Bool.bool_dec false true) as [E|_]; [discriminate|]. apply IH.
Qed.

Lemma repeatable_split_passes (container : bool) (base : list A) ops m :
  (count_occ Bool.bool_dec ops true <= m)%nat ->
  rit_run ops (rit_init container base) = firstn (count_occ Bool.bool_dec ops true) (passes (S m) base).
Proof. intros H. rewrite rit_run_spec. apply repeatable_replays. exact H. Qed.
End RepeatProofs.

(* ------------------------------------------------------------------ *)
(* (T) the functions translated from padded_batch_client_datasets on this run
   (gen/Gen_client_datasets_multi.v) ARE the hand-written model                *)

From FV Require Import gen.Gen_client_datasets_multi.

Section GenTie.
Context {A : Type} (zero : A) (pre : list A -> list A).

Lemma gen_init_spec : pbcd_init = pinit (A:=A).
Proof. reflexivity. Qed.

Lemma gen_full_mask_spec bs : pbcd_full_mask bs = full_mask bs.
Proof. reflexivity. Qed.

Lemma gen_loop_spec : forall fuel bs size (ex : list A) start out,
  pbcd_loop1 pre fuel bs (full_mask bs) out size ex start =
  match emit_loop pre fuel bs size ex start out with Some (s, o) => Some (o, s) | None => None end.
Proof.
  induction fuel as [|fuel IH]; intros bs size ex start out; cbn [pbcd_loop1 emit_loop]; [reflexivity|].
  destruct (start + bs <? size); [apply IH|reflexivity].
Qed.

Lemma gen_step_spec bs (st : pst) (d : cds A) :
  pbcd_step pre (S (length (d_rows d))) bs (full_mask bs) st d = pstep pre bs st d.
Proof.
  unfold pbcd_step, pstep, check_pre, check_feat, ptail. rewrite !gen_loop_spec.
  destruct (p_pre st) as [p|]; destruct (p_feat st) as [q|]; cbv zeta;
    repeat match goal with
           | |- context [if ?c then _ else _] => destruct c
           | |- context [match p_buf st with _ => _ end] => destruct (p_buf st)
           | |- context [match emit_loop ?a ?b ?c ?d ?e ?f ?g with _ => _ end] =>
               destruct (emit_loop a b c d e f g) as [[? ?]|]
           end; reflexivity.
Qed.

Lemma gen_finish_spec bs nb (st : pst (A:=A)) :
  pbcd_finish zero pre bs nb (full_mask bs) st = pfinish zero pre bs nb st.
Proof.
  unfold pbcd_finish, pfinish. destruct (p_buf st); [reflexivity|]. cbv zeta.
  destruct (pick (p_bufsize st) bs nb); reflexivity.
Qed.

(* the whole function, written with the translated pieces only *)
Fixpoint gen_pfold (bs : Z) (st : pst) (ds : list (cds A)) : step_res :=
  match ds with
  | [] => SNext st
  | d :: ds' => match pbcd_step pre (S (length (d_rows d))) bs (pbcd_full_mask bs) st d with
                | SNext st' => gen_pfold bs st' ds'
                | r => r
                end
  end.

Definition gen_padded_batch_client_datasets (bs nb : Z) (ds : list (cds A)) : pres :=
  match gen_pfold bs pbcd_init ds with
  | SNext st => pbcd_finish zero pre bs nb (pbcd_full_mask bs) st
  | SRaise out => PValueError out
  | SFuel => PStuck
  end.

Lemma gen_pfold_spec bs : forall ds st, gen_pfold bs st ds = pfold pre bs st ds.
Proof.
  induction ds as [|d ds IH]; intros st; cbn [gen_pfold pfold]; [reflexivity|].
  rewrite gen_full_mask_spec, gen_step_spec. destruct (pstep pre bs st d); auto.
Qed.

Lemma translated_is_model bs nb ds :
  gen_padded_batch_client_datasets bs nb ds = padded_batch_client_datasets zero pre bs nb ds.
Proof.
  unfold gen_padded_batch_client_datasets, padded_batch_client_datasets.
  rewrite gen_pfold_spec, gen_init_spec. destruct (pfold pre bs pinit ds); try reflexivity.
  all: rewrite gen_full_mask_spec; apply gen_finish_spec.
Qed.
End GenTie.

(* ------------------------------------------------------------------ *)
(* (T) buffered_shuffle, buffered_shuffle_batch_client_datasets, RepeatableIterator and
   shuffled_clients as translated on this run are the hand-written model                *)

From FV Require Import gen.Gen_federated_data_c15 gen.Gen_in_memory_federated_data_c15
  gen.Gen_sqlite_federated_data_c15.

Section GenTie2.
Context {A : Type} (pre : list A -> list A).

Lemma gen_bstep_spec B (st : list A * list Z * list A) i : bshuf_step B st i = bstep B st i.
Proof. destruct st as [[buf draws] out]. reflexivity. Qed.

(* buffered_shuffle over a source that does not raise, from the translated pieces only *)
Fixpoint gen_bshuf_fold (B : Z) (rest : list A) (st : list A * list Z * list A) : option (list A * list Z * list A) :=
  match rest with
  | [] => Some st
  | i :: rest' => match bshuf_step B st i with None => None | Some st' => gen_bshuf_fold B rest' st' end
  end.

Definition gen_buffered_shuffle (B : Z) (code : list nat) (draws : list Z) (src : list A) : sres A :=
  let '(buf, rest) := bshuf_fill B src in
  match gen_bshuf_fold B rest (bshuf_shuffle code buf, draws, []) with
  | Some (buf, _, out) => SOk (bshuf_drain buf out)
  | None => SIndexError
  end.

Lemma gen_bshuf_fold_spec B : forall rest st, gen_bshuf_fold B rest st = bshuf_fold B rest st.
Proof.
  induction rest as [|i rest IH]; intros st; cbn [gen_bshuf_fold bshuf_fold]; [reflexivity|].
  rewrite gen_bstep_spec. destruct (bstep B st i); auto.
Qed.

Lemma gen_buffered_shuffle_spec B code draws (src : list A) :
  gen_buffered_shuffle B code draws src = buffered_shuffle B code draws src false.
Proof.
  unfold gen_buffered_shuffle, buffered_shuffle, bshuf_loop, bshuf_fill, bshuf_shuffle, bshuf_drain.
  cbn [andb]. rewrite gen_bshuf_fold_spec.
  destruct (bshuf_fold B _ _) as [[[b d] o]|]; reflexivity.
Qed.

Lemma gen_gi_step_spec pp pf items (d : cds A) : gi_step_gen pp pf items d = gi_step pp pf items d.
Proof.
  unfold gi_step_gen, gi_step, check_pre, check_feat.
  destruct pp as [p|]; destruct pf as [q|]; cbv zeta;
    repeat match goal with |- context [if ?c then _ else _] => destruct c end; reflexivity.
Qed.

Lemma gen_bl_step_spec bs st item : bl_step_gen pre bs st item = bl_step pre bs st item.
Proof. destruct st as [buf out]. unfold bl_step_gen, bl_step. cbv zeta. destruct (_ =? bs); reflexivity. Qed.

(* the whole function from the translated pieces *)
Fixpoint gen_gi_fold (pp pf : option Z) (items : list A) (ds : list (cds A)) : list A * bool :=
  match ds with
  | [] => (items, false)
  | d :: ds' => match gi_step_gen pp pf items d with
                | GNext pp' pf' items' => gen_gi_fold pp' pf' items' ds'
                | GRaise items' => (items', true)
                end
  end.

Definition gen_shuffle_batch (bs B : Z) (code : list nat) (draws : list Z) (ds : list (cds A))
  : option (list (list A) * bool) :=
  match ds with
  | [] => Some ([], false)
  | _ :: _ =>
    let (items, e) := gen_gi_fold None None [] ds in
    match buffered_shuffle B code draws items e with
    | SIndexError => None
    | SErr shuffled => Some (snd (fold_left (bl_step_gen pre bs) shuffled ([], [])), true)
    | SOk shuffled =>
      let '(buf, out) := fold_left (bl_step_gen pre bs) shuffled ([], []) in
      Some (bl_finish_gen pre bs buf out, false)
    end
  end.

Lemma gen_gi_fold_spec : forall ds pp pf items, gen_gi_fold pp pf items ds = gi_fold pp pf items ds.
Proof.
  induction ds as [|d ds IH]; intros pp pf items; cbn [gen_gi_fold gi_fold]; [reflexivity|].
  rewrite gen_gi_step_spec. destruct (gi_step pp pf items d); auto.
Qed.

Lemma fold_left_ext' {X Y} (f g : X -> Y -> X) : (forall x y, f x y = g x y) ->
  forall l x, fold_left f l x = fold_left g l x.
Proof. intros H. induction l as [|y l IH]; intros x; cbn; [reflexivity|]. now rewrite H, IH. Qed.

Lemma gen_shuffle_batch_spec bs B code draws ds :
  gen_shuffle_batch bs B code draws ds = buffered_shuffle_batch_client_datasets pre bs B code draws ds.
Proof.
  unfold gen_shuffle_batch, buffered_shuffle_batch_client_datasets, gen_items, batch_loop.
  destruct ds as [|d0 rest]; [reflexivity|]. rewrite gen_gi_fold_spec.
  destruct (gi_fold None None [] (d0 :: rest)) as [items e].
  destruct (buffered_shuffle B code draws items e) as [sh|sh|]; [| |reflexivity];
    rewrite (fold_left_ext' _ _ (gen_bl_step_spec bs));
    destruct (fold_left (bl_step pre bs) sh ([], [])) as [buf out]; cbn [fst snd]; [|reflexivity].
  unfold bl_finish_gen. destruct buf; reflexivity.
Qed.

Lemma gen_rit_next_spec (s : rit (A:=A)) : rit_next_gen s = rit_next s.
Proof. unfold rit_next_gen, rit_next. destruct (r_iter s); destruct (r_first s); reflexivity. Qed.

Lemma gen_rit_init_spec container (base : list A) : rit_init_gen container base = rit_init container base.
Proof. reflexivity. Qed.

Lemma gen_rit_iter_spec (s : rit (A:=A)) : rit_iter_gen s = rit_iter s.
Proof. reflexivity. Qed.

(* one pass of shuffled_clients, in all three classes, is buffered_shuffle over the clients *)
Lemma gen_shuffled_clients_pass_spec B code draws (clients : list A) :
  in_memory_shuffled_clients_pass B code draws clients = buffered_shuffle B code draws clients false /\
  subset_shuffled_clients_pass B code draws clients = buffered_shuffle B code draws clients false /\
  sqlite_shuffled_clients_pass B code draws clients = buffered_shuffle B code draws clients false.
Proof. repeat split. Qed.
End GenTie2.

(* ------------------------------------------------------------------ *)
(* shuffled_clients: every pass visits every client exactly once        *)

Lemma shuffled_passes_each_once {A} (B : Z) (clients : list A) : 1 <= B -> forall oracles,
  Forall (fun o => draws_ok B (snd o)) oracles ->
  exists passes, shuffled_clients_passes B oracles clients = Some passes /\
    length passes = length oracles /\ Forall (fun p => Permutation clients p) passes.
Proof.
  intros HB. induction oracles as [|[code draws] os IH]; intros H; cbn [shuffled_clients_passes].
  - exists []. repeat split. constructor.
  - inversion H as [|? ? Hd Hos]; subst. cbn [snd] in Hd.
    destruct (buffered_shuffle_perm B code draws clients HB Hd) as (pass & -> & P).
    destruct (IH Hos) as (rest & -> & L & F). exists (pass :: rest). split; [reflexivity|].
    split; [cbn; now rewrite L|]. constructor; assumption.
Qed.

Lemma shuffled_passes_nodup {A} (B : Z) (clients : list A) oracles : 1 <= B -> NoDup clients ->
  Forall (fun o => draws_ok B (snd o)) oracles ->
  exists passes, shuffled_clients_passes B oracles clients = Some passes /\
    length passes = length oracles /\
    Forall (fun p => NoDup p /\ length p = length clients /\ forall x, In x p <-> In x clients) passes.
Proof.
  intros HB Hnd H. destruct (shuffled_passes_each_once B clients HB oracles H) as (passes & E & L & F).
  exists passes. split; [exact E|]. split; [exact L|].
  eapply Forall_impl; [|exact F]. cbn. intros p P. split; [|split].
  - eapply Permutation_NoDup; eassumption.
  - symmetry. apply Permutation_length. exact P.
  - intros x. split; intros Hx; [apply Permutation_sym in P|]; eapply Permutation_in; eassumption.
Qed.

(* ------------------------------------------------------------------ *)
(* the infinite training stream: what has been emitted after any prefix *)

(* consuming more of the source only appends to what was already yielded *)
Lemma bshuf_fold_app {A} (B : Z) : forall (r1 r2 : list A) st,
  bshuf_fold B (r1 ++ r2) st = match bshuf_fold B r1 st with Some st' => bshuf_fold B r2 st' | None => None end.
Proof.
  induction r1 as [|i r1 IH]; intros r2 st; cbn [app bshuf_fold]; [reflexivity|].
  destruct (bstep B st i); [apply IH|reflexivity].
Qed.

Lemma bshuf_fold_out_prefix {A} (B : Z) : forall (rest : list A) buf draws out buf' draws' out',
  bshuf_fold B rest (buf, draws, out) = Some (buf', draws', out') -> exists more, out' = out ++ more.
Proof.
  induction rest as [|i rest IH]; intros buf draws out buf' draws' out' H; cbn [bshuf_fold] in H.
  - injection H as <- <- <-. exists []. now rewrite app_nil_r.
  - destruct (bstep B (buf, draws, out) i) as [[[b1 d1] o1]|] eqn:E; [|discriminate].
    apply bstep_spec in E. destruct E as (r & t & -> & -> & -> & _ & _).
    apply IH in H. destruct H as (more & ->). exists (r :: more). now rewrite <- app_assoc.
Qed.

(* after the first B + k items of ANY (possibly infinite) item stream: exactly k items were
   yielded, B are buffered, together they are a permutation of the consumed prefix -- nothing
   lost, nothing duplicated, nothing foreign; and what was yielded never changes afterwards *)
Lemma stream_prefix_exact {A} (B : Z) code draws (prefix more : list A) : 1 <= B -> draws_ok B draws ->
  (Z.to_nat B <= length prefix)%nat ->
  let n := Z.to_nat B in
  exists out buf, bshuf_loop B (skipn n prefix) draws (apply_code code (firstn n prefix)) [] = Some (out, buf) /\
    Permutation prefix (out ++ buf) /\ length out = (length prefix - n)%nat /\ length buf = n /\
    (forall out2 buf2, bshuf_loop B (skipn n (prefix ++ more)) draws (apply_code code (firstn n (prefix ++ more))) []
                       = Some (out2, buf2) -> exists later, out2 = out ++ later).
Proof.
  intros HB Hd Hlen n. unfold bshuf_loop.
  assert (Hl : length (apply_code code (firstn n prefix)) = n).
  { rewrite <- (Permutation_length (apply_code_perm code (firstn n prefix))), firstn_length. lia. }
  destruct (bshuf_fold_total B HB (skipn n prefix) _ draws [] Hl Hd) as ([[b d] o] & E).
  rewrite E. exists o, b. split; [reflexivity|].
  pose proof (bshuf_fold_perm B _ _ _ _ _ _ _ E) as (P & L1 & L2). cbn [app length] in P, L1.
  split; [|split; [|split]].
  - etransitivity; [|exact P]. rewrite <- (firstn_skipn n prefix) at 1.
    apply Permutation_app_tail. apply apply_code_perm.
  - rewrite L1, skipn_length. reflexivity.
  - rewrite L2. exact Hl.
  - intros out2 buf2. rewrite firstn_app, skipn_app.
    replace (n - length prefix)%nat with 0%nat by lia. cbn [firstn skipn]. rewrite app_nil_r.
    rewrite bshuf_fold_app, E.
    destruct (bshuf_fold B more (b, d, o)) as [[[b2 d2] o2]|] eqn:E2; [|discriminate].
    intros H. injection H as <- <-. eapply bshuf_fold_out_prefix. exact E2.
Qed.

(* ids 0 .. n-1 are distinct (the non-vacuity example of the NoDup hypothesis) *)
Lemma NoDup_idx n : NoDup (idx n).
Proof.
  unfold idx. apply FinFun.Injective_map_NoDup; [|apply seq_NoDup].
  intros a b H. apply Nat2Z.inj. exact H.
Qed.
