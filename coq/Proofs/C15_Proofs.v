From Coq Require Import ZArith List Bool Lia Permutation.
From FV Require Import Common.ListX Common.PySem Common.Batch Common.Chunk Model.C03_Model
  Proofs.C03_Proofs Model.C15_Model.
Import ListNotations.
Local Open Scope Z_scope.

(* ------------------------------------------------------------------ *)
(* slots and Lehmer codes                                               *)

Lemma remove_nth_perm {A} : forall (l : list A) k x, nth_error l k = Some x ->
  Permutation l (x :: remove_nth k l).
Proof.
  induction l as [|y l IH]; intros [|k] x H; cbn in *; try discriminate.
  - injection H as ->. reflexivity.
  - apply IH in H. rewrite perm_swap. constructor. exact H.
Qed.

Lemma apply_code_perm {A} : forall code (l : list A), Permutation l (apply_code code l).
Proof.
  induction code as [|k code IH]; intros l; cbn [apply_code]; [reflexivity|].
  destruct (nth_error l k) as [x|] eqn:E; [|reflexivity].
  etransitivity; [apply remove_nth_perm; exact E|]. constructor. apply IH.
Qed.

Lemma set_nth_perm {A} : forall (t : list A) k b0 bk, nth_error t k = Some bk ->
  Permutation (b0 :: t) (bk :: set_nth k b0 t).
Proof.
  induction t as [|y t IH]; intros [|k] b0 bk H; cbn in *; try discriminate.
  - injection H as ->. apply perm_swap.
  - apply (IH k b0 bk) in H.
    transitivity (y :: b0 :: t); [apply perm_swap|].
    transitivity (y :: bk :: set_nth k b0 t); [constructor; exact H|apply perm_swap].
Qed.

Lemma swap_slots_perm {A} (k : nat) (buf : list A) : Permutation buf (swap_slots k buf).
Proof.
  unfold swap_slots. destruct buf as [|b0 t]; [reflexivity|].
  destruct (nth_error (b0 :: t) k) as [bk|] eqn:E; [|reflexivity].
  destruct k as [|k]; cbn in *.
  - injection E as ->. reflexivity.
  - apply set_nth_perm. exact E.
Qed.

(* ------------------------------------------------------------------ *)
(* buffered_shuffle                                                     *)

Lemma bshuf_loop_perm {A} (B : Z) : forall (rest : list A) draws buf out out' buf',
  bshuf_loop B rest draws buf out = Some (out', buf') ->
  Permutation (out ++ buf ++ rest) (out' ++ buf').
Proof.
  induction rest as [|i rest IH]; intros draws buf out out' buf' H; cbn [bshuf_loop] in H.
  - injection H as <- <-. now rewrite app_nil_r.
  - destruct buf as [|r t]; [discriminate|].
    apply IH in H. etransitivity; [|exact H]. cbn [set_nth].
    rewrite <- !app_assoc. apply Permutation_app_head. cbn [app].
    constructor.
    transitivity ((i :: t) ++ rest).
    + cbn [app]. symmetry. apply Permutation_middle.
    + apply Permutation_app_tail.
      destruct (hd 0 draws <? B - 1); [apply swap_slots_perm|reflexivity].
Qed.

Lemma bshuf_loop_total {A} (B : Z) : forall (rest : list A) draws buf out,
  buf <> [] -> exists out' buf', bshuf_loop B rest draws buf out = Some (out', buf').
Proof.
  induction rest as [|i rest IH]; intros draws buf out Hne; cbn [bshuf_loop]; [eauto|].
  destruct buf as [|r t]; [contradiction Hne; reflexivity|].
  apply IH. cbn [set_nth]. intros E.
  assert (P : Permutation (i :: t)
               (if hd 0 draws <? B - 1 then swap_slots (Z.to_nat (hd 0 draws)) (i :: t) else i :: t))
    by (destruct (hd 0 draws <? B - 1); [apply swap_slots_perm|reflexivity]).
  rewrite E in P. apply Permutation_sym, Permutation_nil in P. discriminate.
Qed.

(* yields before the end: one per item beyond the first buffer *)
Lemma bshuf_loop_length {A} (B : Z) : forall (rest : list A) draws buf out out' buf',
  bshuf_loop B rest draws buf out = Some (out', buf') ->
  length out' = (length out + length rest)%nat /\ length buf' = length buf.
Proof.
  induction rest as [|i rest IH]; intros draws buf out out' buf' H; cbn [bshuf_loop] in H.
  - injection H as <- <-. cbn. lia.
  - destruct buf as [|r t]; [discriminate|]. apply IH in H. destruct H as [H1 H2].
    rewrite app_length in H1. cbn [length] in H1. split; [cbn [length]; lia|].
    rewrite H2. cbn [set_nth].
    destruct (hd 0 draws <? B - 1); [|reflexivity].
    rewrite <- (Permutation_length (swap_slots_perm _ (i :: t))). reflexivity.
Qed.

Lemma buffered_shuffle_perm {A} (B : Z) code draws (src : list A) : 1 <= B ->
  exists out, buffered_shuffle B code draws src false = SOk out /\ Permutation src out.
Proof.
  intros HB. unfold buffered_shuffle. cbn [andb].
  set (n := Z.to_nat B).
  destruct (skipn n src) as [|i rest] eqn:Es.
  - cbn [bshuf_loop app]. eexists; split; [reflexivity|].
    rewrite <- (firstn_skipn n src) at 1. rewrite Es, app_nil_r. apply apply_code_perm.
  - assert (Hne : apply_code code (firstn n src) <> []).
    { intros E. pose proof (apply_code_perm code (firstn n src)) as P. rewrite E in P.
      apply Permutation_sym, Permutation_nil in P.
      assert (Hl : length (skipn n src) = S (length rest)) by (rewrite Es; reflexivity).
      rewrite skipn_length in Hl.
      assert (Hf : length (firstn n src) = 0%nat) by (rewrite P; reflexivity).
      rewrite firstn_length in Hf. subst n. lia. }
    destruct (bshuf_loop_total B (i :: rest) draws _ [] Hne) as (out' & buf' & E).
    rewrite E. eexists; split; [reflexivity|].
    apply bshuf_loop_perm in E. cbn [app] in E. etransitivity; [|exact E].
    rewrite <- (firstn_skipn n src) at 1. rewrite Es. apply Permutation_app_tail. apply apply_code_perm.
Qed.

(* source that raises: either nothing was yielded (raised while filling the buffer) or
   exactly the items beyond the first buffer were replaced by earlier ones *)
Lemma buffered_shuffle_err {A} (B : Z) code draws (src : list A) : 1 <= B ->
  exists out, buffered_shuffle B code draws src true = SErr out /\
              length out = (length src - Z.to_nat B)%nat.
Proof.
  intros HB. unfold buffered_shuffle. cbn [andb].
  set (n := Z.to_nat B).
  destruct (length src <? n)%nat eqn:El.
  - apply Nat.ltb_lt in El. eexists; split; [reflexivity|]. cbn. lia.
  - apply Nat.ltb_ge in El.
    assert (Hne : apply_code code (firstn n src) <> []).
    { intros E. pose proof (apply_code_perm code (firstn n src)) as P. rewrite E in P.
      apply Permutation_sym, Permutation_nil in P.
      assert (Hf : length (firstn n src) = 0%nat) by (rewrite P; reflexivity).
      rewrite firstn_length in Hf. subst n. lia. }
    destruct (bshuf_loop_total B (skipn n src) draws _ [] Hne) as (out' & buf' & E).
    rewrite E. eexists; split; [reflexivity|].
    apply bshuf_loop_length in E. destruct E as [E _]. rewrite E, skipn_length. cbn. lia.
Qed.

(* ------------------------------------------------------------------ *)
(* metadata checks                                                      *)

Definition meta_ok {A} (p f : Z) (d : cds A) : bool := (d_pre d =? p) && (d_feat d =? f).

(* all datasets carry the preprocessor object and the feature set of the first one *)
Definition consistentb {A} (ds : list (cds A)) : bool :=
  match ds with
  | [] => true
  | d0 :: rest => forallb (meta_ok (d_pre d0) (d_feat d0)) rest
  end.

Lemma check_ok {A} p f (d : cds A) : meta_ok p f d = true ->
  check_pre (Some p) (d_pre d) = Some p /\ check_feat (Some f) (d_feat d) = Some f.
Proof.
  unfold meta_ok. intros H. apply andb_true_iff in H. destruct H as [H1 H2].
  cbn. rewrite H1. apply Z.eqb_eq in H2. rewrite <- H2, Z.eqb_refl. auto.
Qed.

Lemma check_bad {A} p f (d : cds A) : meta_ok p f d = false ->
  check_pre (Some p) (d_pre d) = None \/
  (check_pre (Some p) (d_pre d) = Some p /\ check_feat (Some f) (d_feat d) = None).
Proof.
  unfold meta_ok. intros H. cbn. destruct (d_pre d =? p) eqn:E1; cbn in *; [right|left; reflexivity].
  split; [reflexivity|]. rewrite Z.eqb_sym, H. reflexivity.
Qed.

Lemma forallb_false_split {X} (p : X -> bool) : forall l, forallb p l = false ->
  exists l1 x l2, l = l1 ++ x :: l2 /\ forallb p l1 = true /\ p x = false.
Proof.
  induction l as [|y l IH]; cbn; [discriminate|]. intros H.
  destruct (p y) eqn:E.
  - cbn in H. destruct (IH H) as (l1 & x & l2 & -> & H1 & H2).
    exists (y :: l1), x, l2. cbn. rewrite E, H1. auto.
  - exists [], y, l. auto.
Qed.

(* ------------------------------------------------------------------ *)
(* the batching loop of buffered_shuffle_batch_client_datasets          *)

Section BatchLoop.
Context {A : Type} (pre : list A -> list A).

Lemma batch_loop_spec (bs : Z) : 1 <= bs -> forall items buf out,
  Z.of_nat (length buf) < bs ->
  exists fulls buf', batch_loop pre bs items buf out = (out ++ map pre fulls, buf') /\
    buf ++ items = concat fulls ++ buf' /\
    Forall (fun c => length c = Z.to_nat bs) fulls /\ Z.of_nat (length buf') < bs.
Proof.
  intros Hbs. induction items as [|it items IH]; intros buf out Hb; cbn [batch_loop].
  - exists [], buf. cbn. rewrite !app_nil_r. auto.
  - destruct (Z.of_nat (length (buf ++ [it])) =? bs) eqn:E.
    + apply Z.eqb_eq in E.
      destruct (IH [] (out ++ [pre (buf ++ [it])])) as (fulls & buf' & H1 & H2 & H3 & H4); [cbn; lia|].
      exists ((buf ++ [it]) :: fulls), buf'. split; [|split; [|split]].
      * rewrite H1. cbn [map]. now rewrite <- app_assoc.
      * cbn [concat]. cbn [app] in H2. rewrite <- app_assoc, <- H2. now rewrite <- app_assoc.
      * constructor; [lia|exact H3].
      * exact H4.
    + apply Z.eqb_neq in E. rewrite app_length in E. cbn [length] in E.
      destruct (IH (buf ++ [it]) out) as (fulls & buf' & H1 & H2 & H3 & H4).
      { rewrite app_length. cbn [length]. lia. }
      exists fulls, buf'. split; [exact H1|]. split; [|auto].
      rewrite <- H2. now rewrite <- app_assoc.
Qed.
End BatchLoop.

(* ------------------------------------------------------------------ *)
(* padded_batch_client_datasets                                         *)

Section PaddedProofs.
Context {A : Type} (zero : A) (pre : list A -> list A).

Definition mkfull (bs : Z) (c : list A) : batch A := attach_mask (pre c) (full_mask bs).

(* `em` = the raw chunks already emitted as full batches; `done` = all rows consumed *)
Definition Inv (bs : Z) (em : list (list A)) (st : pst) (done : list A) : Prop :=
  p_out st = map (mkfull bs) em /\
  Forall (fun c => length c = Z.to_nat bs) em /\
  done = concat em ++ concat (p_buf st) /\
  p_bufsize st = Z.of_nat (length (concat (p_buf st))) /\
  p_bufsize st <= bs.

Lemma emit_loop_spec (bs : Z) (ex : list A) : 1 <= bs -> forall fuel start out,
  0 <= start <= Z.of_nat (length ex) -> Z.of_nat (length ex) - start < Z.of_nat fuel ->
  exists start' em,
    emit_loop pre fuel bs (Z.of_nat (length ex)) ex start out = Some (start', out ++ map (mkfull bs) em) /\
    Forall (fun c => length c = Z.to_nat bs) em /\
    skipn (Z.to_nat start) ex = concat em ++ skipn (Z.to_nat start') ex /\
    start <= start' <= Z.of_nat (length ex) /\ Z.of_nat (length ex) <= start' + bs.
Proof.
  intros Hbs. induction fuel as [|f IH]; intros start out Hs Hf; [lia|].
  cbn [emit_loop]. destruct (start + bs <? Z.of_nat (length ex)) eqn:E.
  - apply Z.ltb_lt in E.
    destruct (IH (start + bs) (out ++ [attach_mask (pre (py_slice ex start (start + bs))) (full_mask bs)]))
      as (start' & em & H1 & H2 & H3 & H4 & H5); [lia|lia|].
    exists start', (firstn (Z.to_nat bs) (skipn (Z.to_nat start) ex) :: em).
    split; [|split; [|split; [|split]]].
    + rewrite H1. rewrite <- app_assoc. cbn [map app]. unfold mkfull at 2.
      rewrite py_slice_skipn by lia. reflexivity.
    + constructor; [|exact H2]. rewrite firstn_length, skipn_length. lia.
    + cbn [concat]. rewrite <- app_assoc, <- H3.
      replace (Z.to_nat (start + bs)) with (Z.to_nat start + Z.to_nat bs)%nat by lia.
      rewrite <- skipn_skipn'. symmetry. apply firstn_skipn.
    + lia.
    + exact H5.
  - apply Z.ltb_ge in E. exists start, []. cbn [map concat app]. rewrite app_nil_r.
    repeat split; try lia. constructor.
Qed.

Lemma Forall_app_intro {X} (P : X -> Prop) l1 l2 : Forall P l1 -> Forall P l2 -> Forall P (l1 ++ l2).
Proof. intros. apply Forall_app. auto. Qed.

(* the part of the loop body shared by the two branches *)
Lemma ptail_spec (bs : Z) pp pf (ex : list A) em start out prefix : 1 <= bs ->
  0 <= start <= Z.of_nat (length ex) ->
  out = map (mkfull bs) em -> Forall (fun c => length c = Z.to_nat bs) em ->
  prefix ++ firstn (Z.to_nat start) ex = concat em ->
  exists st' em', ptail pre bs pp pf ex (Z.of_nat (length ex)) start [] 0 out = SNext st' /\
    Inv bs (em ++ em') st' (prefix ++ ex) /\ p_pre st' = pp /\ p_feat st' = pf.
Proof.
  intros Hbs Hs Hout Hem Hpre. unfold ptail.
  destruct (emit_loop_spec bs ex Hbs (S (length ex)) start out Hs) as (start' & em' & H1 & H2 & H3 & H4 & H5); [lia|].
  rewrite H1.
  assert (Hdone : prefix ++ ex = concat (em ++ em') ++ skipn (Z.to_nat start') ex).
  { rewrite concat_app, <- Hpre, <- !app_assoc. f_equal.
    rewrite <- H3. symmetry. apply firstn_skipn. }
  destruct (start' <? Z.of_nat (length ex)) eqn:E.
  - apply Z.ltb_lt in E. eexists; exists em'. split; [reflexivity|]. split; [|split; reflexivity].
    unfold Inv; cbn [p_out p_buf p_bufsize app concat].
    assert (Hsl : py_slice ex start' (Z.of_nat (length ex)) = skipn (Z.to_nat start') ex).
    { unfold py_slice. apply firstn_all2. rewrite skipn_length. lia. }
    rewrite Hsl, app_nil_r, skipn_length.
    split; [subst out; now rewrite map_app|]. split; [apply Forall_app_intro; assumption|].
    split; [exact Hdone|]. split; lia.
  - apply Z.ltb_ge in E. eexists; exists em'. split; [reflexivity|]. split; [|split; reflexivity].
    unfold Inv; cbn [p_out p_buf p_bufsize app concat length].
    split; [subst out; now rewrite map_app|]. split; [apply Forall_app_intro; assumption|].
    split; [|split; lia].
    rewrite Hdone. f_equal. apply skipn_all2. lia.
Qed.

Lemma pstep_ok (bs : Z) (st : pst) (d : cds A) em done p f : 1 <= bs ->
  check_pre (p_pre st) (d_pre d) = Some p -> check_feat (p_feat st) (d_feat d) = Some f ->
  Inv bs em st done ->
  exists st' em', pstep pre bs st d = SNext st' /\ Inv bs (em ++ em') st' (done ++ d_rows d) /\
    p_pre st' = Some p /\ p_feat st' = Some f.
Proof.
  intros Hbs Hp Hf (Hout & Hem & Hdone & Hsz & Hle). unfold pstep. rewrite Hp, Hf. cbv zeta.
  destruct (p_bufsize st + Z.of_nat (length (d_rows d)) <? bs) eqn:E.
  - (* fits in the buffer *)
    apply Z.ltb_lt in E. eexists; exists []. split; [reflexivity|]. split; [|split; reflexivity].
    unfold Inv; cbn [p_out p_buf p_bufsize]. rewrite app_nil_r, concat_app. cbn [concat]. rewrite app_nil_r.
    split; [exact Hout|]. split; [exact Hem|]. split; [subst done; now rewrite app_assoc|].
    rewrite app_length. split; lia.
  - apply Z.ltb_ge in E. destruct (p_buf st) as [|pc buf] eqn:Eb.
    + (* buffer empty: start = 0 *)
      cbn [concat length] in Hsz. rewrite Hsz.
      destruct (ptail_spec bs (Some p) (Some f) (d_rows d) em 0 (p_out st) (concat em) Hbs) as (st' & em' & H1 & H2 & H3);
        [lia|exact Hout|exact Hem|cbn; apply app_nil_r|].
      exists st', em'. split; [exact H1|]. split; [|exact H3].
      subst done. cbn [concat]. rewrite app_nil_r. exact H2.
    + (* flush the buffer with the head of this client *)
      set (start := bs - p_bufsize st).
      set (piece := concat (pc :: buf) ++ firstn (Z.to_nat start) (d_rows d)).
      assert (Hstart : 0 <= start <= Z.of_nat (length (d_rows d))) by (subst start; lia).
      destruct (ptail_spec bs (Some p) (Some f) (d_rows d) (em ++ [piece]) start
                  (p_out st ++ [attach_mask (pre (concat ((pc :: buf) ++ [py_slice (d_rows d) 0 start]))) (full_mask bs)])
                  (concat em ++ concat (pc :: buf)) Hbs Hstart)
        as (st' & em' & H1 & H2 & H3).
      { rewrite map_app, Hout. cbn [map]. unfold mkfull at 3. f_equal. f_equal. f_equal. f_equal.
        rewrite concat_app. cbn [concat]. rewrite app_nil_r. subst piece. f_equal.
        unfold py_slice. cbn [skipn Z.to_nat]. f_equal. lia. }
      { apply Forall_app_intro; [exact Hem|]. constructor; [|constructor].
        subst piece. rewrite app_length, firstn_length. lia. }
      { rewrite concat_app. cbn [concat]. rewrite app_nil_r, <- app_assoc. reflexivity. }
      exists st', ([piece] ++ em'). split; [exact H1|]. split; [|exact H3].
      subst done. rewrite app_assoc. exact H2.
Qed.

Lemma pstep_raise (bs : Z) (st : pst) (d : cds A) p f :
  p_pre st = Some p -> p_feat st = Some f -> meta_ok p f d = false ->
  pstep pre bs st d = SRaise (p_out st).
Proof.
  intros Hp Hf Hbad. unfold pstep. rewrite Hp, Hf.
  destruct (check_bad p f d Hbad) as [->|[-> ->]]; reflexivity.
Qed.

Lemma pfold_ok (bs : Z) : 1 <= bs -> forall ds st em done p f,
  p_pre st = Some p -> p_feat st = Some f -> forallb (meta_ok p f) ds = true ->
  Inv bs em st done ->
  exists st' em', pfold pre bs st ds = SNext st' /\ Inv bs (em ++ em') st' (done ++ concat (map d_rows ds)) /\
    p_pre st' = Some p /\ p_feat st' = Some f.
Proof.
  intros Hbs. induction ds as [|d ds IH]; intros st em done p f Hp Hf Hall HI; cbn [pfold].
  - exists st, []. cbn. rewrite !app_nil_r. auto.
  - cbn [forallb] in Hall. apply andb_true_iff in Hall. destruct Hall as [Hd Hall].
    destruct (check_ok p f d Hd) as [C1 C2].
    destruct (pstep_ok bs st d em done p f Hbs) as (st1 & em1 & H1 & H2 & H3 & H4);
      [now rewrite Hp|now rewrite Hf|exact HI|].
    rewrite H1.
    destruct (IH st1 (em ++ em1) (done ++ d_rows d) p f H3 H4 Hall H2) as (st2 & em2 & G1 & G2 & G3).
    exists st2, (em1 ++ em2). split; [exact G1|]. split; [|exact G3].
    cbn [map concat]. rewrite !app_assoc in *. exact G2.
Qed.

Lemma Inv_init bs : 0 <= bs -> Inv bs [] pinit [].
Proof. intros. unfold Inv; cbn. repeat split; try lia. constructor. Qed.

(* the whole loop over a consistent sequence of datasets *)
Lemma pfold_consistent (bs : Z) (ds : list (cds A)) : 1 <= bs -> consistentb ds = true ->
  exists st em, pfold pre bs pinit ds = SNext st /\ Inv bs em st (concat (map d_rows ds)) /\
    match ds with [] => st = pinit | d0 :: _ => p_pre st = Some (d_pre d0) /\ p_feat st = Some (d_feat d0) end.
Proof.
  intros Hbs Hc. destruct ds as [|d0 rest].
  - exists pinit, []. cbn. split; [reflexivity|]. split; [apply Inv_init; lia|reflexivity].
  - cbn [consistentb] in Hc. cbn [pfold].
    destruct (pstep_ok bs pinit d0 [] [] (d_pre d0) (d_feat d0) Hbs) as (st1 & em1 & H1 & H2 & H3 & H4);
      [reflexivity|reflexivity|apply Inv_init; lia|].
    rewrite H1.
    destruct (pfold_ok bs Hbs rest st1 ([] ++ em1) ([] ++ d_rows d0) _ _ H3 H4 Hc H2) as (st2 & em2 & G1 & G2 & G3).
    exists st2, (([] ++ em1) ++ em2). split; [exact G1|]. split; [exact G2|exact G3].
Qed.

(* a mismatching dataset after a consistent non-empty prefix: ValueError, and the
   batches yielded before it are those of the prefix *)
Lemma pfold_mismatch (bs : Z) (good : list (cds A)) d0 d rest : 1 <= bs ->
  consistentb (d0 :: good) = true -> meta_ok (d_pre d0) (d_feat d0) d = false ->
  exists st, pfold pre bs pinit (d0 :: good) = SNext st /\
             pfold pre bs pinit ((d0 :: good) ++ d :: rest) = SRaise (p_out st).
Proof.
  intros Hbs Hc Hbad.
  destruct (pfold_consistent bs (d0 :: good) Hbs Hc) as (st & em & H1 & _ & Hp & Hf).
  exists st. split; [exact H1|].
  assert (G : forall l s, pfold pre bs s l = SNext st ->
               pfold pre bs s (l ++ d :: rest) = SRaise (p_out st)).
  { induction l as [|x l IHl]; intros s Hs; cbn [pfold app] in *.
    - injection Hs as ->. rewrite (pstep_raise bs st d _ _ Hp Hf Hbad). reflexivity.
    - destruct (pstep pre bs s x); try discriminate. apply IHl. exact Hs. }
  apply G. exact H1.
Qed.

End PaddedProofs.

(* ------------------------------------------------------------------ *)
(* property-level statements: per-example preprocessor f               *)

Section C15Props.
Context {A : Type} (zero : A) (f : A -> A).

Definition all_rows (ds : list (cds A)) : list A := concat (map d_rows ds).

Lemma real_rows_mkfull bs (c : list A) : length c = Z.to_nat bs ->
  real_rows (mkfull (map f) bs c) = map f c.
Proof.
  intros H. unfold mkfull, full_mask. rewrite <- H, <- (map_length f c). apply real_rows_full.
Qed.

Lemma concat_real_rows_full bs (em : list (list A)) : Forall (fun c => length c = Z.to_nat bs) em ->
  concat (map real_rows (map (mkfull (map f) bs) em)) = map f (concat em).
Proof.
  induction 1 as [|c em Hc _ IH]; cbn [map concat]; [reflexivity|].
  rewrite real_rows_mkfull by exact Hc. rewrite IH, map_app. reflexivity.
Qed.

(* pick on the buffered rows: the chosen size holds them *)
Lemma pick_holds (n bs nb : Z) : 1 <= bs -> 0 <= n <= bs ->
  exists r, pick n bs nb = Some r /\ pick_ok n bs nb r /\ n <= r <= bs.
Proof.
  intros Hbs Hn. destruct (pick_total n bs nb) as (r & Hr & Hok); try lia.
  exists r. split; [exact Hr|]. split; [exact Hok|].
  pose proof (pick_ge_rem n bs nb r ltac:(lia) Hbs Hr) as [H1 H2]. split; [|exact H2].
  destruct (Z.eq_dec n bs) as [->|Hne].
  - unfold pick_ok in Hok. rewrite Z_mod_same_full in Hok. cbn in Hok. lia.
  - rewrite Z.mod_small in H1 by lia. exact H1.
Qed.

(* The complete description of a successful run. *)
Lemma padded_run (bs nb : Z) (ds : list (cds A)) : 1 <= bs -> consistentb ds = true ->
  exists em st, pfold (map f) bs pinit ds = SNext st /\ Inv (map f) bs em st (all_rows ds) /\
    ((p_buf st = [] /\ padded_batch_client_datasets zero (map f) bs nb ds = PDone (map (mkfull (map f) bs) em)) \/
     (p_buf st <> [] /\ exists r, pick_ok (p_bufsize st) bs nb r /\ p_bufsize st <= r <= bs /\
        padded_batch_client_datasets zero (map f) bs nb ds =
        PDone (map (mkfull (map f) bs) em ++ [pad_examples zero (map f (concat (p_buf st))) r]))).
Proof.
  intros Hbs Hc. destruct (pfold_consistent (map f) bs ds Hbs Hc) as (st & em & H1 & HI & _).
  exists em, st. split; [exact H1|]. split; [exact HI|].
  unfold padded_batch_client_datasets. rewrite H1. unfold pfinish.
  destruct HI as (Hout & Hem & Hdone & Hsz & Hle).
  destruct (p_buf st) as [|pc buf] eqn:Eb.
  - left. split; [reflexivity|]. now rewrite Hout.
  - right. split; [discriminate|].
    destruct (pick_holds (p_bufsize st) bs nb Hbs) as (r & Hr & Hok & Hrange); [lia|].
    exists r. rewrite Hr, Hout. auto.
Qed.

Lemma padded_concat (bs nb : Z) (ds : list (cds A)) : 1 <= bs -> consistentb ds = true ->
  exists out, padded_batch_client_datasets zero (map f) bs nb ds = PDone out /\
    concat (map real_rows out) = map f (all_rows ds).
Proof.
  intros Hbs Hc. destruct (padded_run bs nb ds Hbs Hc) as (em & st & _ & HI & Hres).
  destruct HI as (Hout & Hem & Hdone & Hsz & Hle).
  destruct Hres as [[Hb ->]|[Hb (r & Hok & Hr & ->)]]; eexists; (split; [reflexivity|]).
  - rewrite concat_real_rows_full by exact Hem. rewrite Hdone, Hb. cbn. now rewrite app_nil_r.
  - rewrite map_app, concat_app, concat_real_rows_full by exact Hem. cbn [map concat].
    rewrite real_rows_pad by (rewrite map_length; lia).
    rewrite app_nil_r, <- map_app, <- Hdone. reflexivity.
Qed.

Lemma padded_all_full_but_last (bs nb : Z) (ds : list (cds A)) : 1 <= bs -> consistentb ds = true ->
  exists out, padded_batch_client_datasets zero (map f) bs nb ds = PDone out /\
    forall pre' b post, out = pre' ++ b :: post -> post <> [] ->
      b_mask b = repeat true (Z.to_nat bs) /\ length (b_rows b) = Z.to_nat bs /\
      length (real_rows b) = Z.to_nat bs.
Proof.
  intros Hbs Hc. destruct (padded_run bs nb ds Hbs Hc) as (em & st & _ & HI & Hres).
  destruct HI as (Hout & Hem & Hdone & Hsz & Hle).
  assert (Hfull : forall b, In b (map (mkfull (map f) bs) em) ->
            b_mask b = repeat true (Z.to_nat bs) /\ length (b_rows b) = Z.to_nat bs /\
            length (real_rows b) = Z.to_nat bs).
  { intros b Hb. apply in_map_iff in Hb. destruct Hb as (c & <- & Hc').
    rewrite Forall_forall in Hem. specialize (Hem c Hc').
    rewrite real_rows_mkfull by exact Hem. cbn. rewrite map_length. auto. }
  destruct Hres as [[Hb ->]|[Hb (r & Hok & Hr & ->)]]; eexists; (split; [reflexivity|]);
    intros pre' b post E Hpost; apply Hfull.
  - rewrite E. apply in_or_app. right. left. reflexivity.
  - (* b is not the last element, hence one of the full batches *)
    destruct (@exists_last _ post Hpost) as (post' & lastb & ->).
    replace (pre' ++ b :: post' ++ [lastb]) with ((pre' ++ b :: post') ++ [lastb]) in E
      by (rewrite <- app_assoc; reflexivity).
    apply app_inj_tail in E. destruct E as [E _]. rewrite E. apply in_or_app. right. left. reflexivity.
Qed.

Lemma padded_last_bucket_rule (bs nb : Z) (ds : list (cds A)) : 1 <= bs -> consistentb ds = true ->
  exists out, padded_batch_client_datasets zero (map f) bs nb ds = PDone out /\
    forall pre' b, out = pre' ++ [b] ->
      exists r, pick_ok (Z.of_nat (length (real_rows b))) bs nb r /\ wf_padded zero (Z.to_nat r) b.
Proof.
  intros Hbs Hc. destruct (padded_run bs nb ds Hbs Hc) as (em & st & _ & HI & Hres).
  destruct HI as (Hout & Hem & Hdone & Hsz & Hle).
  destruct Hres as [[Hb ->]|[Hb (r & Hok & Hr & ->)]]; eexists; (split; [reflexivity|]); intros pre' b E.
  - (* the last batch is a full one *)
    assert (Hin : In b (map (mkfull (map f) bs) em)) by (rewrite E; apply in_or_app; right; left; reflexivity).
    apply in_map_iff in Hin. destruct Hin as (c & <- & Hc').
    rewrite Forall_forall in Hem. specialize (Hem c Hc').
    exists bs. rewrite real_rows_mkfull by exact Hem. rewrite map_length, Hem, Z2Nat.id by lia.
    split.
    + unfold pick_ok. rewrite Z_mod_same_full. reflexivity.
    + unfold mkfull, full_mask. rewrite <- Hem, <- (map_length f c). apply wf_full.
  - apply app_inj_tail in E. destruct E as [_ <-].
    exists r. rewrite real_rows_pad by (rewrite map_length; lia).
    rewrite map_length, <- Hsz. split; [exact Hok|].
    exists (length (map f (concat (p_buf st)))). rewrite map_length.
    assert (Hl : (length (concat (p_buf st)) <= Z.to_nat r)%nat) by lia.
    split; [exact Hl|].
    rewrite real_rows_pad by (rewrite map_length; lia).
    unfold pad_examples; cbn [b_rows b_mask]. rewrite map_length. rewrite Nat.min_l by lia.
    repeat split; reflexivity.
Qed.

(* buf_size <= batch_size after every prefix of the client sequence (the code comment
   claims `<`; `=` is reachable, see C15_buffer_full_reachable) *)
Lemma padded_buffer_invariant (bs : Z) (ds rest : list (cds A)) : 1 <= bs -> consistentb (ds ++ rest) = true ->
  exists st, pfold (map f) bs pinit ds = SNext st /\
    0 <= p_bufsize st <= bs /\ p_bufsize st = Z.of_nat (length (concat (p_buf st))).
Proof.
  clear zero. intros Hbs Hc.
  assert (Hc' : consistentb ds = true).
  { destruct ds as [|d0 ds']; [reflexivity|]. cbn [consistentb app] in *.
    rewrite forallb_app in Hc. apply andb_true_iff in Hc. tauto. }
  destruct (pfold_consistent (map f) bs ds Hbs Hc') as (st & em & H1 & HI & _).
  destruct HI as (_ & _ & _ & Hsz & Hle). exists st. split; [exact H1|]. lia.
Qed.

Lemma padded_mismatch_rejected (bs nb : Z) (ds : list (cds A)) : 1 <= bs -> consistentb ds = false ->
  exists out, padded_batch_client_datasets zero (map f) bs nb ds = PValueError out.
Proof.
  intros Hbs Hc. destruct ds as [|d0 rest]; [discriminate|]. cbn [consistentb] in Hc.
  destruct (forallb_false_split _ _ Hc) as (good & d & rest' & -> & Hgood & Hbad).
  destruct (pfold_mismatch (map f) bs good d0 d rest' Hbs Hgood Hbad) as (st & _ & H2).
  exists (p_out st). unfold padded_batch_client_datasets.
  change (d0 :: good ++ d :: rest') with ((d0 :: good) ++ d :: rest'). now rewrite H2.
Qed.

(* ---- buffered_shuffle_batch_client_datasets ---- *)

Lemma gen_items_consistent p q (ds : list (cds A)) : forallb (meta_ok p q) ds = true ->
  gen_items (Some p) (Some q) ds = (all_rows ds, false).
Proof.
  induction ds as [|d ds IH]; cbn [gen_items forallb]; intros H; [reflexivity|].
  apply andb_true_iff in H. destruct H as [Hd H]. destruct (check_ok p q d Hd) as [-> ->].
  rewrite (IH H). reflexivity.
Qed.

Lemma gen_items_mismatch p q (ds : list (cds A)) : forallb (meta_ok p q) ds = false ->
  exists items, gen_items (Some p) (Some q) ds = (items, true).
Proof.
  induction ds as [|d ds IH]; cbn [gen_items forallb]; intros H; [discriminate|].
  destruct (meta_ok p q d) eqn:Ed.
  - destruct (check_ok p q d Ed) as [-> ->]. cbn in H. destruct (IH H) as (items & ->). eauto.
  - destruct (check_bad p q d Ed) as [->|[-> ->]]; eauto.
Qed.

Lemma shuffle_batch_exactly_once (bs B : Z) code draws (ds : list (cds A)) :
  1 <= bs -> 1 <= B -> consistentb ds = true ->
  exists out, buffered_shuffle_batch_client_datasets (map f) bs B code draws ds = Some (out, false) /\
    Permutation (concat out) (map f (all_rows ds)) /\
    Forall (fun b => (1 <= length b <= Z.to_nat bs)%nat) out /\
    (forall pre' b post, out = pre' ++ b :: post -> post <> [] -> length b = Z.to_nat bs).
Proof.
  intros Hbs HB Hc. unfold buffered_shuffle_batch_client_datasets.
  destruct ds as [|d0 rest].
  { exists []. split; [reflexivity|]. split; [reflexivity|]. split; [constructor|].
    intros [|? ?] ? ? E; discriminate. }
  cbn [consistentb] in Hc.
  assert (Hg : gen_items None None (d0 :: rest) = (all_rows (d0 :: rest), false)).
  { cbn [gen_items check_pre check_feat]. rewrite (gen_items_consistent _ _ rest Hc). reflexivity. }
  rewrite Hg.
  destruct (buffered_shuffle_perm B code draws (all_rows (d0 :: rest)) HB) as (sh & -> & Hperm).
  destruct (batch_loop_spec (map f) bs Hbs sh [] []) as (fulls & buf' & H1 & H2 & H3 & H4); [cbn; lia|].
  rewrite H1. cbn [app] in *.
  assert (Hfl : forall c, In c fulls -> length (map f c) = Z.to_nat bs).
  { intros c Hin. rewrite Forall_forall in H3. rewrite map_length. now apply H3. }
  destruct buf' as [|x buf''].
  - exists (map (map f) fulls). split; [reflexivity|]. rewrite app_nil_r in H2. split; [|split].
    + rewrite <- concat_map, <- H2. apply Permutation_map. symmetry. exact Hperm.
    + apply Forall_forall. intros b Hb. apply in_map_iff in Hb. destruct Hb as (c & <- & Hin).
      rewrite (Hfl c Hin). lia.
    + intros pre' b post E _. assert (Hb : In b (map (map f) fulls)) by (rewrite E; apply in_or_app; right; left; reflexivity).
      apply in_map_iff in Hb. destruct Hb as (c & <- & Hin). now apply Hfl.
  - exists (map (map f) fulls ++ [map f (x :: buf'')]). split; [reflexivity|]. split; [|split].
    + rewrite concat_app. cbn [concat]. rewrite app_nil_r, <- concat_map, <- map_app, <- H2.
      apply Permutation_map. symmetry. exact Hperm.
    + apply Forall_app_intro.
      * apply Forall_forall. intros b Hb. apply in_map_iff in Hb. destruct Hb as (c & <- & Hin).
        rewrite (Hfl c Hin). lia.
      * constructor; [|constructor]. rewrite map_length. cbn [length] in *. lia.
    + intros pre' b post E Hpost.
      destruct (@exists_last _ post Hpost) as (post' & lastb & ->).
      replace (pre' ++ b :: post' ++ [lastb]) with ((pre' ++ b :: post') ++ [lastb]) in E
        by (rewrite <- app_assoc; reflexivity).
      apply app_inj_tail in E. destruct E as [E _].
      assert (Hb : In b (map (map f) fulls)) by (rewrite E; apply in_or_app; right; left; reflexivity).
      apply in_map_iff in Hb. destruct Hb as (c & <- & Hin). now apply Hfl.
Qed.

Lemma shuffle_batch_mismatch_rejected (bs B : Z) code draws (ds : list (cds A)) :
  1 <= B -> consistentb ds = false ->
  exists out, buffered_shuffle_batch_client_datasets (map f) bs B code draws ds = Some (out, true).
Proof.
  intros HB Hc. unfold buffered_shuffle_batch_client_datasets.
  destruct ds as [|d0 rest]; [discriminate|]. cbn [consistentb] in Hc.
  cbn [gen_items check_pre check_feat].
  destruct (gen_items_mismatch _ _ rest Hc) as (items & ->).
  destruct (buffered_shuffle_err B code draws (d_rows d0 ++ items) HB) as (sh & -> & _).
  eauto.
Qed.

End C15Props.

(* ------------------------------------------------------------------ *)
(* RepeatableIterator                                                   *)

Section RepeatProofs.
Context {A : Type}.

(* k passes: the items, then StopIteration, k times *)
Fixpoint passes (k : nat) (base : list A) : list (option A) :=
  match k with O => [] | S k' => (map Some base ++ [None]) ++ passes k' base end.

Lemma firstn_app_l' {X} n (l1 l2 : list X) : (n <= length l1)%nat -> firstn n (l1 ++ l2) = firstn n l1.
Proof. intros H. rewrite firstn_app. replace (n - length l1)%nat with 0%nat by lia. cbn. apply app_nil_r. Qed.

Lemma trace_later : forall n m (rest buf : list A), (n <= m)%nat ->
  rit_trace n (mk_rit false rest buf) = firstn n (map Some rest ++ None :: passes m buf).
Proof.
  induction n as [|n IH]; intros m rest buf Hm; [reflexivity|].
  cbn [rit_trace]. unfold rit_next; cbn [r_iter r_first r_buf].
  destruct rest as [|v rest]; cbn [map app firstn]; f_equal.
  - destruct m as [|m]; [lia|]. rewrite (IH m buf buf) by lia. cbn [passes].
    rewrite <- app_assoc. reflexivity.
  - apply IH. lia.
Qed.

Lemma trace_first : forall n m (rest seen : list A), (n <= m)%nat ->
  rit_trace n (mk_rit true rest seen) = firstn n (map Some rest ++ None :: passes m (seen ++ rest)).
Proof.
  induction n as [|n IH]; intros m rest seen Hm; [reflexivity|].
  cbn [rit_trace]. unfold rit_next; cbn [r_iter r_first r_buf].
  destruct rest as [|v rest]; cbn [map app firstn]; f_equal.
  - rewrite app_nil_r. destruct m as [|m]; [lia|]. rewrite (trace_later n m seen seen) by lia. cbn [passes].
    rewrite <- app_assoc. reflexivity.
  - rewrite (IH m rest (seen ++ [v])) by lia. rewrite <- app_assoc. reflexivity.
Qed.

(* every call sequence observes the first pass over and over, separated by StopIteration *)
Lemma repeatable_replays (container : bool) (base : list A) : forall n m, (n <= m)%nat ->
  rit_trace n (rit_init container base) = firstn n (passes (S m) base).
Proof.
  intros n m Hm. unfold rit_init. cbn [passes]. rewrite <- app_assoc. cbn [app].
  destruct container.
  - apply trace_later. exact Hm.
  - rewrite (trace_first n m base []) by exact Hm. reflexivity.
Qed.

Lemma passes_length k (base : list A) : length (passes k base) = (k * S (length base))%nat.
Proof. induction k; cbn [passes]; [reflexivity|]. rewrite !app_length, map_length, IHk. cbn. lia. Qed.

(* exactly k passes *)
Lemma repeatable_whole_passes (container : bool) (base : list A) k :
  rit_trace (k * S (length base)) (rit_init container base) = passes k base.
Proof.
  rewrite (repeatable_replays container base _ (k * S (length base))) by lia.
  assert (G : forall j, (k <= j)%nat -> firstn (k * S (length base)) (passes j base) = passes k base).
  { clear. induction k as [|k IH]; intros j Hj; [reflexivity|].
    destruct j as [|j]; [lia|]. cbn [passes].
    replace (S k * S (length base))%nat with (length (map Some base ++ [None]) + k * S (length base))%nat
      by (rewrite app_length, map_length; cbn; lia).
    rewrite firstn_app_2. f_equal. apply IH. lia. }
  apply (G (S (k * S (length base)))). nia.
Qed.
End RepeatProofs.

(* ------------------------------------------------------------------ *)
(* (T) the functions translated from padded_batch_client_datasets on this run
   (gen/Gen_client_datasets_multi.v) ARE the hand-written model                *)

From FV Require Import gen.Gen_client_datasets_multi.

Section GenTie.
Context {A : Type} (zero : A) (pre : list A -> list A).

Lemma gen_init_spec : pbcd_init = pinit (A:=A).
Proof. reflexivity. Qed.

Lemma gen_full_mask_spec bs : pbcd_full_mask bs = full_mask bs.
Proof. reflexivity. Qed.

Lemma gen_loop_spec : forall fuel bs size (ex : list A) start out,
  pbcd_loop1 pre fuel bs (full_mask bs) out size ex start =
  match emit_loop pre fuel bs size ex start out with Some (s, o) => Some (o, s) | None => None end.
Proof.
  induction fuel as [|fuel IH]; intros bs size ex start out; cbn [pbcd_loop1 emit_loop]; [reflexivity|].
  destruct (start + bs <? size); [apply IH|reflexivity].
Qed.

Lemma gen_step_spec bs (st : pst) (d : cds A) :
  pbcd_step pre (S (length (d_rows d))) bs (full_mask bs) st d = pstep pre bs st d.
Proof.
  unfold pbcd_step, pstep, check_pre, check_feat, ptail. rewrite !gen_loop_spec.
  destruct (p_pre st) as [p|]; destruct (p_feat st) as [q|]; cbv zeta;
    repeat match goal with
           | |- context [if ?c then _ else _] => destruct c
           | |- context [match p_buf st with _ => _ end] => destruct (p_buf st)
           | |- context [match emit_loop ?a ?b ?c ?d ?e ?f ?g with _ => _ end] =>
               destruct (emit_loop a b c d e f g) as [[? ?]|]
           end; reflexivity.
Qed.

Lemma gen_finish_spec bs nb (st : pst (A:=A)) :
  pbcd_finish zero pre bs nb (full_mask bs) st = pfinish zero pre bs nb st.
Proof.
  unfold pbcd_finish, pfinish. destruct (p_buf st); [reflexivity|]. cbv zeta.
  destruct (pick (p_bufsize st) bs nb); reflexivity.
Qed.

(* the whole function, written with the translated pieces only *)
Fixpoint gen_pfold (bs : Z) (st : pst) (ds : list (cds A)) : step_res :=
  match ds with
  | [] => SNext st
  | d :: ds' => match pbcd_step pre (S (length (d_rows d))) bs (pbcd_full_mask bs) st d with
                | SNext st' => gen_pfold bs st' ds'
                | r => r
                end
  end.

Definition gen_padded_batch_client_datasets (bs nb : Z) (ds : list (cds A)) : pres :=
  match gen_pfold bs pbcd_init ds with
  | SNext st => pbcd_finish zero pre bs nb (pbcd_full_mask bs) st
  | SRaise out => PValueError out
  | SFuel => PStuck
  end.

Lemma gen_pfold_spec bs : forall ds st, gen_pfold bs st ds = pfold pre bs st ds.
Proof.
  induction ds as [|d ds IH]; intros st; cbn [gen_pfold pfold]; [reflexivity|].
  rewrite gen_full_mask_spec, gen_step_spec. destruct (pstep pre bs st d); auto.
Qed.

Lemma translated_is_model bs nb ds :
  gen_padded_batch_client_datasets bs nb ds = padded_batch_client_datasets zero pre bs nb ds.
Proof.
  unfold gen_padded_batch_client_datasets, padded_batch_client_datasets.
  rewrite gen_pfold_spec, gen_init_spec. destruct (pfold pre bs pinit ds); try reflexivity.
  all: rewrite gen_full_mask_spec; apply gen_finish_spec.
Qed.
End GenTie.
