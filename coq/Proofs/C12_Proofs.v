(* C12 lemmas: every degenerate configuration of the round skeletons of
   Model/C12_Model.v equals (Leibniz or ==) the FedAvg round of Model/C01_Model.v. *)
From Coq Require Import ZArith QArith Qabs List Permutation Bool Lia Lqa Setoid Morphisms.
From FV Require Import Common.ListX Common.Batch Common.CMonoid Common.NanQ Common.QVec Common.WMean
  gen.Gen_tree_util Model.C01_Model Proofs.C01_Proofs Model.C12_Model.
Import ListNotations.
Local Open Scope Q_scope.

(* ---------------- generic facts about fedavg_apply / fedavg_run ---------------- *)
Section Ext.
Context {K B CS1 CS2 OS : Type}.
Variable cinit1 : list Q -> K -> CS1.
Variable cstep1 : CS1 -> B -> CS1.
Variable cparams1 : CS1 -> list Q.
Variable cinit2 : list Q -> K -> CS2.
Variable cstep2 : CS2 -> B -> CS2.
Variable cparams2 : CS2 -> list Q.
Variable sopt : list Q -> OS -> list Q -> OS * list Q.

(* two client programs with the same local results give the same round (Leibniz) *)
Lemma apply_ext st (clients : list (client (K := K) (B := B))) :
  (forall c, In c clients -> run_client cinit1 cstep1 cparams1 (fst st) c = run_client cinit2 cstep2 cparams2 (fst st) c) ->
  fedavg_apply cinit1 cstep1 cparams1 sopt st clients = fedavg_apply cinit2 cstep2 cparams2 sopt st clients.
Proof.
  intros H. unfold fedavg_apply, train_for_each_client. f_equal. apply map_ext_in. intros c I. rewrite H by exact I. reflexivity.
Qed.

Lemma run_ext cohorts : forall st,
  (forall p c, run_client cinit1 cstep1 cparams1 p c = run_client cinit2 cstep2 cparams2 p c) ->
  fedavg_run cinit1 cstep1 cparams1 sopt st cohorts = fedavg_run cinit2 cstep2 cparams2 sopt st cohorts.
Proof.
  induction cohorts as [|cl cohorts IH]; intros st H; cbn; [reflexivity|].
  rewrite (apply_ext st cl) by (intros; apply H).
  destruct (fedavg_apply cinit2 cstep2 cparams2 sopt st cl) as [[[p os] dg]|]; [|reflexivity].
  rewrite IH by exact H. reflexivity.
Qed.

(* two client programs with == local results from == parameters give == rounds *)
Variable os_eq : OS -> OS -> Prop.
Hypothesis sopt_proper : forall g g' s s' p p', g =v= g' -> os_eq s s' -> p =v= p' ->
  os_eq (fst (sopt g s p)) (fst (sopt g' s' p')) /\ snd (sopt g s p) =v= snd (sopt g' s' p').

Lemma apply_equiv p p' os os' (clients : list (client (K := K) (B := B))) :
  NoDup (map c_id clients) -> p =v= p' -> os_eq os os' ->
  (forall c, In c clients -> length (run_client cinit1 cstep1 cparams1 p c) = length p) ->
  (forall c, In c clients -> length (run_client cinit2 cstep2 cparams2 p' c) = length p') ->
  (forall c, In c clients -> run_client cinit1 cstep1 cparams1 p c =v= run_client cinit2 cstep2 cparams2 p' c) ->
  exists q s dg q' s' dg',
    fedavg_apply cinit1 cstep1 cparams1 sopt (p, os) clients = Some (q, s, dg) /\
    fedavg_apply cinit2 cstep2 cparams2 sopt (p', os') clients = Some (q', s', dg') /\
    q =v= q' /\ os_eq s s' /\ map fst dg = map fst dg'.
Proof.
  intros ND Ep Eo L1 L2 E.
  assert (W1 : wf_round cinit1 cstep1 cparams1 (length p) p clients)
    by (split; [exact ND|split; [reflexivity|apply Forall_forall; exact L1]]).
  assert (W2 : wf_round cinit2 cstep2 cparams2 (length p') p' clients)
    by (split; [exact ND|split; [reflexivity|apply Forall_forall; exact L2]]).
  destruct (round_is_weighted_mean cinit1 cstep1 cparams1 sopt _ p os clients W1) as [g [Eg Hg]].
  destruct (round_is_weighted_mean cinit2 cstep2 cparams2 sopt _ p' os' clients W2) as [g' [Eg' Hg']].
  assert (Egg : g =v= g').
  { rewrite Eg, Eg', <- (veq_length _ _ Ep).
    apply wmean_batch_Forall2; [apply deltas_wf; apply Forall_forall; exact L1|].
    unfold deltas. clear - E. induction clients as [|c clients IH]; cbn; constructor.
    - cbn [fst snd]. split; [reflexivity|apply E; left; reflexivity].
    - apply IH. intros c' I. apply E. right; exact I. }
  destruct (sopt_proper g g' os os' p p' Egg Eo Ep) as [E1 E2].
  do 6 eexists. split; [exact Hg|]. split; [exact Hg'|]. split; [exact E2|]. split; [exact E1|].
  rewrite !map_map. reflexivity.
Qed.

Lemma run_equiv cohorts : forall p p' os os',
  Forall (fun cl : list (client (K := K) (B := B)) => NoDup (map c_id cl)) cohorts -> p =v= p' -> os_eq os os' ->
  (forall p c, length (run_client cinit1 cstep1 cparams1 p c) = length p) ->
  (forall p c, length (run_client cinit2 cstep2 cparams2 p c) = length p) ->
  (forall p p' c, p =v= p' -> run_client cinit1 cstep1 cparams1 p c =v= run_client cinit2 cstep2 cparams2 p' c) ->
  exists q s dgs q' s' dgs',
    fedavg_run cinit1 cstep1 cparams1 sopt (p, os) cohorts = Some (q, s, dgs) /\
    fedavg_run cinit2 cstep2 cparams2 sopt (p', os') cohorts = Some (q', s', dgs') /\
    q =v= q' /\ os_eq s s' /\ Forall2 (fun dg dg' => map fst dg = map fst dg') dgs dgs'.
Proof.
  induction cohorts as [|cl cohorts IH]; intros p p' os os' ND Ep Eo L1 L2 E.
  - cbn. do 6 eexists. repeat split; try eassumption. constructor.
  - inversion ND as [|? ? NDc ND']; subst.
    destruct (apply_equiv p p' os os' cl NDc Ep Eo (fun c _ => L1 p c) (fun c _ => L2 p' c) (fun c _ => E p p' c Ep))
      as [q [s [dg [q' [s' [dg' [H1 [H2 [Eq [Es Ed]]]]]]]]]].
    destruct (IH q q' s s' ND' Eq Es L1 L2 E) as [r [t [dgs [r' [t' [dgs' [G1 [G2 [Er [Et Eds]]]]]]]]]].
    cbn [fedavg_run]. rewrite H1, H2, G1, G2. do 6 eexists. split; [reflexivity|]. split; [reflexivity|].
    split; [exact Er|]. split; [exact Et|]. constructor; assumption.
Qed.
End Ext.

(* ---------------- the skeletons ---------------- *)
Section Reductions.
Context {K U B S OS : Type}.
Variable grad : list Q -> B -> U -> list Q.
Variable split : K -> K * U.
Variable split3 : K -> K * U * U.
Variable split_pair : K -> K * K.
Variable copt_init : list Q -> S.
Variable copt_apply : list Q -> S -> list Q -> S * list Q.
Variable sopt : list Q -> OS -> list Q -> OS * list Q.

Notation client := (@client K B).
Notation gd_init := (gd_init copt_init).
Notation gd_step := (gd_step split copt_apply).
Notation avg_step := (avg_step grad split copt_apply).
Notation prox_step := (prox_step grad split copt_apply).
Notation apfl_step := (apfl_step grad split3 copt_apply).
Notation fedavg := (C12_Model.fedavg grad split copt_init copt_apply sopt).
Notation fedprox := (C12_Model.fedprox grad split copt_init copt_apply sopt).
Notation fedavg_on_prox := (C12_Model.fedavg_on_prox grad split copt_init copt_apply sopt).
Notation apfl_global := (C12_Model.apfl_global grad split3 copt_init copt_apply sopt).

(* the step state keeps the round's server params *)
Lemma gd_fold_server (gr : list Q -> list Q -> B -> U -> list Q) bs : forall st, t_server (fold_left (gd_step gr) bs st) = t_server st.
Proof.
  induction bs as [|b bs IH]; intros st; cbn [fold_left]; [reflexivity|]. rewrite IH.
  unfold C12_Model.gd_step. destruct (split (t_rng st)) as [rng u].
  destruct (copt_apply (gr (t_params st) (t_server st) b u) (t_opt st) (t_params st)). reflexivity.
Qed.

(* two gradient functions that agree whenever the second argument is the kept server params *)
Lemma gd_fold_ext (gr1 gr2 : list Q -> list Q -> B -> U -> list Q) w_s bs : (forall p b u, gr1 p w_s b u = gr2 p w_s b u) ->
  forall st, t_server st = w_s -> fold_left (gd_step gr1) bs st = fold_left (gd_step gr2) bs st.
Proof.
  intros H. induction bs as [|b bs IH]; intros st Hs; cbn [fold_left]; [reflexivity|].
  assert (E : gd_step gr1 st b = gd_step gr2 st b).
  { unfold C12_Model.gd_step. destruct (split (t_rng st)) as [rng u]. rewrite Hs, H. reflexivity. }
  rewrite E. apply IH. rewrite <- Hs. apply (gd_fold_server gr2 [b]).
Qed.

(* C12_fedprox_is_fedavg_on_prox_loss: FedProx = FedAvg on loss + proximal penalty toward
   the round's server params, for every mu (Leibniz equality of the whole round result) *)
Lemma fedprox_is_fedavg_on_prox mu st (clients : list client) : fedprox mu st clients = fedavg_on_prox mu st clients.
Proof.
  unfold C12_Model.fedprox, C12_Model.fedavg_on_prox. apply apply_ext. intros c _.
  unfold run_client. apply f_equal. unfold C12_Model.prox_step, avg_on_prox_step.
  apply (gd_fold_ext _ _ (fst st)); [reflexivity|reflexivity].
Qed.

(* C12_apfl_global_eq_fedavg: a gradient that ignores its key *)
Lemma apfl_fold_eq bs : (forall p b u u', grad p b u = grad p b u') ->
  forall st st', t_params st = t_params st' -> t_opt st = t_opt st' ->
  t_params (fold_left apfl_step bs st) = t_params (fold_left avg_step bs st').
Proof.
  intros H. induction bs as [|b bs IH]; intros st st' Ep Eo; cbn [fold_left]; [exact Ep|].
  apply IH; unfold C12_Model.apfl_step, C12_Model.avg_step, C12_Model.gd_step;
    destruct (split3 (t_rng st)) as [[rng su] cu]; destruct (split (t_rng st')) as [rng' u];
    rewrite (H (t_params st) b su u), Ep, Eo;
    destruct (copt_apply (grad (t_params st') b u) (t_opt st') (t_params st')); reflexivity.
Qed.

Lemma apfl_global_eq_fedavg st (clients : list client) : (forall p b u u', grad p b u = grad p b u') ->
  apfl_global st clients = fedavg st clients.
Proof.
  intros H. unfold C12_Model.apfl_global, C12_Model.fedavg. apply apply_ext. intros c _.
  unfold run_client, client_final. f_equal. apply apfl_fold_eq; [exact H|reflexivity|reflexivity].
Qed.

Lemma apfl_global_runs_eq_fedavg st (cohorts : list (list client)) : (forall p b u u', grad p b u = grad p b u') ->
  apfl_global_runs grad split3 copt_init copt_apply sopt st cohorts = fedavg_runs grad split copt_init copt_apply sopt st cohorts.
Proof.
  intros H. unfold apfl_global_runs, fedavg_runs. apply run_ext. intros p c.
  unfold run_client, client_final. f_equal. apply apfl_fold_eq; [exact H|reflexivity|reflexivity].
Qed.

(* ---------------- reductions that hold up to == on Q ---------------- *)
Variable S_eq : S -> S -> Prop.
Variable os_eq : OS -> OS -> Prop.
Hypothesis copt_init_proper : forall p p', p =v= p' -> S_eq (copt_init p) (copt_init p').
Hypothesis copt_apply_proper : forall g g' s s' p p', g =v= g' -> S_eq s s' -> p =v= p' ->
  S_eq (fst (copt_apply g s p)) (fst (copt_apply g' s' p')) /\ snd (copt_apply g s p) =v= snd (copt_apply g' s' p').
Hypothesis copt_apply_length : forall g s p, length g = length p -> length (snd (copt_apply g s p)) = length p.
Hypothesis grad_proper : forall p p' b u, p =v= p' -> grad p b u =v= grad p' b u.
Hypothesis grad_length : forall p b u, length (grad p b u) = length p.
Hypothesis sopt_proper : forall g g' s s' p p', g =v= g' -> os_eq s s' -> p =v= p' ->
  os_eq (fst (sopt g s p)) (fst (sopt g' s' p')) /\ snd (sopt g s p) =v= snd (sopt g' s' p').

Definition t_rel (d : nat) (a b : tstate (S := S) (K := K)) : Prop :=
  length (t_params a) = d /\ length (t_server a) = d /\
  t_params a =v= t_params b /\ S_eq (t_opt a) (t_opt b) /\ t_rng a = t_rng b /\ t_server a =v= t_server b.

Definition gr_rel (d : nat) (gr1 gr2 : list Q -> list Q -> B -> U -> list Q) : Prop :=
  forall p p' s s' b u, length p = d -> length s = d -> p =v= p' -> s =v= s' ->
    gr1 p s b u =v= gr2 p' s' b u /\ length (gr1 p s b u) = d.

Lemma gd_step_rel d gr1 gr2 st st' b : gr_rel d gr1 gr2 -> t_rel d st st' -> t_rel d (gd_step gr1 st b) (gd_step gr2 st' b).
Proof.
  intros G [Lp [Ls [Ep [Eo [Er Es]]]]]. unfold C12_Model.gd_step. rewrite <- Er.
  destruct (split (t_rng st)) as [rng u].
  destruct (G _ _ _ _ b u Lp Ls Ep Es) as [Eg Lg].
  pose proof (copt_apply_proper _ _ _ _ _ _ Eg Eo Ep) as [E1 E2].
  pose proof (copt_apply_length (gr1 (t_params st) (t_server st) b u) (t_opt st) (t_params st) ltac:(congruence)) as L2.
  destruct (copt_apply (gr1 (t_params st) (t_server st) b u) (t_opt st) (t_params st)).
  destruct (copt_apply (gr2 (t_params st') (t_server st') b u) (t_opt st') (t_params st')).
  cbn [fst snd] in *. unfold t_rel. cbn [t_params t_opt t_rng t_server]. repeat split; try assumption. congruence.
Qed.

Lemma gd_fold_rel d gr1 gr2 bs : gr_rel d gr1 gr2 -> forall st st', t_rel d st st' ->
  t_rel d (fold_left (gd_step gr1) bs st) (fold_left (gd_step gr2) bs st').
Proof.
  intros G. induction bs as [|b bs IH]; intros st st' R; cbn [fold_left]; [exact R|].
  apply IH. apply gd_step_rel; assumption.
Qed.

Lemma gd_init_rel p p' k : p =v= p' -> t_rel (length p) (gd_init p k) (gd_init p' k).
Proof.
  intros E. unfold C12_Model.gd_init, t_rel. cbn [t_params t_opt t_rng t_server].
  repeat split; try assumption; try reflexivity. apply copt_init_proper. exact E.
Qed.

Lemma gd_run_client_rel gr1 gr2 p p' (c : client) : gr_rel (length p) gr1 gr2 -> p =v= p' ->
  run_client gd_init (gd_step gr1) t_params p c =v= run_client gd_init (gd_step gr2) t_params p' c /\
  length (run_client gd_init (gd_step gr1) t_params p c) = length p.
Proof.
  intros G E. unfold run_client, client_final.
  destruct (gd_fold_rel (length p) gr1 gr2 (c_batches c) G _ _ (gd_init_rel p p' (c_key c) E)) as [Lp [_ [Ep _]]].
  split; [apply vsub_proper; assumption|apply vsub_length; [reflexivity|exact Lp]].
Qed.

Definition plain_grad : list Q -> list Q -> B -> U -> list Q := fun params _ batch rng => grad params batch rng.

Lemma plain_gr_rel d : gr_rel d plain_grad plain_grad.
Proof.
  intros p p' s s' b u Lp Ls Ep Es. unfold plain_grad. split; [apply grad_proper; exact Ep|rewrite grad_length; exact Lp].
Qed.

Lemma prox0_gr_rel d mu : mu == 0 -> gr_rel d (prox_grad grad mu) plain_grad.
Proof.
  intros Hm p p' s s' b u Lp Ls Ep Es. unfold prox_grad, plain_grad.
  assert (Lg : length (grad p b u) = d) by (rewrite grad_length; exact Lp).
  split.
  - rewrite Hm, vscale_0. rewrite (vsub_length p s d Lp Ls). rewrite <- Lg.
    rewrite (vadd_zero_r (grad p b u)). apply grad_proper. exact Ep.
  - apply vadd_length; [exact Lg|]. rewrite vscale_length. apply vsub_length; assumption.
Qed.

(* FedAvg's client program respects == and keeps the length *)
Lemma avg_run_client_proper p p' (c : client) : p =v= p' ->
  run_client gd_init avg_step t_params p c =v= run_client gd_init avg_step t_params p' c.
Proof. intros E. apply (gd_run_client_rel plain_grad plain_grad p p' c (plain_gr_rel _) E). Qed.
Lemma avg_run_client_length p (c : client) : length (run_client gd_init avg_step t_params p c) = length p.
Proof. apply (gd_run_client_rel plain_grad plain_grad p p c (plain_gr_rel _)). reflexivity. Qed.

(* C12_fedprox_mu0_eq_fedavg, one round and along runs *)
Lemma fedprox_mu0_eq_fedavg mu p p' os os' (clients : list client) : mu == 0 ->
  NoDup (map c_id clients) -> p =v= p' -> os_eq os os' ->
  exists q s dg q' s' dg',
    fedprox mu (p, os) clients = Some (q, s, dg) /\ fedavg (p', os') clients = Some (q', s', dg') /\
    q =v= q' /\ os_eq s s' /\ map fst dg = map fst dg'.
Proof.
  intros Hm ND Ep Eo. unfold C12_Model.fedprox, C12_Model.fedavg.
  apply (apply_equiv _ _ _ _ _ _ sopt os_eq sopt_proper); try assumption.
  - intros c _. apply (gd_run_client_rel (prox_grad grad mu) plain_grad p p c (prox0_gr_rel _ mu Hm)). reflexivity.
  - intros c _. apply avg_run_client_length.
  - intros c _. apply (gd_run_client_rel (prox_grad grad mu) plain_grad p p' c (prox0_gr_rel _ mu Hm) Ep).
Qed.

Lemma fedprox_mu0_runs_eq_fedavg mu (cohorts : list (list client)) p p' os os' : mu == 0 ->
  Forall (fun cl => NoDup (map c_id cl)) cohorts -> p =v= p' -> os_eq os os' ->
  exists q s dgs q' s' dgs',
    fedprox_runs grad split copt_init copt_apply sopt mu (p, os) cohorts = Some (q, s, dgs) /\
    fedavg_runs grad split copt_init copt_apply sopt (p', os') cohorts = Some (q', s', dgs') /\
    q =v= q' /\ os_eq s s' /\ Forall2 (fun dg dg' => map fst dg = map fst dg') dgs dgs'.
Proof.
  intros Hm ND Ep Eo. unfold fedprox_runs, fedavg_runs.
  apply (run_equiv _ _ _ _ _ _ sopt os_eq sopt_proper); try assumption.
  - intros q c. apply (gd_run_client_rel (prox_grad grad mu) plain_grad q q c (prox0_gr_rel _ mu Hm)). reflexivity.
  - intros q c. apply avg_run_client_length.
  - intros q q' c E. apply (gd_run_client_rel (prox_grad grad mu) plain_grad q q' c (prox0_gr_rel _ mu Hm) E).
Qed.

(* ---------------- HypCluster with a single cluster ---------------- *)
(* the client as FedAvg must be given it: HypCluster trains with jax.random.split(rng)[1] *)
Definition rekey (c : client) : client := mkClient (c_id c) (c_n c) (snd (split_pair (c_key c))) (c_batches c).
Notation hypcluster1 := (C12_Model.hypcluster grad split split_pair copt_init copt_apply sopt (fun _ => O)).

Lemma hc_fold_single nums (outputs : list (Z * list Q)) : forall a k,
  fold_left (hc_step nums (fun _ => O)) outputs ([vlift a], [k]) =
  ([vlift (fold_left vadd (map (fun o => rscale (inject_Z (num_of nums (fst o))) (snd o)) outputs) a)],
   [fold_left Z.add (map (fun o => num_of nums (fst o)) outputs) k]).
Proof.
  induction outputs as [|[id d] outputs IH]; intros a k; [reflexivity|].
  cbn [fold_left map]. unfold hc_step at 2. cbn [upd fst snd]. unfold NanQ.of_Z.
  rewrite tree_weight_lift, tree_add_lift, IH. reflexivity.
Qed.

Lemma inject_Z_fold (l : list Z) : forall k,
  fold_left Qplus (map inject_Z l) (inject_Z k) == inject_Z (fold_left Z.add l k).
Proof.
  induction l as [|x l IH]; intros k; cbn; [reflexivity|]. rewrite <- IH.
  rewrite !fold_left_Qplus, inject_Z_plus. reflexivity.
Qed.

Definition total_examples (clients : list client) : Z := fold_left Z.add (map c_n clients) 0%Z.
Definition hc_sum (p : list Q) (clients : list client) : list Q :=
  fold_left vadd (map (fun c => rscale (inject_Z (c_n c)) (run_client gd_init avg_step t_params p (rekey c))) clients)
            (vzero (length p)).

Lemma hc_single p os (clients : list client) : NoDup (map c_id clients) ->
  hypcluster1 [(p, os)] clients =
  if (0 <? total_examples clients)%Z
  then let g := rscale (inv_weight (inject_Z (total_examples clients))) (hc_sum p clients) in
       Some [(snd (sopt g os p), fst (sopt g os p))]
  else Some [(p, os)].
Proof.
  intros ND. unfold C12_Model.hypcluster, hc_expectation. cbn [map fst snd].
  rewrite tree_zeros_like_lift, hc_fold_single. rewrite !map_map. cbn [fst snd combine map].
  assert (E1 : map (fun c : client => rscale (inject_Z (num_of (client_num_examples clients) (c_id c)))
                                   (hc_train grad split split_pair copt_init copt_apply [p] (fun _ => O) c)) clients
               = map (fun c => rscale (inject_Z (c_n c)) (run_client gd_init avg_step t_params p (rekey c))) clients).
  { apply map_ext_in. intros c I. rewrite (num_of_client clients c ND I). reflexivity. }
  assert (E2 : map (fun c : client => num_of (client_num_examples clients) (c_id c)) clients = map c_n clients).
  { apply map_ext_in. intros c I. apply (num_of_client clients c ND I). }
  rewrite E1, E2. fold (total_examples clients). fold (hc_sum p clients).
  unfold hc_cluster_delta. destruct (0 <? total_examples clients)%Z; [|reflexivity].
  unfold NanQ.of_Z. rewrite gen_inverse_weight_spec. unfold hc_update. cbn [fst snd]. rewrite unlift_vlift.
  cbn [sequence option_map map fst snd]. destruct (sopt _ os p). reflexivity.
Qed.

(* a round that saw no example: HypCluster keeps (params, opt_state) *)
Lemma hypcluster_empty_round_keeps_state p os (clients : list client) : NoDup (map c_id clients) ->
  (total_examples clients <= 0)%Z -> hypcluster1 [(p, os)] clients = Some [(p, os)].
Proof.
  intros ND H. rewrite hc_single by exact ND. destruct (Z.ltb_spec 0 (total_examples clients)); [lia|reflexivity].
Qed.

Lemma rekey_ids (clients : list client) : map c_id (map rekey clients) = map c_id clients.
Proof. rewrite map_map. reflexivity. Qed.

Lemma fedavg_rekey_mean p os (clients : list client) : NoDup (map c_id clients) ->
  exists g dg, fedavg (p, os) (map rekey clients) = Some (snd (sopt g os p), fst (sopt g os p), dg) /\
    g =v= rscale (inv_weight (inject_Z (total_examples clients))) (hc_sum p clients) /\
    g =v= wmean_batch (length p) (deltas gd_init avg_step t_params p (map rekey clients)).
Proof.
  intros ND. assert (ND' : NoDup (map c_id (map rekey clients))) by (rewrite rekey_ids; exact ND).
  unfold C12_Model.fedavg, fedavg_apply. cbn [fst snd]. rewrite apply_from_outputs_eq.
  do 2 eexists. split; [reflexivity|]. split.
  - unfold mean_of. cbv zeta. rewrite qfold_split. cbn [fst snd]. unfold train_for_each_client. rewrite !map_map. cbn [fst snd].
    assert (E1 : map (fun c : client => rscale (inject_Z (num_of (client_num_examples (map rekey clients)) (c_id (rekey c))))
                                     (run_client gd_init avg_step t_params p (rekey c))) clients
                 = map (fun c => rscale (inject_Z (c_n c)) (run_client gd_init avg_step t_params p (rekey c))) clients).
    { apply map_ext_in. intros c I. rewrite (num_of_client (map rekey clients) (rekey c) ND' (in_map rekey _ _ I)). reflexivity. }
    assert (E2 : map (fun c : client => inject_Z (num_of (client_num_examples (map rekey clients)) (c_id (rekey c)))) clients
                 = map inject_Z (map c_n clients)).
    { rewrite map_map. apply map_ext_in. intros c I.
      rewrite (num_of_client (map rekey clients) (rekey c) ND' (in_map rekey _ _ I)). reflexivity. }
    rewrite E1, E2. fold (hc_sum p clients).
    rewrite !rscale_vscale. apply vscale_proper; [|reflexivity]. apply inv_weight_proper.
    change 0 with (inject_Z 0). rewrite inject_Z_fold. reflexivity.
  - rewrite <- (wcl_deltas gd_init avg_step t_params p (map rekey clients) ND').
    apply mean_of_wmean; [reflexivity|]. unfold train_for_each_client. apply Forall_map. apply Forall_forall.
    intros c _. cbn [snd]. apply avg_run_client_length.
Qed.

(* C12_hypcluster_one_cluster_eq_fedavg *)
Lemma hypcluster_one_cluster_eq_fedavg p p' os os' (clients : list client) :
  NoDup (map c_id clients) -> p =v= p' -> os_eq os os' ->
  ((0 < total_examples clients)%Z \/
   (forall g s q, g =v= vzero (length q) -> snd (sopt g s q) =v= q /\ os_eq (fst (sopt g s q)) s)) ->
  (forall a, os_eq a a) -> (forall a b, os_eq a b -> os_eq b a) -> (forall a b c, os_eq a b -> os_eq b c -> os_eq a c) ->
  exists q s q' s' dg,
    hypcluster1 [(p, os)] clients = Some [(q, s)] /\ fedavg (p', os') (map rekey clients) = Some (q', s', dg) /\
    q =v= q' /\ os_eq s s'.
Proof.
  intros ND Ep Eo Hc Rf Sy Tr.
  assert (ND' : NoDup (map c_id (map rekey clients))) by (rewrite rekey_ids; exact ND).
  (* FedAvg from (p', os') is == FedAvg from (p, os) *)
  destruct (apply_equiv gd_init avg_step t_params gd_init avg_step t_params sopt os_eq sopt_proper
              p p' os os' (map rekey clients) ND' Ep Eo
              (fun c _ => avg_run_client_length p c) (fun c _ => avg_run_client_length p' c)
              (fun c _ => avg_run_client_proper p p' c Ep))
    as [q0 [s0 [dg0 [q' [s' [dg' [H0 [H' [Eq [Es _]]]]]]]]]].
  destruct (fedavg_rekey_mean p os clients ND) as [g [dg [Hg [Eg1 Eg2]]]].
  unfold C12_Model.fedavg in *. rewrite Hg in H0. injection H0 as <- <- <-.
  rewrite hc_single by exact ND.
  destruct (Z.ltb_spec 0 (total_examples clients)) as [Hpos|Hnp].
  - cbv zeta. do 5 eexists. split; [reflexivity|]. split; [exact H'|].
    destruct (sopt_proper _ _ os os p p ltac:(symmetry; exact Eg1) (Rf os) ltac:(reflexivity)) as [A1 A2].
    split; [etransitivity; [exact A2|exact Eq]|eapply Tr; [exact A1|exact Es]].
  - destruct Hc as [Hc|Hz]; [lia|].
    assert (Z0 : g =v= vzero (length p)).
    { rewrite Eg2. apply wmean_zero_total.
      - apply deltas_wf. apply Forall_forall. intros c _. apply avg_run_client_length.
      - unfold wtot, deltas. rewrite !map_map. cbn [fst].
        assert (E : qsum (map (fun c : client => inject_Z (c_n c)) clients) == inject_Z (total_examples clients)).
        { unfold total_examples. rewrite <- inject_Z_fold. change (inject_Z 0) with 0.
          rewrite fold_left_Qplus, map_map. ring. }
        rewrite E. change 0 with (inject_Z 0). rewrite <- Zle_Qle. exact Hnp. }
    destruct (Hz g os p Z0) as [B1 B2].
    do 5 eexists. split; [reflexivity|]. split; [exact H'|].
    split; [etransitivity; [symmetry; exact B1|exact Eq]|eapply Tr; [apply Sy; exact B2|exact Es]].
Qed.

Lemma hypcluster_runs_eq_fedavg (cohorts : list (list client)) : forall p p' os os',
  Forall (fun cl => NoDup (map c_id cl)) cohorts -> p =v= p' -> os_eq os os' ->
  (Forall (fun cl => (0 < total_examples cl)%Z) cohorts \/
   (forall g s q, g =v= vzero (length q) -> snd (sopt g s q) =v= q /\ os_eq (fst (sopt g s q)) s)) ->
  (forall a, os_eq a a) -> (forall a b, os_eq a b -> os_eq b a) -> (forall a b c, os_eq a b -> os_eq b c -> os_eq a c) ->
  exists q s q' s' dgs,
    iter_rounds hypcluster1 [(p, os)] cohorts = Some [(q, s)] /\
    fedavg_runs grad split copt_init copt_apply sopt (p', os') (map (map rekey) cohorts) = Some (q', s', dgs) /\
    q =v= q' /\ os_eq s s'.
Proof.
  induction cohorts as [|cl cohorts IH]; intros p p' os os' ND Ep Eo Hc Rf Sy Tr.
  - cbn. do 5 eexists. repeat split; eassumption.
  - inversion ND as [|? ? NDc ND']; subst.
    assert (Hc1 : (0 < total_examples cl)%Z \/
                  (forall g s q, g =v= vzero (length q) -> snd (sopt g s q) =v= q /\ os_eq (fst (sopt g s q)) s)).
    { destruct Hc as [Hc|Hc]; [left; inversion Hc; assumption|right; exact Hc]. }
    assert (Hc2 : Forall (fun cl => (0 < total_examples cl)%Z) cohorts \/
                  (forall g s q, g =v= vzero (length q) -> snd (sopt g s q) =v= q /\ os_eq (fst (sopt g s q)) s)).
    { destruct Hc as [Hc|Hc]; [left; inversion Hc; assumption|right; exact Hc]. }
    destruct (hypcluster_one_cluster_eq_fedavg p p' os os' cl NDc Ep Eo Hc1 Rf Sy Tr) as [q [s [q' [s' [dg [H1 [H2 [Eq Es]]]]]]]].
    destruct (IH q q' s s' ND' Eq Es Hc2 Rf Sy Tr) as [r [t [r' [t' [dgs [G1 [G2 [Er Et]]]]]]]].
    cbn [iter_rounds map]. rewrite H1. unfold fedavg_runs in *. cbn [fedavg_run].
    unfold C12_Model.fedavg in H2. rewrite H2, G1, G2. do 5 eexists. repeat split; eassumption.
Qed.

(* ---------------- MimeLite / Mime ---------------- *)
Notation mclient := (@mclient K B).

(* the full-gradient pass on finite data *)
Definition qgrads_step (p : list Q) (st : K * list Q * Q) (bn : B * Z) : K * list Q * Q :=
  (fst (split (fst (fst st))),
   vadd (rscale (inject_Z (snd bn)) (grad p (fst bn) (snd (split (fst (fst st)))))) (snd (fst st)),
   snd st + inject_Z (snd bn)).
Definition qclient_grads (p : list Q) (mc : mclient) : list Q * Q :=
  let r := fold_left (qgrads_step p) (snd mc) (c_key (fst mc), vzero (length p), 0) in (snd (fst r), snd r).
(* sum over the cohort and the guarded division: the `server_grads` / control variate *)
Definition sg_q (p : list Q) (clients : list mclient) : list Q :=
  match map (qclient_grads p) clients with
  | [] => vzero (length p)
  | first :: rest =>
      rscale (inv_weight (fold_left Qplus (map snd rest) (snd first))) (fold_left vadd (map fst rest) (fst first))
  end.

Lemma grads_fold_lift p bns : forall k a s,
  fold_left (grads_step grad split p) bns (k, vlift a, Some s) =
  (fst (fst (fold_left (qgrads_step p) bns (k, a, s))), vlift (snd (fst (fold_left (qgrads_step p) bns (k, a, s)))),
   Some (snd (fold_left (qgrads_step p) bns (k, a, s)))).
Proof.
  induction bns as [|[b n] bns IH]; intros k a s; [reflexivity|].
  cbn [fold_left]. unfold grads_step at 2. unfold qgrads_step at 2 4 6. cbn [fst snd].
  destruct (split k) as [k' u]. cbn [fst snd]. unfold NanQ.of_Z.
  rewrite tree_weight_lift, tree_add_lift. cbn [NanQ.add NanQ.lift2]. apply IH.
Qed.

Lemma client_grads_lift p (mc : mclient) :
  client_grads grad split p mc = (vlift (fst (qclient_grads p mc)), Some (snd (qclient_grads p mc))).
Proof.
  unfold client_grads, qclient_grads. rewrite tree_zeros_like_lift. change (NanQ.of_Q 0) with (Some 0).
  rewrite grads_fold_lift. reflexivity.
Qed.

Lemma server_grads_lift p (clients : list mclient) :
  server_grads grad split p clients = vlift (sg_q p clients).
Proof.
  unfold server_grads, sg_q. destruct clients as [|mc rest]; [apply tree_zeros_like_lift|].
  cbn [map]. rewrite client_grads_lift.
  assert (G : forall a s, fold_left (fun acc x : list NanQ.t * NanQ.t => (tree_add (fst acc) (fst x), NanQ.add (snd acc) (snd x)))
                            (map (client_grads grad split p) rest) (vlift a, Some s)
                          = (vlift (fold_left vadd (map fst (map (qclient_grads p) rest)) a),
                             Some (fold_left Qplus (map snd (map (qclient_grads p) rest)) s))).
  { induction rest as [|x rest IH]; intros a s; [reflexivity|].
    cbn [map fold_left]. rewrite client_grads_lift. cbn [fst snd]. rewrite tree_add_lift. cbn [NanQ.add NanQ.lift2]. apply IH. }
  rewrite G. rewrite gen_inverse_weight_spec. reflexivity.
Qed.

Definition ml_outputs (step : mstate (S := S) (K := K) -> B -> mstate (S := S) (K := K)) (p : list Q) (s : S) (cv : list Q)
  (clients : list mclient) : list (Z * list Q) :=
  map (fun mc => (c_id (fst mc), vsub p (m_params (fold_left step (c_batches (fst mc)) (mkM p s (c_key (fst mc)) p cv))))) clients.

Lemma mime_round_eq step use_cv slr p s (clients : list mclient) :
  mime_round grad split copt_apply step use_cv slr (p, s) clients =
  Some (map2 (fun a q => a - slr * q) p
          (mean_of p (client_num_examples (map fst clients))
                   (ml_outputs step p s (if use_cv then sg_q p clients else []) clients)),
        fst (copt_apply (sg_q p clients) s p)).
Proof.
  unfold mime_round. rewrite (server_grads_lift p clients), unlift_vlift.
  fold (ml_outputs step p s (if use_cv then sg_q p clients else []) clients).
  rewrite tree_zeros_like_lift. change (NanQ.of_Q 0) with (Some 0). rewrite apply_fold_lift.
  rewrite gen_inverse_weight_spec, unlift_vlift.
  fold (mean_of p (client_num_examples (map fst clients)) (ml_outputs step p s (if use_cv then sg_q p clients else []) clients)).
  destruct (copt_apply (sg_q p clients) s p). reflexivity.
Qed.

(* weighted mean of clients that all hold the same vector (zero-weight clients may hold anything) *)
Lemma wmean_const d cl v : wf_clients d cl -> length v = d ->
  Forall (fun c => fst c == 0 \/ snd c =v= v) cl -> 0 < wtot cl -> wmean_batch d cl =v= v.
Proof.
  intros Hwf Lv H Hpos. apply veq_nth_iff. rewrite (wmean_batch_length d cl Hwf). split; [congruence|].
  intros i Hi. rewrite (proj2 (wmean_def d cl Hwf Hpos) i Hi).
  assert (E : wcoord i cl == vnth i v * wtot cl).
  { unfold wcoord, wtot. clear Hwf Hpos. induction H as [|c cl Hc _ IH]; cbn; [ring|]. rewrite IH.
    destruct Hc as [Hc|Hc]; [rewrite Hc; ring|]. rewrite (vnth_proper i _ _ Hc). ring. }
  rewrite E. field. lra.
Qed.

(* the control variate has the length of the parameters *)
Lemma qgrads_fold_length p bns : forall k a s, length a = length p ->
  length (snd (fst (fold_left (qgrads_step p) bns (k, a, s)))) = length p.
Proof.
  induction bns as [|[b n] bns IH]; intros k a s L; cbn [fold_left]; [exact L|].
  unfold qgrads_step at 2. cbn [fst snd]. apply IH. apply vadd_length; [|exact L]. rewrite rscale_length. apply grad_length.
Qed.

Lemma qclient_grads_length p (mc : mclient) : length (fst (qclient_grads p mc)) = length p.
Proof. unfold qclient_grads. cbn [fst]. apply qgrads_fold_length. apply vzero_length. Qed.

Lemma sg_q_length p (clients : list mclient) : length (sg_q p clients) = length p.
Proof.
  unfold sg_q. destruct clients as [|mc rest]; cbn [map]; [apply vzero_length|]. rewrite rscale_length.
  assert (G : forall a, length a = length p -> length (fold_left vadd (map fst (map (qclient_grads p) rest)) a) = length p).
  { induction rest as [|x rest IH]; intros a L; cbn [map fold_left]; [exact L|].
    apply IH. apply vadd_length; [exact L|apply qclient_grads_length]. }
  apply G. apply qclient_grads_length.
Qed.

Section PlainSGD.
(* the base / client optimizer is plain SGD with learning rate eta (it may carry any state) *)
Variable eta : Q.
Hypothesis copt_is_sgd : forall g s p, length g = length p -> snd (copt_apply g s p) =v= vadd p (vscale (- eta) g).

Notation mimelite_step := (mimelite_step grad split copt_apply).
Notation mime_step := (mime_step grad split copt_apply).

(* MimeLite's local training (fixed optimizer state) follows FedAvg's *)
Lemma ml_fold_vs_avg d bs : forall (m : mstate (S := S) (K := K)) (t : tstate (S := S) (K := K)),
  length (m_params m) = d -> m_params m =v= t_params t -> m_rng m = t_rng t ->
  m_params (fold_left mimelite_step bs m) =v= t_params (fold_left avg_step bs t) /\
  length (m_params (fold_left mimelite_step bs m)) = d.
Proof.
  induction bs as [|b bs IH]; intros m t L E R; cbn [fold_left]; [split; assumption|].
  apply IH; unfold C12_Model.mimelite_step, C12_Model.avg_step, C12_Model.gd_step; try rewrite <- R;
    destruct (split (m_rng m)) as [rng u];
    pose proof (copt_is_sgd (grad (m_params m) b u) (m_opt m) (m_params m) (grad_length _ _ _)) as E1;
    pose proof (copt_is_sgd (grad (t_params t) b u) (t_opt t) (t_params t) (grad_length _ _ _)) as E2;
    pose proof (copt_apply_length (grad (m_params m) b u) (m_opt m) (m_params m) (grad_length _ _ _)) as L1;
    destruct (copt_apply (grad (m_params m) b u) (m_opt m) (m_params m));
    destruct (copt_apply (grad (t_params t) b u) (t_opt t) (t_params t)); cbn [fst snd m_params t_params m_rng t_rng] in *.
  - congruence.
  - rewrite E1, E2. apply vadd_proper; [exact E|]. apply vscale_proper; [reflexivity|]. apply grad_proper. exact E.
  - reflexivity.
Qed.

Lemma ml_delta_vs_avg p p' s cv (mc : mclient) : p =v= p' ->
  vsub p (m_params (fold_left mimelite_step (c_batches (fst mc)) (mkM p s (c_key (fst mc)) p cv))) =v=
  run_client gd_init avg_step t_params p' (fst mc) /\
  length (vsub p (m_params (fold_left mimelite_step (c_batches (fst mc)) (mkM p s (c_key (fst mc)) p cv)))) = length p.
Proof.
  intros E. unfold run_client, client_final.
  destruct (ml_fold_vs_avg (length p) (c_batches (fst mc)) (mkM p s (c_key (fst mc)) p cv) (gd_init p' (c_key (fst mc)))
              eq_refl E eq_refl) as [E1 L1].
  split; [apply vsub_proper; assumption|apply vsub_length; [reflexivity|exact L1]].
Qed.

Lemma sub1_vsub slr (a q : list Q) : map2 (fun x y => x - slr * y) a q =v= vsub a (vscale slr q).
Proof. revert q; induction a as [|x a IH]; intros [|y q]; cbn; constructor; [reflexivity|apply IH]. Qed.

(* C12_mimelite_sgd_lr1_eq_fedavg *)
Lemma mimelite_sgd_lr1_eq_fedavg p p' s os (clients : list mclient) :
  (forall g o q, length g = length q -> snd (sopt g o q) =v= vsub q g) ->
  NoDup (map c_id (map fst clients)) -> p =v= p' ->
  exists q s1 q' os1 dg,
    mimelite grad split copt_apply 1 (p, s) clients = Some (q, s1) /\
    fedavg (p', os) (map fst clients) = Some (q', os1, dg) /\ q =v= q'.
Proof.
  intros Hsrv ND Ep. unfold C12_Model.mimelite. rewrite mime_round_eq.
  assert (W : wf_round gd_init avg_step t_params (length p') p' (map fst clients)).
  { split; [exact ND|split; [reflexivity|]]. apply Forall_forall. intros c _. apply avg_run_client_length. }
  destruct (round_is_weighted_mean gd_init avg_step t_params sopt _ p' os (map fst clients) W) as [g [Eg Hg]].
  unfold C12_Model.fedavg. rewrite Hg. do 5 eexists. split; [reflexivity|]. split; [reflexivity|].
  set (outs := ml_outputs mimelite_step p s [] clients).
  assert (Lo : Forall (fun o => length (snd o) = length p) outs).
  { unfold outs, ml_outputs. apply Forall_map. apply Forall_forall. intros mc _. cbn [snd].
    apply (ml_delta_vs_avg p p s [] mc). reflexivity. }
  pose proof (mean_of_wmean (length p) p (client_num_examples (map fst clients)) outs eq_refl Lo) as Em.
  assert (Lg : length g = length p').
  { rewrite (veq_length _ _ Eg). apply wmean_batch_length. apply deltas_wf. apply Forall_forall. intros c _. apply avg_run_client_length. }
  rewrite (Hsrv g os p' Lg), sub1_vsub. apply vsub_proper; [exact Ep|]. rewrite vscale_1, Em, Eg.
  rewrite <- (veq_length _ _ Ep).
  apply wmean_batch_Forall2.
  - unfold wf_clients, wcl. apply Forall_map. exact Lo.
  - unfold wcl, outs, ml_outputs, deltas. rewrite !map_map. cbn [fst snd].
    assert (G : forall l : list mclient, (forall mc, In mc l -> In mc clients) ->
      Forall2 (fun c c' : Q * list Q => fst c == fst c' /\ snd c =v= snd c')
        (map (fun x : mclient => (inject_Z (num_of (client_num_examples (map fst clients)) (c_id (fst x))),
           vsub p (m_params (fold_left mimelite_step (c_batches (fst x)) (mkM p s (c_key (fst x)) p []))))) l)
        (map (fun x : mclient => (inject_Z (c_n (fst x)), run_client gd_init avg_step t_params p' (fst x))) l)).
    { induction l as [|mc l IH]; intros Hin; cbn [map]; constructor.
      - cbn [fst snd]. split.
        + rewrite (num_of_client (map fst clients) (fst mc) ND (in_map fst _ _ (Hin mc (or_introl eq_refl)))). reflexivity.
        + apply (ml_delta_vs_avg p p' s [] mc Ep).
      - apply IH. intros x I. apply Hin. right; exact I. }
    apply G. auto.
Qed.

(* Mime, one local step *)
Lemma one_step_delta (p g c : list Q) : length g = length p -> length c = length p ->
  vsub p (vadd p (vscale (- eta) (vadd (vsub g g) c))) =v= vscale eta c.
Proof.
  revert g c; induction p as [|x p IH]; intros [|y g] [|z c] Lg Lc; cbn in *; try discriminate; constructor; [ring|].
  apply IH; lia.
Qed.

Definition one_step_client (mc : mclient) : Prop :=
  (c_n (fst mc) = 0%Z /\ c_batches (fst mc) = []) \/ ((0 < c_n (fst mc))%Z /\ exists b, c_batches (fst mc) = [b]).

(* C12_mime_sgd_one_step_is_fullbatch_step *)
Lemma mime_sgd_one_step slr p s (clients : list mclient) :
  NoDup (map c_id (map fst clients)) -> Forall one_step_client clients ->
  (0 < total_examples (map fst clients))%Z -> length (sg_q p clients) = length p ->
  exists q s1, mime grad split copt_apply slr (p, s) clients = Some (q, s1) /\
    q =v= vadd p (vscale (- (slr * eta)) (sg_q p clients)).
Proof.
  intros ND H1 Hpos Lc. unfold C12_Model.mime. rewrite mime_round_eq.
  do 2 eexists. split; [reflexivity|].
  set (cv := sg_q p clients) in *. set (outs := ml_outputs mime_step p s cv clients).
  assert (D : forall mc, In mc clients ->
            let dl := vsub p (m_params (fold_left mime_step (c_batches (fst mc)) (mkM p s (c_key (fst mc)) p cv))) in
            length dl = length p /\ (inject_Z (c_n (fst mc)) == 0 \/ dl =v= vscale eta cv)).
  { intros mc I. rewrite Forall_forall in H1. destruct (H1 mc I) as [[Hn Hb]|[Hn [b Hb]]]; rewrite Hb; cbn [fold_left m_params].
    - split; [apply vsub_length; reflexivity|left; rewrite Hn; reflexivity].
    - unfold C12_Model.mime_step. cbn [m_rng m_params m_init m_opt m_cv]. destruct (split (c_key (fst mc))) as [rng u].
      set (g := grad p b u).
      assert (La : length (vadd (vsub g g) cv) = length p).
      { apply vadd_length; [apply vsub_length; apply grad_length|exact Lc]. }
      pose proof (copt_is_sgd (vadd (vsub g g) cv) s p La) as E1.
      pose proof (copt_apply_length (vadd (vsub g g) cv) s p La) as L1.
      destruct (copt_apply (vadd (vsub g g) cv) s p). cbn [snd m_params] in *.
      split; [apply vsub_length; [reflexivity|exact L1]|right].
      rewrite E1. apply one_step_delta; [apply grad_length|exact Lc]. }
  assert (Lo : Forall (fun o => length (snd o) = length p) outs).
  { unfold outs, ml_outputs. apply Forall_map. apply Forall_forall. intros mc I. cbn [snd]. apply (D mc I). }
  rewrite sub1_vsub.
  rewrite (mean_of_wmean (length p) p (client_num_examples (map fst clients)) outs eq_refl Lo).
  assert (Wc : wf_clients (length p) (wcl (client_num_examples (map fst clients)) outs))
    by (unfold wf_clients, wcl; apply Forall_map; exact Lo).
  assert (Wn : map fst (wcl (client_num_examples (map fst clients)) outs) = map (fun mc : mclient => inject_Z (c_n (fst mc))) clients).
  { unfold wcl, outs, ml_outputs. rewrite !map_map. cbn [fst]. apply map_ext_in. intros mc I.
    rewrite (num_of_client (map fst clients) (fst mc) ND (in_map fst _ _ I)). reflexivity. }
  rewrite (wmean_const (length p) _ (vscale eta cv) Wc).
  - rewrite vscale_vscale.
    clear - Lc. revert Lc. generalize cv. induction p as [|x p IH]; intros [|z c] Lc; cbn in *; try discriminate; constructor; [ring|].
    apply IH. lia.
  - rewrite vscale_length. exact Lc.
  - unfold wcl, outs, ml_outputs. rewrite map_map. apply Forall_forall. intros c I. apply in_map_iff in I.
    destruct I as [mc [<- I]]. cbn [fst snd].
    rewrite (num_of_client (map fst clients) (fst mc) ND (in_map fst _ _ I)). apply (D mc I).
  - unfold wtot. rewrite Wn.
    assert (E : qsum (map (fun mc : mclient => inject_Z (c_n (fst mc))) clients) == inject_Z (total_examples (map fst clients))).
    { unfold total_examples. rewrite <- inject_Z_fold. change (inject_Z 0) with 0. rewrite fold_left_Qplus, !map_map.
      rewrite Qplus_0_l. reflexivity. }
    rewrite E. change 0 with (inject_Z 0). rewrite <- Zlt_Qlt. exact Hpos.
Qed.

(* a Mime / MimeLite round in which no client has a training batch and no example exists leaves the
   parameters unchanged (the guard `0 < total_examples` of the full-batch theorem excludes exactly this round) *)
Lemma mime_empty_round_keeps_params step use_cv slr p s (clients : list mclient) :
  NoDup (map c_id (map fst clients)) -> Forall (fun mc : mclient => c_batches (fst mc) = []) clients ->
  (total_examples (map fst clients) <= 0)%Z ->
  exists q s1, mime_round grad split copt_apply step use_cv slr (p, s) clients = Some (q, s1) /\ q =v= p.
Proof.
  intros ND Hb Ht. rewrite mime_round_eq. do 2 eexists. split; [reflexivity|].
  set (cv := if use_cv then sg_q p clients else []).
  set (outs := ml_outputs step p s cv clients).
  assert (Lo : Forall (fun o => length (snd o) = length p) outs).
  { unfold outs, ml_outputs. apply Forall_map. rewrite Forall_forall in *. intros mc I. cbn [snd]. rewrite (Hb mc I).
    cbn [fold_left m_params]. apply vsub_length; reflexivity. }
  rewrite sub1_vsub, (mean_of_wmean (length p) p (client_num_examples (map fst clients)) outs eq_refl Lo).
  assert (Wc : wf_clients (length p) (wcl (client_num_examples (map fst clients)) outs))
    by (unfold wf_clients, wcl; apply Forall_map; exact Lo).
  rewrite (wmean_zero_total (length p) _ Wc).
  - rewrite vscale_vzero. clear. induction p as [|x p IH]; cbn; constructor; [ring|exact IH].
  - unfold wtot, wcl, outs, ml_outputs. rewrite !map_map. cbn [fst].
    assert (E : qsum (map (fun mc : mclient => inject_Z (num_of (client_num_examples (map fst clients)) (c_id (fst mc)))) clients)
                == inject_Z (total_examples (map fst clients))).
    { assert (E1 : map (fun mc : mclient => inject_Z (num_of (client_num_examples (map fst clients)) (c_id (fst mc)))) clients
                   = map inject_Z (map c_n (map fst clients))).
      { rewrite !map_map. apply map_ext_in. intros mc I.
        rewrite (num_of_client (map fst clients) (fst mc) ND (in_map fst _ _ I)). reflexivity. }
      rewrite E1. unfold total_examples. rewrite <- inject_Z_fold. change (inject_Z 0) with 0.
      rewrite fold_left_Qplus, Qplus_0_l. reflexivity. }
    rewrite E. change 0 with (inject_Z 0). rewrite <- Zle_Qle. exact Ht.
Qed.

(* multi-round: MimeLite(SGD eta, server lr 1) follows FedAvg(SGD eta clients, SGD(1) server) *)
Lemma mimelite_runs_eq_fedavg (cohorts : list (list mclient)) : forall p p' s os,
  (forall g o q, length g = length q -> snd (sopt g o q) =v= vsub q g) ->
  Forall (fun cl => NoDup (map c_id (map fst cl))) cohorts -> p =v= p' ->
  exists q s1 q' os1 dgs,
    iter_rounds (mimelite grad split copt_apply 1) (p, s) cohorts = Some (q, s1) /\
    fedavg_runs grad split copt_init copt_apply sopt (p', os) (map (map fst) cohorts) = Some (q', os1, dgs) /\ q =v= q'.
Proof.
  induction cohorts as [|cl cohorts IH]; intros p p' s os Hsrv ND Ep.
  - cbn. do 5 eexists. repeat split; eassumption.
  - inversion ND as [|? ? NDc ND']; subst.
    destruct (mimelite_sgd_lr1_eq_fedavg p p' s os cl Hsrv NDc Ep) as [q [s1 [q' [os1 [dg [H1 [H2 Eq]]]]]]].
    destruct (IH q q' s1 os1 Hsrv ND' Eq) as [r [t [r' [t' [dgs [G1 [G2 Er]]]]]]].
    cbn [iter_rounds map]. rewrite H1. unfold fedavg_runs in *. cbn [fedavg_run].
    unfold C12_Model.fedavg in H2. rewrite H2, G1, G2. do 5 eexists. repeat split; eassumption.
Qed.

(* multi-round: every round of Mime(SGD eta, one local step) is one full-batch step *)
Inductive fullbatch_chain (slr : Q) : list Q -> list (list mclient) -> list Q -> Prop :=
| fb_nil p : fullbatch_chain slr p [] p
| fb_cons p cl rest q r : q =v= vadd p (vscale (- (slr * eta)) (sg_q p cl)) ->
    fullbatch_chain slr q rest r -> fullbatch_chain slr p (cl :: rest) r.

Lemma mime_runs_fullbatch slr (cohorts : list (list mclient)) : forall p s,
  Forall (fun cl => NoDup (map c_id (map fst cl)) /\ Forall one_step_client cl /\ (0 < total_examples (map fst cl))%Z) cohorts ->
  exists q s1, iter_rounds (mime grad split copt_apply slr) (p, s) cohorts = Some (q, s1) /\ fullbatch_chain slr p cohorts q.
Proof.
  induction cohorts as [|cl cohorts IH]; intros p s H.
  - cbn. do 2 eexists. split; [reflexivity|constructor].
  - inversion H as [|? ? [ND [H1 Hpos]] H']; subst.
    destruct (mime_sgd_one_step slr p s cl ND H1 Hpos (sg_q_length p cl)) as [q [s1 [Hq Eq]]].
    destruct (IH q s1 H') as [r [t [G1 G2]]].
    cbn [iter_rounds]. rewrite Hq, G1. do 2 eexists. split; [reflexivity|]. econstructor; eassumption.
Qed.

End PlainSGD.

End Reductions.

(* ------------------------------------------------------------------ *)
(* The evaluated instance LS12 satisfies the hypotheses of the reductions *)

Lemma ls_grad_reg_length reg p b u : length (ls_grad_reg reg p b u) = length p.
Proof.
  unfold ls_grad_reg. rewrite vred_length. apply vadd_length; [apply batch_grad_length|apply vscale_length].
Qed.
Lemma ls_grad_reg_proper reg p p' b u : p =v= p' -> ls_grad_reg reg p b u =v= ls_grad_reg reg p' b u.
Proof.
  intros E. unfold ls_grad_reg. rewrite !vred_veq. apply vadd_proper; [apply batch_grad_proper; exact E|].
  apply vscale_proper; [reflexivity|exact E].
Qed.

Lemma ls_copt_init_proper p p' : p =v= p' -> ls_copt_init p =v= ls_copt_init p'.
Proof. intros E. unfold ls_copt_init. rewrite (veq_length _ _ E). reflexivity. Qed.

Lemma ls_apply_proper o g g' s s' p p' : g =v= g' -> s =v= s' -> p =v= p' ->
  fst (sgd_apply o g s p) =v= fst (sgd_apply o g' s' p') /\ snd (sgd_apply o g s p) =v= snd (sgd_apply o g' s' p').
Proof. apply sgd_apply_proper. Qed.

Lemma ls_apply_length o g s p : length g = length p -> length (snd (sgd_apply o g s p)) = length p.
Proof. intros L. apply (sgd_apply_length o g s p L). Qed.

(* optax.sgd without momentum: params - lr * grads, whatever the state *)
Lemma sgd_apply_plain o g t p : o_mom o == 0 -> length g = length p ->
  snd (sgd_apply o g t p) =v= vadd p (vscale (- o_lr o) g).
Proof.
  intros Hm L. unfold sgd_apply. cbn [snd]. rewrite vred_veq.
  assert (Zs : forall x, length x = length g -> vadd g (vscale (o_mom o) x) =v= g).
  { intros x Lx. rewrite Hm, vscale_0, Lx. apply vadd_zero_r. }
  apply vadd_proper; [reflexivity|]. apply vscale_proper; [reflexivity|].
  destruct (o_nesterov o).
  - apply Zs. apply vadd_length; [reflexivity|]. rewrite vscale_length. apply fit_length.
  - apply Zs. apply fit_length.
Qed.

Lemma sgd1_is_vsub g t p : length g = length p -> snd (sgd_apply (mkSgd 1 0 false) g t p) =v= vsub p g.
Proof.
  intros L. rewrite sgd_apply_plain by (try reflexivity; exact L). cbn [o_lr].
  revert g L; induction p as [|x p IH]; intros [|y g] L; cbn in *; try discriminate; constructor; [ring|]. apply IH. lia.
Qed.

(* with a plain-SGD server the optimizer state is irrelevant: any two states are related *)
Definition any_state (a b : list Q) : Prop := True.
Lemma ls_sopt_plain_proper so : o_mom so == 0 -> forall g g' s s' p p', g =v= g' -> any_state s s' -> p =v= p' ->
  any_state (fst (ls_sopt so g s p)) (fst (ls_sopt so g' s' p')) /\ snd (ls_sopt so g s p) =v= snd (ls_sopt so g' s' p').
Proof.
  intros Hm g g' s s' p p' Eg _ Ep. split; [exact I|]. unfold ls_sopt.
  destruct (Nat.eq_dec (length g) (length p)) as [L|N].
  - rewrite (sgd_apply_plain so g s p Hm L).
    rewrite (sgd_apply_plain so g' s' p' Hm ltac:(rewrite <- (veq_length _ _ Eg), <- (veq_length _ _ Ep); exact L)).
    apply vadd_proper; [exact Ep|]. apply vscale_proper; [reflexivity|exact Eg].
  - (* lengths differ: both sides are computed by the same truncating operations *)
    unfold sgd_apply. cbn [snd]. rewrite !vred_veq.
    assert (Z : forall x x', length x = length g -> length x' = length g' -> vadd g (vscale (o_mom so) x) =v= vadd g' (vscale (o_mom so) x')).
    { intros x x' Lx Lx'. rewrite Hm, !vscale_0, Lx, Lx', !vadd_zero_r. exact Eg. }
    apply vadd_proper; [exact Ep|]. apply vscale_proper; [reflexivity|].
    destruct (o_nesterov so).
    + apply Z; (apply vadd_length; [reflexivity|rewrite vscale_length; apply fit_length]).
    + apply Z; apply fit_length.
Qed.

Lemma ls_sopt_plain_zero so : o_mom so == 0 -> forall g s q, g =v= vzero (length q) ->
  snd (ls_sopt so g s q) =v= q /\ any_state (fst (ls_sopt so g s q)) s.
Proof.
  intros Hm g s q Z. split; [|exact I]. unfold ls_sopt.
  assert (L : length g = length q) by (rewrite (veq_length _ _ Z); apply vzero_length).
  rewrite (sgd_apply_plain so g s q Hm L), Z, vscale_vzero. apply vadd_zero_r.
Qed.

Notation lsclient := (client (K := key) (B := list example)).

(* FedProx with mu == 0 *)
Lemma ls_fedprox_mu0_runs reg co so mu (cohorts : list (list lsclient)) p os : mu == 0 ->
  Forall (fun cl => NoDup (map c_id cl)) cohorts ->
  exists q s dgs q' s' dgs',
    fedprox_runs (ls_grad_reg reg) split_key ls_copt_init (ls_copt_apply co) (ls_sopt so) mu (p, os) cohorts = Some (q, s, dgs) /\
    fedavg_runs (ls_grad_reg reg) split_key ls_copt_init (ls_copt_apply co) (ls_sopt so) (p, os) cohorts = Some (q', s', dgs') /\
    q =v= q' /\ s =v= s' /\ Forall2 (fun dg dg' => map fst dg = map fst dg') dgs dgs'.
Proof.
  intros Hm ND.
  eapply (fedprox_mu0_runs_eq_fedavg (ls_grad_reg reg) split_key ls_copt_init (ls_copt_apply co) (ls_sopt so) veq veq);
    try eassumption; try reflexivity.
  - apply ls_copt_init_proper.
  - intros. apply ls_apply_proper; assumption.
  - intros. apply ls_apply_length; assumption.
  - intros. apply ls_grad_reg_proper; assumption.
  - intros. apply ls_grad_reg_length.
  - intros. apply ls_apply_proper; assumption.
Qed.

(* HypCluster, one cluster: some example in every round, any SGD-family server optimizer *)
Lemma ls_hypcluster_runs reg co so (cohorts : list (list lsclient)) p os :
  Forall (fun cl => NoDup (map c_id cl)) cohorts -> Forall (fun cl => (0 < total_examples cl)%Z) cohorts ->
  exists q s q' s' dgs,
    iter_rounds (hypcluster (ls_grad_reg reg) split_key ls_split_pair ls_copt_init (ls_copt_apply co) (ls_sopt so) (fun _ => O)) [(p, os)] cohorts
      = Some [(q, s)] /\
    fedavg_runs (ls_grad_reg reg) split_key ls_copt_init (ls_copt_apply co) (ls_sopt so) (p, os) (map (map (rekey ls_split_pair)) cohorts)
      = Some (q', s', dgs) /\ q =v= q' /\ s =v= s'.
Proof.
  intros ND Hpos.
  eapply (hypcluster_runs_eq_fedavg (ls_grad_reg reg) split_key ls_split_pair ls_copt_init (ls_copt_apply co) (ls_sopt so) veq veq);
    try eassumption; try reflexivity.
  - apply ls_copt_init_proper.
  - intros. apply ls_apply_proper; assumption.
  - intros. apply ls_apply_length; assumption.
  - intros. apply ls_grad_reg_proper; assumption.
  - intros. apply ls_grad_reg_length.
  - intros. apply ls_apply_proper; assumption.
  - left. exact Hpos.
  - intros a b H. symmetry. exact H.
  - intros a b c H1 H2. etransitivity; eassumption.
Qed.

(* HypCluster, one cluster, plain-SGD server: every history, empty rounds included *)
Lemma ls_hypcluster_runs_plain reg co so (cohorts : list (list lsclient)) p os : o_mom so == 0 ->
  Forall (fun cl => NoDup (map c_id cl)) cohorts ->
  exists q s q' s' dgs,
    iter_rounds (hypcluster (ls_grad_reg reg) split_key ls_split_pair ls_copt_init (ls_copt_apply co) (ls_sopt so) (fun _ => O)) [(p, os)] cohorts
      = Some [(q, s)] /\
    fedavg_runs (ls_grad_reg reg) split_key ls_copt_init (ls_copt_apply co) (ls_sopt so) (p, os) (map (map (rekey ls_split_pair)) cohorts)
      = Some (q', s', dgs) /\ q =v= q'.
Proof.
  intros Hm ND.
  destruct (hypcluster_runs_eq_fedavg (ls_grad_reg reg) split_key ls_split_pair ls_copt_init (ls_copt_apply co) (ls_sopt so) veq any_state
              ls_copt_init_proper
              (fun g g' s s' p p' Eg Es Ep => ls_apply_proper co g g' s s' p p' Eg Es Ep)
              (fun g s p L => ls_apply_length co g s p L)
              (fun p p' b u E => ls_grad_reg_proper reg p p' b u E) (fun p b u => ls_grad_reg_length reg p b u)
              (ls_sopt_plain_proper so Hm) cohorts p p os os ND ltac:(reflexivity) I
              (or_intror (ls_sopt_plain_zero so Hm)) (fun _ => I) (fun _ _ _ => I) (fun _ _ _ _ _ => I))
    as [q [s [q' [s' [dgs [H1 [H2 [Eq _]]]]]]]].
  do 5 eexists. split; [exact H1|]. split; [exact H2|exact Eq].
Qed.

(* MimeLite with plain SGD and server learning rate 1 *)
Lemma ls_mimelite_runs reg co (cohorts : list (list (mclient (K := key) (B := list example)))) p s os : o_mom co == 0 ->
  Forall (fun cl => NoDup (map c_id (map fst cl))) cohorts ->
  exists q s1 q' os1 dgs,
    iter_rounds (mimelite (ls_grad_reg reg) split_key (ls_copt_apply co) 1) (p, s) cohorts = Some (q, s1) /\
    fedavg_runs (ls_grad_reg reg) split_key ls_copt_init (ls_copt_apply co) (ls_sopt (mkSgd 1 0 false)) (p, os) (map (map fst) cohorts)
      = Some (q', os1, dgs) /\ q =v= q'.
Proof.
  intros Hm ND.
  apply (mimelite_runs_eq_fedavg (ls_grad_reg reg) split_key ls_copt_init (ls_copt_apply co) (ls_sopt (mkSgd 1 0 false)) veq
           ls_copt_init_proper
           (fun g g' s s' p p' Eg Es Ep => ls_apply_proper co g g' s s' p p' Eg Es Ep)
           (fun g s p L => ls_apply_length co g s p L)
           (fun p p' b u E => ls_grad_reg_proper reg p p' b u E) (fun p b u => ls_grad_reg_length reg p b u)
           (o_lr co) (fun g s p L => sgd_apply_plain co g s p Hm L)
           cohorts p p s os (fun g o q L => sgd1_is_vsub g o q L) ND).
  reflexivity.
Qed.

(* Mime with plain SGD and one local step *)
Lemma ls_mime_runs reg co slr (cohorts : list (list (mclient (K := key) (B := list example)))) p s : o_mom co == 0 ->
  Forall (fun cl => NoDup (map c_id (map fst cl)) /\ Forall one_step_client cl /\ (0 < total_examples (map fst cl))%Z) cohorts ->
  exists q s1, iter_rounds (mime (ls_grad_reg reg) split_key (ls_copt_apply co) slr) (p, s) cohorts = Some (q, s1) /\
    fullbatch_chain (ls_grad_reg reg) split_key (o_lr co) slr p cohorts q.
Proof.
  intros Hm H.
  apply (mime_runs_fullbatch (ls_grad_reg reg) split_key (ls_copt_apply co)
           (fun g s p L => ls_apply_length co g s p L) (fun p b u => ls_grad_reg_length reg p b u)
           (o_lr co) (fun g s p L => sgd_apply_plain co g s p Hm L) slr cohorts p s H).
Qed.

(* ------------------------------------------------------------------ *)
(* Mime's control variate / server_grads is the gradient over the whole cohort: the
   mean of the per-batch gradients weighted by their numbers of real examples *)
Section ControlVariate.
Context {K U B : Type}.
Variable grad : list Q -> B -> U -> list Q.
Variable split : K -> K * U.
Hypothesis grad_length : forall p b u, length (grad p b u) = length p.
Notation mclient := (@mclient K B).

(* (number of real rows, gradient of the batch) along the client's key chain *)
Fixpoint chain (p : list Q) (k : K) (bns : list (B * Z)) : list (Q * list Q) :=
  match bns with
  | [] => []
  | bn :: r => (inject_Z (snd bn), grad p (fst bn) (snd (split k))) :: chain p (fst (split k)) r
  end.
Definition cohort_batch_grads (p : list Q) (clients : list mclient) : list (Q * list Q) :=
  concat (map (fun mc => chain p (c_key (fst mc)) (snd mc)) clients).

Lemma chain_wf p bns : forall k, wf_clients (length p) (chain p k bns).
Proof. induction bns as [|bn r IH]; intros k; cbn; constructor; [apply grad_length|apply IH]. Qed.

Lemma wsum_cons d c cl : length (snd c) = d -> wf_clients d cl -> wsum d (c :: cl) =v= vadd (wp c) (wsum d cl).
Proof.
  intros Lc Hwf. unfold wsum. cbn [map]. apply vsum_cons; [rewrite wp_length; exact Lc|apply wf_map_wp; exact Hwf].
Qed.

Lemma wsum_app d l1 l2 : wf_clients d l1 -> wf_clients d l2 -> wsum d (l1 ++ l2) =v= vadd (wsum d l1) (wsum d l2).
Proof. intros H1 H2. unfold wsum. rewrite map_app. apply vsum_app; apply wf_map_wp; assumption. Qed.

Lemma wtot_app l1 l2 : wtot (l1 ++ l2) == wtot l1 + wtot l2.
Proof. unfold wtot. rewrite map_app. apply qsum_app. Qed.

Lemma qgrads_fold_spec p bns : forall k a s, length a = length p ->
  snd (fst (fold_left (qgrads_step grad split p) bns (k, a, s))) =v= vadd a (wsum (length p) (chain p k bns)) /\
  snd (fold_left (qgrads_step grad split p) bns (k, a, s)) == s + wtot (chain p k bns).
Proof.
  induction bns as [|[b n] r IH]; intros k a s L.
  - cbn [fold_left fst snd chain]. split; [|unfold wtot; cbn; ring].
    unfold wsum. cbn [map]. rewrite vsum_nil, <- L. symmetry. apply vadd_zero_r.
  - cbn [fold_left chain fst snd]. unfold qgrads_step at 2 4. cbn [fst snd].
    set (g := grad p b (snd (split k))).
    assert (Lg : length (rscale (inject_Z n) g) = length p) by (rewrite rscale_length; apply grad_length).
    destruct (IH (fst (split k)) (vadd (rscale (inject_Z n) g) a) (s + inject_Z n)
                 (vadd_length _ _ _ Lg L)) as [E1 E2].
    split.
    + rewrite E1. rewrite (wsum_cons (length p) (inject_Z n, g)) by (try apply grad_length; apply chain_wf).
      unfold wp. cbn [fst snd]. rewrite rscale_vscale.
      rewrite (vadd_comm (vscale (inject_Z n) g) a). apply vadd_assoc.
    + rewrite E2. unfold wtot. cbn [map fst qsum]. ring.
Qed.

Lemma qclient_grads_spec p (mc : mclient) :
  fst (qclient_grads grad split p mc) =v= wsum (length p) (chain p (c_key (fst mc)) (snd mc)) /\
  snd (qclient_grads grad split p mc) == wtot (chain p (c_key (fst mc)) (snd mc)).
Proof.
  unfold qclient_grads. cbn [fst snd].
  destruct (qgrads_fold_spec p (snd mc) (c_key (fst mc)) (vzero (length p)) 0 (vzero_length _)) as [E1 E2].
  split; [|rewrite E2; ring]. rewrite E1.
  pose proof (vadd_zero_l (wsum (length p) (chain p (c_key (fst mc)) (snd mc)))) as Z.
  rewrite (wsum_length (length p) _ (chain_wf p (snd mc) (c_key (fst mc)))) in Z. exact Z.
Qed.

Lemma cohort_wf p (clients : list mclient) : wf_clients (length p) (cohort_batch_grads p clients).
Proof.
  unfold cohort_batch_grads, wf_clients. induction clients as [|mc l IH]; cbn; [constructor|].
  apply Forall_app. split; [apply chain_wf|exact IH].
Qed.

Lemma cohort_fold_spec p (l : list mclient) : forall a s, length a = length p ->
  fold_left vadd (map fst (map (qclient_grads grad split p) l)) a =v= vadd a (wsum (length p) (cohort_batch_grads p l)) /\
  fold_left Qplus (map snd (map (qclient_grads grad split p) l)) s == s + wtot (cohort_batch_grads p l).
Proof.
  induction l as [|mc l IH]; intros a s L.
  - cbn [map fold_left]. split; [|unfold wtot; cbn; ring].
    change (wsum (length p) (cohort_batch_grads p [])) with (vzero (length p)). rewrite <- L. symmetry. apply vadd_zero_r.
  - cbn [map fold_left]. destruct (qclient_grads_spec p mc) as [C1 C2].
    assert (Lc : length (fst (qclient_grads grad split p mc)) = length p).
    { rewrite (veq_length _ _ C1). apply wsum_length. apply chain_wf. }
    destruct (IH (vadd a (fst (qclient_grads grad split p mc))) (s + snd (qclient_grads grad split p mc))
                 (vadd_length _ _ _ L Lc)) as [E1 E2].
    unfold cohort_batch_grads in *. cbn [map concat]. split.
    + rewrite E1, C1. rewrite (wsum_app (length p)) by (try apply chain_wf; apply (cohort_wf p l)). apply vadd_assoc.
    + rewrite E2, C2, wtot_app. ring.
Qed.

Lemma sg_q_is_cohort_gradient p (clients : list mclient) :
  sg_q grad split p clients =v= wmean_batch (length p) (cohort_batch_grads p clients).
Proof.
  unfold sg_q, wmean_batch. destruct clients as [|mc rest].
  - cbn [map]. change (wsum (length p) (cohort_batch_grads p [])) with (vzero (length p)). rewrite vscale_vzero. reflexivity.
  - cbn [map]. destruct (qclient_grads_spec p mc) as [C1 C2].
    assert (Lc : length (fst (qclient_grads grad split p mc)) = length p).
    { rewrite (veq_length _ _ C1). apply wsum_length. apply chain_wf. }
    destruct (cohort_fold_spec p rest (fst (qclient_grads grad split p mc)) (snd (qclient_grads grad split p mc)) Lc) as [E1 E2].
    rewrite rscale_vscale. unfold cohort_batch_grads in *. cbn [map concat].
    apply vscale_proper.
    + apply inv_weight_proper. rewrite E2, C2, wtot_app. reflexivity.
    + rewrite E1, C1. symmetry. apply (wsum_app (length p)); [apply chain_wf|apply (cohort_wf p rest)].
Qed.
End ControlVariate.

(* the guard of the HypCluster reduction is needed (witness by evaluation) *)
Lemma hypcluster_unguarded_refuted :
  exists co so (cohorts : list (list (client (K := key) (B := list example)))) p os q s q' s' dgs,
    Forall (fun cl => NoDup (map c_id cl)) cohorts /\
    iter_rounds (hypcluster (ls_grad_reg 0) split_key ls_split_pair ls_copt_init (ls_copt_apply co) (ls_sopt so) (fun _ => O)) [(p, os)] cohorts
      = Some [(q, s)] /\
    fedavg_runs (ls_grad_reg 0) split_key ls_copt_init (ls_copt_apply co) (ls_sopt so) (p, os) (map (map (rekey ls_split_pair)) cohorts)
      = Some (q', s', dgs) /\ ~ q =v= q'.
Proof.
  exists (mkSgd (1 # 2) 0 false), (mkSgd 1 (1 # 2) false),
         [[mkClient 1%Z 1%Z [] [[([1; 0], 1)]]]; [mkClient 2%Z 0%Z [] []]], [0; 0], [0; 0].
  do 5 eexists. split; [|split; [vm_compute; reflexivity|split; [vm_compute; reflexivity|]]].
  - repeat constructor; cbn; intros []; assumption.
  - intros H. apply veqb_veq in H. vm_compute in H. discriminate.
Qed.

(* ------------------------------------------------------------------ *)
(* Regularised objective: grad = mean example gradient + regulariser gradient.  The cohort
   gradient then contains the regulariser gradient exactly once. *)
Lemma wmean_add_const d cl r : wf_clients d cl -> length r = d -> 0 < wtot cl ->
  wmean_batch d (map (fun c => (fst c, vadd (snd c) r)) cl) =v= vadd (wmean_batch d cl) r.
Proof.
  intros Hwf Lr Hpos.
  set (cl' := map (fun c : Q * list Q => (fst c, vadd (snd c) r)) cl).
  assert (Hwf' : wf_clients d cl').
  { unfold wf_clients, cl'. apply Forall_map. eapply Forall_impl; [|exact Hwf]. intros c Hc. cbn [snd]. apply vadd_length; assumption. }
  assert (Et : wtot cl' = wtot cl) by (unfold wtot, cl'; rewrite map_map; reflexivity).
  assert (Hpos' : 0 < wtot cl') by (rewrite Et; exact Hpos).
  apply veq_nth_iff. rewrite (wmean_batch_length d cl' Hwf').
  split; [symmetry; apply vadd_length; [apply wmean_batch_length; exact Hwf|exact Lr]|].
  intros i Hi. rewrite (proj2 (wmean_def d cl' Hwf' Hpos') i Hi).
  rewrite vnth_vadd by (rewrite ?wmean_batch_length by exact Hwf; lia).
  rewrite (proj2 (wmean_def d cl Hwf Hpos) i Hi), Et.
  assert (E : wcoord i cl' == wcoord i cl + vnth i r * wtot cl).
  { unfold wcoord, wtot, cl'. clear Hwf' Et Hpos' Hpos. induction Hwf as [|c cl Hc _ IH]; cbn [map qsum fst snd]; [ring|].
    rewrite IH. rewrite vnth_vadd by lia. ring. }
  rewrite E. field. lra.
Qed.

Section RegControlVariate.
Context {K U B : Type}.
Variable g0 : list Q -> B -> U -> list Q.      (* gradient of the mean example loss of a batch *)
Variable rg : list Q -> list Q.                (* gradient of the regulariser *)
Variable split : K -> K * U.
Hypothesis g0_length : forall p b u, length (g0 p b u) = length p.
Hypothesis rg_length : forall p, length (rg p) = length p.
Notation mclient := (@mclient K B).
Definition reg_grad : list Q -> B -> U -> list Q := fun p b u => vadd (g0 p b u) (rg p).

Lemma reg_grad_length p b u : length (reg_grad p b u) = length p.
Proof. unfold reg_grad. apply vadd_length; [apply g0_length|apply rg_length]. Qed.

Lemma chain_reg p bns : forall k,
  chain reg_grad split p k bns = map (fun c => (fst c, vadd (snd c) (rg p))) (chain g0 split p k bns).
Proof. induction bns as [|bn r IH]; intros k; cbn [chain map fst snd]; [reflexivity|]. rewrite IH. reflexivity. Qed.

Lemma cohort_reg p (clients : list mclient) :
  cohort_batch_grads reg_grad split p clients =
  map (fun c => (fst c, vadd (snd c) (rg p))) (cohort_batch_grads g0 split p clients).
Proof.
  unfold cohort_batch_grads. rewrite concat_map, map_map. f_equal. apply map_ext. intros mc. apply chain_reg.
Qed.

(* server_grads / control variate of the regularised objective = cohort mean of the example
   gradients + the regulariser gradient, once *)
Lemma sg_q_regularized p (clients : list mclient) : 0 < wtot (cohort_batch_grads g0 split p clients) ->
  sg_q reg_grad split p clients =v=
  vadd (wmean_batch (length p) (cohort_batch_grads g0 split p clients)) (rg p).
Proof.
  intros Hpos. rewrite (sg_q_is_cohort_gradient reg_grad split reg_grad_length p clients), cohort_reg.
  apply wmean_add_const; [apply (cohort_wf g0 split g0_length)|apply rg_length|exact Hpos].
Qed.
End RegControlVariate.

(* the evaluated gradient is of that form: ls_grad_reg reg == batch_grad + 2*reg*w *)
Lemma ls_grad_reg_is_reg_grad reg p b u :
  ls_grad_reg reg p b u =v= reg_grad (fun w batch nu => batch_grad w batch nu) (fun w => vscale (2 * reg) w) p b u.
Proof. unfold ls_grad_reg, reg_grad. apply vred_veq. Qed.
