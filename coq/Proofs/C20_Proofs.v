(* C20 proofs: Shakespeare tokeniser, CIFAR-100 crops / standardisation, EMNIST domain
   ids, label-id agreement between the packaged datasets and models. *)
From Coq Require Import ZArith QArith Qabs List Bool Lia Lqa Arith.
From FV Require Import Common.ListX Common.PySem Common.Chunk Model.C20_Model.
Import ListNotations.
Local Open Scope Z_scope.
Ltac Zify.zify_post_hook ::= Z.to_euclidean_division_equations.

(* ---------- lists ---------- *)
Lemma skipn_repeat {A} (x : A) n k : skipn k (repeat x n) = repeat x (n - k).
Proof.
  revert k; induction n as [|n IH]; intros [|k]; cbn; try reflexivity. apply IH.
Qed.

Lemma len_app {A} (a b : list A) : len (a ++ b) = len a + len b.
Proof. unfold len. rewrite app_length. lia. Qed.

Lemma len_nonneg {A} (a : list A) : 0 <= len a.
Proof. unfold len. lia. Qed.

Lemma len_repeat {A} (x : A) n : len (repeat x n) = Z.of_nat n.
Proof. unfold len. now rewrite repeat_length. Qed.

Lemma tl_removelast {A} (l : list A) : tl (removelast l) = removelast (tl l).
Proof. destruct l as [|a [|b l]]; reflexivity. Qed.

Lemma chunks_all_full {A} (bs : nat) : (1 <= bs)%nat -> forall m (l : list A), length l = (m * bs)%nat ->
  Forall (fun c => length c = bs) (chunks bs l).
Proof.
  intros Hbs. induction m as [|m IH]; intros l Hl.
  - destruct l; [constructor|cbn in Hl; lia].
  - rewrite chunks_unfold by exact Hbs. destruct l as [|x l']; [constructor|].
    constructor.
    + rewrite firstn_length. rewrite Hl. lia.
    + apply IH. rewrite skipn_length, Hl. lia.
Qed.

(* ---------- numpy writes into a zero tail ---------- *)
Lemma np_write_zeros pre src n : (length src <= n)%nat ->
  np_write (pre ++ repeat 0 n) (len pre) src = Some ((pre ++ src) ++ repeat 0 (n - length src)).
Proof.
  intros H. unfold np_write. rewrite len_app, len_repeat.
  assert (E1 : (0 <=? len pre) = true) by (apply Z.leb_le; apply len_nonneg).
  assert (E2 : (len pre + len src <=? len pre + Z.of_nat n) = true) by (apply Z.leb_le; unfold len; lia).
  rewrite E1, E2. cbn [andb]. f_equal.
  unfold len. rewrite Nat2Z.id. rewrite <- Nat2Z.inj_add, Nat2Z.id.
  rewrite firstn_app, Nat.sub_diag, firstn_all. cbn [firstn]. rewrite app_nil_r.
  rewrite skipn_app, skipn_all2 by lia. cbn [app].
  replace (length pre + length src - length pre)%nat with (length src) by lia.
  rewrite skipn_repeat, <- app_assoc. reflexivity.
Qed.

Lemma np_assign_zeros pre src n : (length src <= n)%nat ->
  np_assign_slice (pre ++ repeat 0 n) (Some (len pre)) (Some (len pre + len src)) src
  = Some ((pre ++ src) ++ repeat 0 (n - length src)).
Proof.
  intros H. unfold np_assign_slice, slice_bounds, norm_idx. rewrite len_app, len_repeat.
  pose proof (len_nonneg pre). pose proof (len_nonneg src).
  assert (Hs : len src <= Z.of_nat n) by (unfold len; lia).
  destruct (len pre <? 0) eqn:E1; [apply Z.ltb_lt in E1; lia|].
  destruct (len pre + len src <? 0) eqn:E2; [apply Z.ltb_lt in E2; lia|].
  replace (Z.max 0 (Z.min (len pre + Z.of_nat n) (len pre))) with (len pre) by lia.
  replace (Z.max 0 (Z.min (len pre + Z.of_nat n) (len pre + len src))) with (len pre + len src) by lia.
  replace (Z.max 0 (len pre + len src - len pre)) with (len src) by lia.
  rewrite Z.eqb_refl. apply np_write_zeros. exact H.
Qed.

(* ---------- the join loop ---------- *)
Lemma join_step_ok pre s n : (length s + 2 <= n)%nat ->
  join_step (Some (pre ++ repeat 0 n, len pre)) s
  = Some ((pre ++ (SH.BOS :: map lookup s ++ [SH.EOS])) ++ repeat 0 (n - (length s + 2)),
          len (pre ++ (SH.BOS :: map lookup s ++ [SH.EOS]))).
Proof.
  intros H. unfold join_step.
  unfold SH.join_first_pos, SH.join_first_label, SH.join_tok_lo, SH.join_tok_hi, SH.join_last_pos,
    SH.join_last_label, SH.join_next.
  rewrite np_write_zeros by (cbn; lia). cbn [length].
  replace (len pre + 1) with (len (pre ++ [SH.BOS])) by (rewrite len_app; reflexivity).
  replace (len s) with (len (map lookup s)) by (unfold len; now rewrite map_length).
  rewrite np_assign_zeros by (rewrite map_length; lia).
  replace (len (pre ++ [SH.BOS]) + len (map lookup s)) with (len ((pre ++ [SH.BOS]) ++ map lookup s))
    by (rewrite !len_app; reflexivity).
  rewrite np_write_zeros by (cbn [length]; rewrite map_length; lia).
  f_equal. f_equal.
  - rewrite map_length. cbn [length]. rewrite <- !app_assoc. cbn [app].
    replace (n - 1 - length s - 1)%nat with (n - (length s + 2))%nat by lia.
    rewrite <- app_assoc. reflexivity.
  - rewrite !len_app. unfold len. cbn [length]. rewrite app_length, map_length. cbn [length]. lia.
Qed.

Lemma stream_cons s r : stream (s :: r) = (SH.BOS :: map lookup s ++ [SH.EOS]) ++ stream r.
Proof. reflexivity. Qed.

Lemma join_fold : forall snips pre n, (length (stream snips) <= n)%nat ->
  fold_left join_step snips (Some (pre ++ repeat 0 n, len pre))
  = Some ((pre ++ stream snips) ++ repeat 0 (n - length (stream snips)), len (pre ++ stream snips)).
Proof.
  induction snips as [|s r IH]; intros pre n H.
  - cbn [fold_left stream flat_map]. rewrite app_nil_r, Nat.sub_0_r. reflexivity.
  - cbn [fold_left]. rewrite stream_cons in *. rewrite app_length in H. cbn [length] in H.
    rewrite app_length, map_length in H. cbn [length] in H.
    rewrite join_step_ok by lia. rewrite IH.
    + set (B := SH.BOS :: map lookup s ++ [SH.EOS]) in *.
      assert (LB : length B = (length s + 2)%nat).
      { subst B. cbn [length]. rewrite app_length, map_length. cbn [length]. lia. }
      rewrite <- !app_assoc.
      replace (n - (length s + 2) - length (stream r))%nat with (n - length (B ++ stream r))%nat
        by (rewrite app_length, LB; lia).
      reflexivity.
    + lia.
Qed.

Lemma joined_length_stream snips : SH.joined_length (map len snips) = len (stream snips).
Proof.
  unfold SH.joined_length. induction snips as [|s r IH]; [reflexivity|].
  cbn [map fold_right]. rewrite IH, stream_cons, len_app. unfold len. cbn [length].
  rewrite app_length, map_length. cbn [length]. lia.
Qed.

Lemma join_stream snips : join snips = Some (stream snips, len (stream snips)).
Proof.
  unfold join. rewrite joined_length_stream. unfold len at 1. rewrite Nat2Z.id.
  pose proof (join_fold snips [] (length (stream snips)) (le_n _)) as J.
  cbn [app] in J. change (len []) with 0 in J. rewrite J, Nat.sub_diag. cbn [repeat]. now rewrite app_nil_r.
Qed.

(* ---------- padded_length ---------- *)
Lemma padded_length_facts jl L : 2 <= L -> 0 <= jl ->
  let pl := SH.padded_length jl L in
  0 <= pl /\ pl mod L = 0 /\ Z.max 0 (jl - 1) <= pl < Z.max 0 (jl - 1) + L.
Proof.
  intros HL Hj. unfold SH.padded_length. cbn zeta.
  assert (M : ((jl - 1 + L - 1) / L * L) mod L = 0) by (apply Z_mod_mult).
  set (m := jl - 1 + L - 1) in *.
  assert (Hm : 0 <= m) by (subst m; lia).
  assert (Q0 : 0 <= m / L) by (apply Z.div_pos; lia).
  pose proof (Z.mul_div_le m L ltac:(lia)) as A1.
  pose proof (Z.mul_succ_div_gt m L ltac:(lia)) as A2.
  rewrite (Z.mul_comm (m / L) L).
  assert (0 <= L * (m / L)) by (apply Z.mul_nonneg_nonneg; lia).
  rewrite Z.mul_succ_r in A2.
  rewrite (Z.mul_comm (m / L) L) in M.
  repeat split; try exact M; subst m; lia.
Qed.

(* ---------- slices of the joined stream ---------- *)
Lemma x_source (J : list Z) : py_slice_opt J SH.x_src_lo SH.x_src_hi = removelast J.
Proof.
  unfold py_slice_opt, slice_bounds, SH.x_src_lo, SH.x_src_hi, norm_idx. cbn [Z.ltb Z.compare].
  rewrite removelast_firstn_len. cbn [skipn Z.to_nat]. f_equal. unfold len. lia.
Qed.

Lemma y_source (J : list Z) : py_slice_opt J SH.y_src_lo SH.y_src_hi = tl J.
Proof.
  unfold py_slice_opt, slice_bounds, SH.y_src_lo, SH.y_src_hi, norm_idx. cbn [Z.ltb Z.compare].
  destruct J as [|a J]; [reflexivity|].
  replace (Z.max 0 (Z.min (len (a :: J)) 1)) with 1 by (unfold len; cbn [length]; lia).
  cbn [Z.to_nat Pos.to_nat Pos.iter_op Nat.add skipn tl].
  apply firstn_all2. unfold len. cbn [length]. lia.
Qed.

Lemma dest_assign (pl : nat) (src : list Z) (hi : Z) : Z.max 0 hi = len src -> (length src <= pl)%nat ->
  (0 <= hi \/ pl = 0%nat) ->
  np_assign_slice (repeat 0 pl) None (Some hi) src = Some (src ++ repeat 0 (pl - length src)).
Proof.
  intros Hh Hl Hz. unfold np_assign_slice, slice_bounds, norm_idx. rewrite len_repeat.
  assert (B : Z.max 0 (Z.min (Z.of_nat pl) (if hi <? 0 then hi + Z.of_nat pl else hi)) = len src).
  { pose proof (len_nonneg src). unfold len in *. destruct (hi <? 0) eqn:E; [apply Z.ltb_lt in E|apply Z.ltb_ge in E]; lia. }
  rewrite B, Z.sub_0_r. replace (Z.max 0 (len src)) with (len src) by (pose proof (len_nonneg src); lia).
  rewrite Z.eqb_refl.
  pose proof (np_write_zeros [] src pl Hl) as W. cbn [app] in W. exact W.
Qed.

(* ---------- the tokeniser ---------- *)
Lemma tokenise_spec snips L : 2 <= L ->
  exists k, tokenise snips L =
    Some (chunks (Z.to_nat L) (removelast (stream snips) ++ repeat SH.PAD k),
          chunks (Z.to_nat L) (tl (stream snips) ++ repeat SH.PAD k)) /\
    (k < Z.to_nat L)%nat /\
    exists m, (length (removelast (stream snips)) + k = m * Z.to_nat L)%nat.
Proof.
  intros HL. unfold tokenise. rewrite join_stream, joined_length_stream.
  set (J := stream snips).
  destruct (padded_length_facts (len J) L HL (len_nonneg J)) as [P0 [Pm Pb]].
  set (pl := SH.padded_length (len J) L) in *.
  assert (E0 : ((pl <? 0) || (L <=? 0)) = false).
  { apply orb_false_iff. split; [apply Z.ltb_ge; lia|apply Z.leb_gt; lia]. }
  rewrite E0, x_source, y_source.
  change SH.x_fill with 0. change SH.y_fill with 0. change SH.PAD with 0.
  assert (Lr : len (removelast J) = Z.max 0 (len J - 1)).
  { unfold len. rewrite removelast_firstn_len, firstn_length. lia. }
  assert (Lt : length (tl J) = length (removelast J)).
  { destruct J as [|a J']; [reflexivity|]. cbn [tl]. rewrite removelast_firstn_len, firstn_length. cbn [length]. lia. }
  unfold SH.x_dst_hi, SH.y_dst_hi.
  assert (Z0 : len J = 0 -> pl = 0).
  { intros E. rewrite E in Pb. rewrite <- Pm. symmetry. apply Z.mod_small. lia. }
  assert (Z1 : 0 <= len J - 1 \/ Z.to_nat pl = 0%nat).
  { pose proof (len_nonneg J). destruct (Z.eq_dec (len J) 0) as [E|E]; [right; rewrite (Z0 E); reflexivity|left; lia]. }
  rewrite (dest_assign (Z.to_nat pl) (removelast J)) by (try exact Z1; unfold len in *; lia).
  rewrite (dest_assign (Z.to_nat pl) (tl J)) by (try exact Z1; unfold len in *; lia).
  rewrite Pm. cbn [Z.eqb]. rewrite Lt.
  exists (Z.to_nat pl - length (removelast J))%nat. split; [reflexivity|]. split.
  - unfold len in *. lia.
  - exists (Z.to_nat (pl / L)). unfold len in *.
    assert (pl = L * (pl / L)) by (apply Z_div_exact_full_2; lia).
    assert (0 <= pl / L) by (apply Z.div_pos; lia).
    rewrite <- Z2Nat.inj_mul by lia. lia.
Qed.

Lemma shakespeare_lossless snips L : 2 <= L ->
  exists xs ys k, tokenise snips L = Some (xs, ys) /\
    concat xs = removelast (stream snips) ++ repeat SH.PAD k /\
    concat ys = tl (stream snips) ++ repeat SH.PAD k /\
    (k < Z.to_nat L)%nat /\
    Forall (fun r => length r = Z.to_nat L) xs /\ Forall (fun r => length r = Z.to_nat L) ys /\
    length xs = length ys.
Proof.
  intros HL. destruct (tokenise_spec snips L HL) as [k [E [Hk [m Hm]]]].
  assert (HLn : (1 <= Z.to_nat L)%nat) by lia.
  assert (Lt : length (tl (stream snips)) = length (removelast (stream snips))).
  { destruct (stream snips) as [|a J']; [reflexivity|]. cbn [tl]. rewrite removelast_firstn_len, firstn_length. cbn [length]. lia. }
  eexists _, _, k. split; [exact E|].
  rewrite !chunks_concat by exact HLn. repeat split; try exact Hk.
  - apply (chunks_all_full _ HLn m). rewrite app_length, repeat_length. exact Hm.
  - apply (chunks_all_full _ HLn m). rewrite app_length, repeat_length, Lt. exact Hm.
  - assert (G : forall (l : list Z), length l = (m * Z.to_nat L)%nat -> length (chunks (Z.to_nat L) l) = m).
    { intros l Hl. pose proof (chunks_all_full _ HLn m l Hl) as F.
      pose proof (length_concat_const _ _ F) as C. rewrite chunks_concat in C by exact HLn. nia. }
    rewrite !G; [reflexivity| |]; rewrite app_length, repeat_length; [rewrite Lt|]; exact Hm.
Qed.

(* targets are the inputs shifted by one: dropping the first input gives the targets without the last *)
Lemma targets_are_shifted_inputs snips : tl (removelast (stream snips)) = removelast (tl (stream snips)).
Proof. apply tl_removelast. Qed.

(* ---------- the look-up table ---------- *)
Definition byte_values : list Z := map Z.of_nat (seq 0 256).

Lemma byte_values_in c : 0 <= c < 256 -> In c byte_values.
Proof.
  intros H. unfold byte_values. apply in_map_iff. exists (Z.to_nat c). split; [lia|]. apply in_seq. lia.
Qed.

Lemma lookup_is_spec c : 0 <= c < 256 -> lookup c = spec_lookup c.
Proof.
  intros H. assert (F : forallb (fun c => lookup c =? spec_lookup c) byte_values = true) by (vm_compute; reflexivity).
  rewrite forallb_forall in F. apply Z.eqb_eq. apply F. apply byte_values_in. exact H.
Qed.

Lemma lookup_range c : 0 <= c < 256 -> 3 <= lookup c < SH.VOCAB_SIZE.
Proof.
  intros H. assert (F : forallb (fun c => (3 <=? lookup c) && (lookup c <? SH.VOCAB_SIZE)) byte_values = true) by (vm_compute; reflexivity).
  rewrite forallb_forall in F. specialize (F c (byte_values_in c H)). apply andb_true_iff in F. destruct F as [A B].
  apply Z.leb_le in A. apply Z.ltb_lt in B. lia.
Qed.

Definition bytes_ok (snips : list (list Z)) : Prop := Forall (Forall (fun c => 0 <= c < 256)) snips.

Lemma stream_labels snips : bytes_ok snips ->
  Forall (fun t => 1 <= t < SH.VOCAB_SIZE) (stream snips).
Proof.
  induction 1 as [|s r Hs _ IH]; [constructor|]. rewrite stream_cons. apply Forall_app. split; [|exact IH].
  constructor; [vm_compute; split; [discriminate|reflexivity]|]. apply Forall_app. split.
  - rewrite Forall_forall in *. intros t Ht. apply in_map_iff in Ht. destruct Ht as [c [<- Hc]].
    pose proof (lookup_range c (Hs c Hc)). lia.
  - constructor; [vm_compute; split; [discriminate|reflexivity]|constructor].
Qed.

Lemma Forall_removelast {A} (P : A -> Prop) l : Forall P l -> Forall P (removelast l).
Proof. intros H. rewrite removelast_firstn_len. apply Forall_firstn. exact H. Qed.

Lemma Forall_tl {A} (P : A -> Prop) l : Forall P l -> Forall P (tl l).
Proof. intros H. destruct H; [constructor|assumption]. Qed.

Lemma Forall_concat_rows {A} (P : A -> Prop) (ls : list (list A)) : Forall P (concat ls) -> Forall (Forall P) ls.
Proof.
  induction ls as [|l ls IH]; intros H; [constructor|]. cbn [concat] in H. apply Forall_app in H. destruct H.
  constructor; auto.
Qed.

Lemma labels_in_vocab snips L xs ys : 2 <= L -> bytes_ok snips -> tokenise snips L = Some (xs, ys) ->
  Forall (Forall (fun t => 0 <= t < SH.VOCAB_SIZE)) xs /\ Forall (Forall (fun t => 0 <= t < SH.VOCAB_SIZE)) ys.
Proof.
  intros HL Hb E. destruct (shakespeare_lossless snips L HL) as [xs' [ys' [k [E' [Cx [Cy _]]]]]].
  rewrite E in E'. injection E' as <- <-.
  pose proof (stream_labels snips Hb) as S.
  assert (W : forall l, Forall (fun t => 1 <= t < SH.VOCAB_SIZE) l -> Forall (fun t => 0 <= t < SH.VOCAB_SIZE) (l ++ repeat SH.PAD k)).
  { intros l Hl. apply Forall_app. split.
    - eapply Forall_impl; [|exact Hl]. cbn. intros; lia.
    - rewrite Forall_forall. intros t Ht. apply repeat_spec in Ht. subst t. vm_compute. split; [discriminate|reflexivity]. }
  split; apply Forall_concat_rows; [rewrite Cx|rewrite Cy]; apply W; [apply Forall_removelast|apply Forall_tl]; exact S.
Qed.

(* padding only at the end: everything before the pad tail is a real (non-PAD) label *)
Lemma pad_only_at_end snips : bytes_ok snips ->
  Forall (fun t => t <> SH.PAD) (removelast (stream snips)) /\ Forall (fun t => t <> SH.PAD) (tl (stream snips)).
Proof.
  intros Hb. pose proof (stream_labels snips Hb) as S.
  assert (S' : Forall (fun t => t <> SH.PAD) (stream snips)).
  { eapply Forall_impl; [|exact S]. cbn. intros t Ht. change SH.PAD with 0. lia. }
  split; [apply Forall_removelast|apply Forall_tl]; exact S'.
Qed.

(* ---------- CIFAR-100 crops ---------- *)
Lemma center_crop_window ch cw : 1 <= ch <= 32 -> 1 <= cw <= 32 ->
  exists hlo hhi wlo whi, center_window ch cw = Some ((hlo, hhi), (wlo, whi)) /\
    0 <= hlo /\ hhi = hlo + ch /\ hhi <= IMG /\ hlo <= IMG - hhi <= hlo + 1 /\
    0 <= wlo /\ whi = wlo + cw /\ whi <= IMG /\ wlo <= IMG - whi <= wlo + 1.
Proof.
  intros H1 H2. unfold center_window, CF.crop_args_rejected.
  assert (E : ((ch <? 1) || (cw <? 1) || (ch >? 32) || (cw >? 32)) = false).
  { rewrite !orb_false_iff. repeat split; try (apply Z.ltb_ge; lia); rewrite Z.gtb_ltb; apply Z.ltb_ge; lia. }
  rewrite E. eexists _, _, _, _. split; [reflexivity|].
  unfold CF.center_h_lo, CF.center_h_hi, CF.center_w_lo, CF.center_w_hi, CF.center_height_offset, CF.center_width_offset, IMG.
  repeat split; lia.
Qed.

Lemma center_crop_rejects ch cw : ~ (1 <= ch <= 32 /\ 1 <= cw <= 32) -> center_window ch cw = None.
Proof.
  intros H. unfold center_window, CF.crop_args_rejected.
  assert (E : ((ch <? 1) || (cw <? 1) || (ch >? 32) || (cw >? 32)) = true).
  { rewrite !orb_true_iff, !Z.gtb_ltb, !Z.ltb_lt. lia. }
  now rewrite E.
Qed.

Lemma random_crop_in_bounds ch cw uh uw : 1 <= ch <= 32 -> 1 <= cw <= 32 -> 0 <= uh -> 0 <= uw ->
  exists ho he wo we, random_window ch cw uh uw = Some ((ho, he), (wo, we)) /\
    0 <= ho <= IMG - ch /\ he = ho + ch /\ he <= IMG /\ 0 <= wo <= IMG - cw /\ we = wo + cw /\ we <= IMG.
Proof.
  intros H1 H2 H3 H4. unfold random_window, CF.crop_args_rejected.
  assert (E : ((ch <? 1) || (cw <? 1) || (ch >? 32) || (cw >? 32)) = false).
  { rewrite !orb_false_iff. repeat split; try (apply Z.ltb_ge; lia); rewrite Z.gtb_ltb; apply Z.ltb_ge; lia. }
  rewrite E. unfold CF.rand_crop_shape. eexists _, _, _, _. split; [reflexivity|].
  unfold CF.rand_offset, CF.rand_limit, CF.rand_end, IMG.
  pose proof (Z.mod_pos_bound uh (32 - ch + 1) ltac:(lia)).
  pose proof (Z.mod_pos_bound uw (32 - cw + 1) ltac:(lia)).
  repeat split; lia.
Qed.

(* every offset in [0, 32 - crop] is produced by some draw *)
Lemma random_crop_reaches crop o : 1 <= crop <= 32 -> 0 <= o <= IMG - crop ->
  CF.rand_offset o (CF.rand_limit IMG crop) = o.
Proof. intros H1 H2. unfold CF.rand_offset, CF.rand_limit, IMG in *. apply Z.mod_small. lia. Qed.

Lemma plain_crop_in_bounds i j :
  0 <= i < CF.plain_rand_high CF.plain_num_paddings -> 0 <= j < CF.plain_rand_high CF.plain_num_paddings ->
  let '((hlo, hhi), (wlo, whi)) := plain_window i j in
  0 <= hlo /\ hhi = hlo + IMG /\ hhi <= IMG + 2 * CF.plain_num_paddings /\
  0 <= wlo /\ whi = wlo + IMG /\ whi <= IMG + 2 * CF.plain_num_paddings.
Proof.
  unfold CF.plain_rand_high, CF.plain_num_paddings, plain_window, CF.plain_end_i, CF.plain_end_j, IMG. intros. repeat split; lia.
Qed.

(* ---------- standardisation ---------- *)
Lemma std_floor_is_tf {R} (rone : R) rdiv rsub rmax rsqrt s n x m a :
  CF.std_adjusted rone rdiv rmax rsqrt s n = rmax s (rdiv rone (rsqrt n)) /\
  CF.std_result rdiv rsub x m a = rdiv (rsub x m) a /\
  CF.std_mean_axes = [-1; -2; -3] /\ CF.std_std_axes = [-1; -2; -3] /\ CF.std_num_pixels_from_axis = -3.
Proof. repeat split. Qed.

Local Open Scope Q_scope.
Lemma Qmax_cases a b : (a <= b /\ Qmax a b = b) \/ (b < a /\ Qmax a b = a).
Proof.
  unfold Qmax. destruct (Qle_bool a b) eqn:E.
  - left. split; [now apply Qle_bool_iff|reflexivity].
  - right. split; [|reflexivity]. apply Qnot_le_lt. intros H. apply Qle_bool_iff in H. congruence.
Qed.

Lemma Qsq_le a b : 0 <= a -> a <= b -> a * a <= b * b.
Proof.
  intros Ha Hab. apply Qle_trans with (b * a).
  - apply Qmult_le_compat_r; assumption.
  - rewrite (Qmult_comm b a). apply Qmult_le_compat_r; [assumption|]. apply Qle_trans with a; assumption.
Qed.

Lemma Qsq_lt a b : 0 <= a -> a < b -> a * a < b * b.
Proof.
  intros Ha Hab. apply Qle_lt_trans with (b * a).
  - apply Qmult_le_compat_r; [apply Qlt_le_weak|]; assumption.
  - rewrite (Qmult_comm b a). apply Qmult_lt_compat_r; [|assumption]. apply Qle_lt_trans with a; assumption.
Qed.

(* with s = the standard deviation and r = sqrt(num_pixels) (rational witnesses), the
   translated floor expression squared is max(variance, 1/num_pixels), the quantity
   the correspondence check evaluates; and it is positive, so the division is defined *)
Lemma std_adjusted_squared (s r var N : Q) : 0 <= s -> 0 < r -> s * s == var -> r * r == N ->
  let adj := CF.std_adjusted 1 Qdiv Qmax (fun _ => r) s N in
  adj * adj == Qmax var (1 / N) /\ 0 < adj.
Proof.
  intros Hs Hr Hv HN. unfold CF.std_adjusted. cbn zeta.
  assert (Hir : 0 < 1 / r) by (apply Qlt_shift_div_l; [exact Hr|rewrite Qmult_0_l; reflexivity]).
  assert (Hsq : (1 / r) * (1 / r) == 1 / N).
  { rewrite <- HN. field. intros E. rewrite E in Hr. discriminate. }
  destruct (Qmax_cases s (1 / r)) as [[L E]|[L E]]; rewrite E.
  - split; [|exact Hir]. rewrite Hsq.
    destruct (Qmax_cases var (1 / N)) as [[L2 E2]|[L2 E2]]; rewrite E2; [reflexivity|].
    exfalso. rewrite <- Hv, <- Hsq in L2. pose proof (Qsq_le s (1 / r) Hs L) as C.
    apply (Qlt_irrefl (s * s)). apply Qle_lt_trans with (1 / r * (1 / r)); assumption.
  - split; [|apply Qlt_trans with (1 / r); assumption]. rewrite Hv.
    destruct (Qmax_cases var (1 / N)) as [[L2 E2]|[L2 E2]]; rewrite E2; [|reflexivity].
    exfalso. rewrite <- Hv, <- Hsq in L2. pose proof (Qsq_lt (1 / r) s (Qlt_le_weak _ _ Hir) L) as C.
    apply (Qlt_irrefl (s * s)). apply Qle_lt_trans with (1 / r * (1 / r)); assumption.
Qed.
Local Close Scope Q_scope.

(* ---------- EMNIST ---------- *)
Definition is_digit (c : Z) : Prop := 48 <= c <= 57.
Definition digits_value (d1 d2 d3 d4 : Z) : Z := 1000 * (d1 - 48) + 100 * (d2 - 48) + 10 * (d3 - 48) + (d4 - 48).

Lemma domain_ranges (pre suf : list Z) d1 d2 d3 d4 :
  (length pre = 18%nat \/ length pre = 1%nat) -> length suf = 3%nat ->
  is_digit d1 -> is_digit d2 -> is_digit d3 -> is_digit d4 ->
  EM.domain_id (pre ++ [d1; d2; d3; d4] ++ suf) =
    Some (if (2100 <=? digits_value d1 d2 d3 d4) && (digits_value d1 d2 d3 d4 <=? 2599) then 0 else 1).
Proof.
  intros Hp Hs _ _ _ _. unfold EM.domain_id.
  assert (Hl : Z.of_nat (length (pre ++ [d1; d2; d3; d4] ++ suf)) = Z.of_nat (length pre) + 7).
  { rewrite !app_length, Hs. cbn [length]. lia. }
  assert (Sl : forall a b, a = Z.of_nat (length pre) -> b = a + 4 ->
            py_slice (pre ++ [d1; d2; d3; d4] ++ suf) a b = [d1; d2; d3; d4]).
  { intros a b -> ->. unfold py_slice. rewrite Nat2Z.id.
    replace (Z.to_nat (Z.of_nat (length pre) + 4 - Z.of_nat (length pre))) with 4%nat by lia.
    rewrite skipn_app, skipn_all, Nat.sub_diag. reflexivity. }
  assert (V : EM.py_int_ascii [d1; d2; d3; d4] = digits_value d1 d2 d3 d4).
  { unfold EM.py_int_ascii, digits_value. cbn [fold_left]. lia. }
  rewrite Hl. destruct Hp as [Hp|Hp]; rewrite Hp.
  - change (Z.of_nat 18 + 7 =? 25) with true. cbn match.
    rewrite (Sl 18 22) by (rewrite ?Hp; reflexivity). rewrite V.
    destruct ((2100 <=? _) && (_ <=? 2599)); reflexivity.
  - change (Z.of_nat 1 + 7 =? 25) with false. change (Z.of_nat 1 + 7 =? 8) with true. cbn match.
    rewrite (Sl 1 5) by (rewrite ?Hp; reflexivity). rewrite V.
    destruct ((2100 <=? _) && (_ <=? 2599)); reflexivity.
Qed.

Lemma domain_rejects_other_lengths id : length id <> 25%nat -> length id <> 8%nat -> EM.domain_id id = None.
Proof.
  intros H1 H2. unfold EM.domain_id.
  destruct (Z.of_nat (length id) =? 25) eqn:E1; [apply Z.eqb_eq in E1; lia|].
  destruct (Z.of_nat (length id) =? 8) eqn:E2; [apply Z.eqb_eq in E2; lia|]. reflexivity.
Qed.

(* ---------- label ids: dataset vs model (translated constants) ---------- *)
Definition so_first_oov_id (V : Z) : Z := V + SO.tok_id_offset.
Definition so_dataset_vocab (V buckets : Z) : Z := V + SO.tok_id_offset + buckets.

Lemma shakespeare_ids_agree :
  let V := SHM.sh_default_vocab_size in
  V = len SH.VOCAB_BYTES /\
  SHM.sh_pad V = SH.PAD /\ SHM.sh_bos V = SH.BOS /\ SHM.sh_eos V = SH.EOS /\ SHM.sh_oov V = SH.OOV /\
  SHM.sh_full_vocab_size V = SH.VOCAB_SIZE /\
  SHM.sh_logits_masked V = [SH.PAD; SH.BOS; SH.EOS; SH.OOV] /\ SHM.sh_logits_len V = SH.VOCAB_SIZE /\
  SHM.sh_embed_rows V = SH.VOCAB_SIZE /\ SHM.sh_logits_dim V = SH.VOCAB_SIZE /\
  SHM.sh_train_loss_masked V = SH.PAD /\
  SHM.sh_accuracy_in_vocab_masked_target_values V = [SH.PAD; SH.EOS] /\ SHM.sh_accuracy_in_vocab_uses_logits_mask = true /\
  SHM.sh_accuracy_no_eos_masked_target_values V = [SH.PAD; SH.EOS] /\ SHM.sh_accuracy_no_eos_uses_logits_mask = false /\
  SHM.sh_num_tokens_masked_target_values V = [SH.PAD] /\ SHM.sh_sequence_length_masked_target_values V = [SH.PAD] /\
  SHM.sh_sequence_loss_masked_target_values V = [SH.PAD] /\ SHM.sh_token_loss_masked_target_values V = [SH.PAD] /\
  SHM.sh_token_oov_rate_masked_target_values V = [SH.PAD] /\ SHM.sh_token_oov_rate_oov_target_values V = [SH.OOV] /\
  SH.join_first_label = SH.BOS /\ SH.join_last_label = SH.EOS /\ SH.x_fill = SH.PAD /\ SH.y_fill = SH.PAD /\
  SH.OOV = SH.lut_fill SH.NUM_RESERVED (len SH.VOCAB_BYTES).
Proof. vm_compute. repeat split. Qed.

Lemma stackoverflow_ids_agree :
  let V := SOM.so_default_vocab_size in
  V = SO.tok_default_vocab_size /\ SO.tok_default_num_oov_buckets = 1 /\ SO.tok_default_num_oov_buckets_base = 1 /\
  SOM.so_pad V = SO.tok_PAD /\ SOM.so_bos V = SO.tok_BOS /\ SOM.so_eos V = SO.tok_EOS /\
  SOM.so_oov V = so_first_oov_id V /\
  SOM.so_full_vocab_size V = so_dataset_vocab V SO.tok_default_num_oov_buckets /\
  SOM.so_logits_masked V = [SO.tok_PAD; SO.tok_BOS; SO.tok_EOS; so_first_oov_id V] /\
  SOM.so_logits_len V = SOM.so_full_vocab_size V /\ SOM.so_embed_rows V = SOM.so_full_vocab_size V /\
  SOM.so_logits_dim V = SOM.so_full_vocab_size V /\ SOM.so_train_loss_masked V = SO.tok_PAD /\
  SOM.so_accuracy_in_vocab_masked_target_values V = [SO.tok_PAD; SO.tok_EOS] /\ SOM.so_accuracy_in_vocab_uses_logits_mask = true /\
  SOM.so_accuracy_no_eos_masked_target_values V = [SO.tok_PAD; SO.tok_EOS] /\ SOM.so_accuracy_no_eos_uses_logits_mask = false /\
  SOM.so_num_tokens_masked_target_values V = [SO.tok_PAD] /\ SOM.so_sequence_length_masked_target_values V = [SO.tok_PAD] /\
  SOM.so_sequence_loss_masked_target_values V = [SO.tok_PAD] /\ SOM.so_token_loss_masked_target_values V = [SO.tok_PAD] /\
  SOM.so_token_oov_rate_masked_target_values V = [SO.tok_PAD] /\ SOM.so_token_oov_rate_oov_target_values V = [so_first_oov_id V] /\
  SOM.so_truncation_rate_masked_target_values V = [SO.tok_PAD] /\ SOM.so_truncation_rate_eos_target_value V = SO.tok_EOS /\
  SO.tok_x_lo = None /\ SO.tok_x_hi = Some (-1) /\ SO.tok_y_lo = Some 1 /\ SO.tok_y_hi = None.
Proof. vm_compute. repeat split. Qed.

(* the ids agree for EVERY vocabulary size, not only the default (one OOV bucket) *)
Lemma stackoverflow_ids_agree_any V :
  SOM.so_pad V = SO.tok_PAD /\ SOM.so_bos V = SO.tok_BOS /\ SOM.so_eos V = SO.tok_EOS /\
  SOM.so_oov V = so_first_oov_id V /\ SOM.so_full_vocab_size V = so_dataset_vocab V 1.
Proof.
  unfold SOM.so_pad, SOM.so_bos, SOM.so_eos, SOM.so_oov, SOM.so_full_vocab_size, so_first_oov_id, so_dataset_vocab,
    SO.tok_PAD, SO.tok_BOS, SO.tok_EOS, SO.tok_id_offset. repeat split; lia.
Qed.

Definition dflt (o : option Z) (d : Z) : Z := match o with Some v => v | None => d end.

(* tasks.get_task: what reaches the tokenizer / dataset and what reaches the model *)
Lemma tasks_wiring :
  (* Stack Overflow: tokenizer vocabulary + 3 reserved ids + buckets = model's full vocabulary; same max_length *)
  so_dataset_vocab (dflt TK.task_so_tok_default_vocab_size SO.tok_default_vocab_size)
                   (dflt TK.task_so_tok_num_oov_buckets SO.tok_default_num_oov_buckets)
    = SOM.so_full_vocab_size (dflt TK.task_so_model_vocab_size SOM.so_default_vocab_size) /\
  TK.task_so_train_max_length = TK.task_so_test_max_length /\ TK.task_so_train_max_length <> None /\
  (* Shakespeare: model's full vocabulary = dataset VOCAB_SIZE *)
  SHM.sh_full_vocab_size (dflt TK.task_sh_model_vocab_size SHM.sh_default_vocab_size) = SH.VOCAB_SIZE /\
  2 <= dflt TK.task_sh_sequence_length Gen_ds_shakespeare_defaults.sh_default_sequence_length /\
  (* CIFAR-100: default TFF crop = the model's sample input *)
  TK.task_cifar_uses_tff_defaults = true /\
  Gen_md_cifar100.cifar_model_sample_shape =
    [1; Gen_ds_cifar100_defaults.cifar_default_crop_height; Gen_ds_cifar100_defaults.cifar_default_crop_width; 3] /\
  (* EMNIST: dataset and model agree on digits-only (10 classes) vs all 62 classes *)
  TK.task_emnist_conv_data_only_digits = TK.task_emnist_conv_model_only_digits /\
  TK.task_emnist_logistic_data_only_digits = TK.task_emnist_logistic_model_only_digits /\
  TK.task_emnist_dense_data_only_digits = TK.task_emnist_dense_model_only_digits.
Proof. vm_compute. repeat split; discriminate. Qed.

(* ---------- per-example training loss: a row's loss does not depend on the other rows ---------- *)
Lemma lm_loss_row_independent tail pad el (pre post : list (list Q * list Z)) r :
  nth_error (lm_batch_loss tail pad el (pre ++ r :: post)) (length pre) = Some (lm_row_loss tail pad el r) /\
  lm_batch_loss tail pad el [r] = [lm_row_loss tail pad el r] /\
  length (lm_batch_loss tail pad el (pre ++ r :: post)) = length (pre ++ r :: post).
Proof.
  unfold lm_batch_loss. repeat split.
  - rewrite map_app. cbn [map]. rewrite nth_error_app2 by (rewrite map_length; lia).
    rewrite map_length, Nat.sub_diag. reflexivity.
  - apply map_length.
Qed.

(* padded positions contribute nothing, whatever the logits there *)
Lemma mask_row_ignores_pad pad l l' y ls ys : y = pad ->
  mask_row pad (l :: ls) (y :: ys) = mask_row pad (l' :: ls) (y :: ys).
Proof. intros ->. cbn [mask_row]. now rewrite Z.eqb_refl. Qed.

(* ---------- _build_look_up_table for ANY vocabulary: the last occurrence wins ---------- *)
Lemma np_write_one_nth (t : list Z) (p v : Z) (c : nat) : 0 <= p < len t ->
  exists t', np_write t p [v] = Some t' /\ length t' = length t /\
             nth c t' 0 = if Nat.eqb c (Z.to_nat p) then v else nth c t 0.
Proof.
  intros Hp. unfold np_write, len in *. cbn [length].
  destruct ((0 <=? p) && (p + Z.of_nat 1 <=? Z.of_nat (length t))) eqn:E.
  2:{ apply andb_false_iff in E. destruct E as [E|E]; [apply Z.leb_gt in E|apply Z.leb_gt in E]; lia. }
  eexists. split; [reflexivity|].
  replace (Z.to_nat (p + Z.of_nat 1)) with (S (Z.to_nat p)) by lia.
  set (k := Z.to_nat p). assert (Hk : (k < length t)%nat) by lia.
  split.
  - rewrite !app_length, firstn_length, skipn_length. cbn [length]. lia.
  - destruct (Nat.eqb c k) eqn:Ec.
    + apply Nat.eqb_eq in Ec. subst c. rewrite app_nth2; rewrite firstn_length; [|lia].
      replace (k - Nat.min k (length t))%nat with 0%nat by lia. reflexivity.
    + apply Nat.eqb_neq in Ec. destruct (Nat.lt_ge_cases c k) as [L|G].
      * rewrite app_nth1 by (rewrite firstn_length; lia). rewrite <- (firstn_skipn k t) at 2.
        rewrite app_nth1 by (rewrite firstn_length; lia). reflexivity.
      * rewrite app_nth2 by (rewrite firstn_length; lia). rewrite firstn_length.
        replace (c - Nat.min k (length t))%nat with (S (c - S k)) by lia. cbn [app nth].
        rewrite <- (firstn_skipn (S k) t) at 2. rewrite app_nth2 by (rewrite firstn_length; lia).
        rewrite firstn_length. f_equal. lia.
Qed.

Lemma last_index_acc c : forall vs k acc,
  last_index c vs k acc = match last_index c vs k None with Some i => Some i | None => acc end.
Proof.
  induction vs as [|v r IH]; intros k acc; cbn [last_index]; [reflexivity|].
  rewrite (IH (k + 1) (if v =? c then Some k else acc)), (IH (k + 1) (if v =? c then Some k else None)).
  destruct (last_index c r (k + 1) None); [reflexivity|]. destruct (v =? c); reflexivity.
Qed.

Lemma table_fold nr (c : nat) : forall vs (s : nat) (t : list Z),
  Forall (fun v => 0 <= v < len t) vs ->
  let r := fold_left (fun tbl ic => match np_write tbl (snd ic) [SH.lut_entry nr (fst ic)] with Some t' => t' | None => tbl end)
                     (combine (map Z.of_nat (seq s (length vs))) vs) t in
  length r = length t /\
  nth c r 0 = match last_index (Z.of_nat c) vs (Z.of_nat s) None with Some i => nr + i | None => nth c t 0 end.
Proof.
  induction vs as [|v r IH]; intros s t F; cbn zeta.
  - cbn. split; reflexivity.
  - inversion F as [|? ? Hv Fr]; subst. cbn [length seq map combine fold_left fst snd].
    destruct (np_write_one_nth t v (SH.lut_entry nr (Z.of_nat s)) c Hv) as [t' [W [Lt Nt]]]. rewrite W.
    assert (Fr' : Forall (fun v0 => 0 <= v0 < len t') r) by (unfold len in *; rewrite Lt; exact Fr).
    destruct (IH (S s) t' Fr') as [L1 N1]. split; [now rewrite L1|].
    rewrite N1. cbn [last_index]. rewrite (last_index_acc (Z.of_nat c) r (Z.of_nat s + 1) (if v =? Z.of_nat c then Some (Z.of_nat s) else None)).
    replace (Z.of_nat (S s)) with (Z.of_nat s + 1) by lia.
    destruct (last_index (Z.of_nat c) r (Z.of_nat s + 1) None); [reflexivity|].
    rewrite Nt. unfold SH.lut_entry.
    destruct (v =? Z.of_nat c) eqn:E.
    + apply Z.eqb_eq in E. subst v. rewrite Nat2Z.id, Nat.eqb_refl. reflexivity.
    + apply Z.eqb_neq in E. destruct (Nat.eqb c (Z.to_nat v)) eqn:E2; [apply Nat.eqb_eq in E2; lia|reflexivity].
Qed.

Lemma nth_repeat_in {A} (x d : A) n c : (c < n)%nat -> nth c (repeat x n) d = x.
Proof. revert c; induction n as [|n IH]; intros [|c] H; cbn; try lia; [reflexivity|apply IH; lia]. Qed.

(* for every vocabulary (duplicates allowed) and every number of reserved labels: byte c gets
   num_reserved + (index of its LAST occurrence), every other byte gets oov = num_reserved + len(vocab) *)
Lemma table_last_occurrence_wins vocab nr (c : nat) : Forall (fun v => 0 <= v < 256) vocab -> (c < 256)%nat ->
  nth c (build_table vocab nr) 0 =
    match last_index (Z.of_nat c) vocab 0 None with Some i => nr + i | None => SH.lut_oov nr (len vocab) end /\
  length (build_table vocab nr) = 256%nat.
Proof.
  intros F Hc. unfold build_table.
  set (t0 := repeat (SH.lut_fill nr (len vocab)) (Z.to_nat SH.lut_table_size)).
  assert (L0 : length t0 = 256%nat) by (subst t0; rewrite repeat_length; reflexivity).
  assert (F0 : Forall (fun v => 0 <= v < len t0) vocab) by (unfold len; rewrite L0; exact F).
  destruct (table_fold nr c vocab 0 t0 F0) as [L N]. split; [|now rewrite L].
  rewrite N. change (Z.of_nat 0) with 0. destruct (last_index (Z.of_nat c) vocab 0 None); [reflexivity|].
  subst t0. rewrite nth_repeat_in by (change (Z.to_nat SH.lut_table_size) with 256%nat; lia). reflexivity.
Qed.

(* ---------- preprocess_image normalisation ---------- *)
Local Open Scope Q_scope.
Lemma plain_normalisation :
  Forall2 Qeq Gen_ds_cifar100_norm.plain_mean [4914 # 10000; 4822 # 10000; 4465 # 10000] /\
  Forall2 Qeq Gen_ds_cifar100_norm.plain_std [2023 # 10000; 1994 # 10000; 2010 # 10000] /\
  forall v m s, ~ s == 0 -> Gen_ds_cifar100_norm.plain_normalise v m s == (v / 255 - m) / s.
Proof.
  split; [|split].
  - repeat constructor; reflexivity.
  - repeat constructor; reflexivity.
  - intros v m s Hs. unfold Gen_ds_cifar100_norm.plain_normalise. field. exact Hs.
Qed.
Local Close Scope Q_scope.

Lemma preprocessors_process_independent :
  SH.shakespeare_is_process_independent = true /\ SO.stackoverflow_is_process_independent = true /\
  EM.emnist_is_process_independent = true.
Proof. repeat split. Qed.

(* argument plumbing, recognised on this run: every wrapper passes each of its parameters on to the like-named
   parameter of the function it wraps *)
Lemma argument_forwarding :
  CF.cifar_batch_tff_forwards = true /\ CF.cifar_batch_forwards = true /\ CF.cifar_load_data_forwards = true /\
  EM.emnist_load_data_forwards = true /\ SH.sh_load_data_forwards = true /\ SH.sh_load_data_binds_sequence_length = true /\
  SO.so_load_data_forwards = true /\ SO.so_tokenizer_forwards_vocab_size = true /\ SO.so_tokenizer_forwards_buckets = true /\
  SO.so_as_preprocess_batch_forwards = true /\ TK.tasks_forward_mode_and_cache_dir = true.
Proof. repeat split. Qed.
