(* C19 proofs: the final cache path is only ever written by renaming a closed
   temporary that holds everything an honest source delivers. *)
From Coq Require Import ZArith List Bool Lia.
From FV Require Import Common.ListX Common.PySem Common.PyStr Common.AtomFS Common.Chunk
  gen.Gen_downloads gen.Gen_cifar100_cache Model.C19_Model.
Import ListNotations.
Local Open Scope Z_scope.

Lemma streqb_spec a b : streqb a b = true <-> a = b.
Proof. apply list_beq_eq. intros; apply Z.eqb_eq. Qed.

Lemma app_neq_self {A} (l s : list A) : s <> [] -> l ++ s <> l.
Proof.
  intros Hs H. apply (f_equal (@length A)) in H. rewrite app_length in H.
  destruct s; [contradiction|cbn in H; lia].
Qed.

Lemma dl_part_neq path : path ++ download_partial_suffix <> path.
Proof. apply app_neq_self. discriminate. Qed.

Lemma dc_part_neq dpath : dpath ++ decompress_partial_suffix <> dpath.
Proof. apply app_neq_self. discriminate. Qed.

Lemma cv_part_neq spath : spath ++ split_partial_suffix <> spath.
Proof. apply app_neq_self. discriminate. Qed.

(* number of blocks = number of chunks *)
Lemma chunks_f_count {A} : forall fuel bs (l : list A), (1 <= bs)%nat -> (length l <= fuel)%nat ->
  Z.of_nat (length (chunks_f fuel bs l)) = (Z.of_nat (length l) + Z.of_nat bs - 1) / Z.of_nat bs.
Proof.
  induction fuel as [|f IH]; intros bs l Hbs Hl.
  - destruct l; [|cbn in Hl; lia]. cbn [chunks_f length]. symmetry. apply Z.div_small. lia.
  - destruct l as [|x l'].
    + cbn [chunks_f length]. symmetry. apply Z.div_small. lia.
    + remember (x :: l') as l eqn:El. assert (1 <= length l)%nat by (subst; cbn; lia).
      assert (chunks_f (S f) bs l = firstn bs l :: chunks_f f bs (skipn bs l)) as -> by (subst; reflexivity).
      cbn [length]. rewrite Nat2Z.inj_succ, IH; [|exact Hbs|rewrite skipn_length; lia].
      rewrite skipn_length. set (L := length l) in *.
      destruct (le_lt_dec L bs) as [Hle|Hgt].
      * replace (L - bs)%nat with 0%nat by lia. cbn [Z.of_nat].
        rewrite (Z.div_small (0 + Z.of_nat bs - 1)) by lia.
        replace (Z.of_nat L + Z.of_nat bs - 1) with ((Z.of_nat L - 1) + 1 * Z.of_nat bs) by lia.
        rewrite Z.div_add by lia. rewrite Z.div_small by lia. lia.
      * rewrite Nat2Z.inj_sub by lia.
        replace (Z.of_nat L + Z.of_nat bs - 1) with ((Z.of_nat L - Z.of_nat bs + Z.of_nat bs - 1) + 1 * Z.of_nat bs) by lia.
        rewrite Z.div_add by lia. lia.
Qed.

Lemma block_count {A} (payload : list A) (bs : Z) : 1 <= bs ->
  Z.to_nat (download_num_blocks (Z.of_nat (length payload)) bs) = length (chunks (Z.to_nat bs) payload) /\
  concat (chunks (Z.to_nat bs) payload) = payload.
Proof.
  intros Hbs. split; [|apply chunks_concat; lia].
  unfold download_num_blocks, chunks. apply Nat2Z.inj. rewrite chunks_f_count by lia.
  rewrite !Z2Nat.id; [reflexivity|lia|].
  apply Z.div_pos; lia.
Qed.

Section P.
Context {Blk : Type}.
Notation dir := (@AtomFS.dir str (list Blk)).
Notation lookup := (AtomFS.lookup streqb).
Notation ev := (ev19 Blk).

(* an honest source delivers the blocks P in order; after an error nothing matters *)
Inductive honest_reads : list Blk -> list (option Blk) -> Prop :=
| hr_done : honest_reads [] []
| hr_err P l : honest_reads P (None :: l)
| hr_block b P l : honest_reads P l -> honest_reads (b :: P) (Some b :: l).

Lemma honest_all P : honest_reads P (map Some P).
Proof. induction P; cbn; constructor; assumption. Qed.

Definition untouched (p : str) (e : ev) : Prop :=
  match e with
  | DCr n | DCl n _ | DRm n => n <> p
  | DRn a b => a <> p /\ b <> p
  | _ => True
  end.

Lemma neq_eqb a b : a <> b -> streqb a b = false.
Proof. apply (eqb_neq streqb streqb_spec). Qed.

Lemma untouched_lookup p e (d : dir) : untouched p e -> lookup (apply19 d e) p = lookup d p.
Proof.
  intros H. destruct e; cbn [apply19 fs_step19 AtomFS.apply untouched] in *; try reflexivity.
  - rewrite (lookup_set streqb streqb_spec), neq_eqb by exact H. reflexivity.
  - rewrite (lookup_set streqb streqb_spec), neq_eqb by exact H. reflexivity.
  - destruct H as [Ha Hb]. destruct (lookup d a) eqn:E; [|reflexivity].
    rewrite (lookup_set streqb streqb_spec), neq_eqb by exact Hb.
    rewrite (lookup_del streqb streqb_spec), neq_eqb by exact Ha. reflexivity.
  - rewrite (lookup_del streqb streqb_spec), neq_eqb by exact H. reflexivity.
Qed.

Lemma untouched_all p es : forall (d : dir), Forall (untouched p) es -> lookup (applys19 d es) p = lookup d p.
Proof.
  induction es as [|e es IH]; intros d H; [reflexivity|]. inversion H; subst.
  cbn [applys19 fold_left]. fold (applys19 (apply19 d e) es). rewrite IH by assumption. now apply untouched_lookup.
Qed.

Lemma close_ev_untouched ok t p b : t <> p -> untouched p (@close_ev Blk ok t b).
Proof. intros H. destruct ok; cbn [close_ev untouched]; [exact H|exact I]. Qed.

Ltac unt Hp He :=
  repeat first [ apply Forall_app; split | exact He | apply Forall_nil | apply Forall_cons
               | exact I | exact Hp | (apply close_ev_untouched; exact Hp) | (split; exact Hp) ].

Lemma applys19_app (d : dir) a b : applys19 d (a ++ b) = applys19 (applys19 d a) b.
Proof. apply fold_left_app. Qed.

Lemma dl_loop_untouched part p : part <> p -> forall n j l acc e a ok,
  dl_loop part n j l acc = (e, a, ok) -> Forall (untouched p) e.
Proof.
  intros Hp. induction n as [|n IH]; intros j l acc e a ok H; cbn [dl_loop] in H.
  - injection H as <- _ _. constructor.
  - destruct l as [|[b|] l'].
    + destruct (dl_loop part n (S j) [] acc) as [[e' a'] ok'] eqn:E. injection H as <- _ _.
      constructor; [exact I|]. constructor; [exact I|]. eapply IH; eassumption.
    + destruct (dl_loop part n (S j) l' (acc ++ [b])) as [[e' a'] ok'] eqn:E. injection H as <- _ _.
      constructor; [exact I|]. constructor; [exact I|]. eapply IH; eassumption.
    + injection H as <- _ _. repeat constructor.
Qed.

Lemma dl_loop_honest part P l : honest_reads P l -> forall n j acc e a ok, n = length P ->
  dl_loop part n j l acc = (e, a, ok) -> ok = true -> a = acc ++ P.
Proof.
  induction 1 as [|P l|b P l Hh IH]; intros n j acc e a ok Hn H Hok.
  - subst n. cbn in H. injection H as _ <- _. now rewrite app_nil_r.
  - destruct n as [|n]; cbn [dl_loop] in H.
    + destruct P; [|discriminate]. injection H as _ <- _. now rewrite app_nil_r.
    + injection H as _ _ <-. discriminate.
  - subst n. cbn [length dl_loop] in H.
    destruct (dl_loop part (length P) (S j) l (acc ++ [b])) as [[e' a'] ok'] eqn:E. injection H as _ <- <-.
    rewrite (IH _ _ _ _ _ _ eq_refl E Hok), <- app_assoc. reflexivity.
Qed.

Lemma dl_loop_all part (P : list Blk) : forall j acc, exists e, dl_loop part (length P) j (map Some P) acc = (e, acc ++ P, true).
Proof.
  induction P as [|b P IH]; intros j acc; cbn [length map dl_loop].
  - exists []. now rewrite app_nil_r.
  - destruct (IH (S j) (acc ++ [b])) as [e He]. rewrite He. eexists. rewrite <- app_assoc. reflexivity.
Qed.

Lemma cp_loop_untouched dpart p : dpart <> p -> forall l j acc e a ok,
  cp_loop dpart j l acc = (e, a, ok) -> Forall (untouched p) e.
Proof.
  intros Hp. induction l as [|[b|] l IH]; intros j acc e a ok H; cbn [cp_loop] in H.
  - injection H as <- _ _. repeat constructor.
  - destruct (cp_loop dpart (S j) l (acc ++ [b])) as [[e' a'] ok'] eqn:E. injection H as <- _ _.
    constructor; [exact I|]. constructor; [exact I|]. eapply IH; eassumption.
  - injection H as <- _ _. repeat constructor.
Qed.

Lemma cp_loop_honest dpart P l : honest_reads P l -> forall j acc e a ok,
  cp_loop dpart j l acc = (e, a, ok) -> ok = true -> a = acc ++ P.
Proof.
  induction 1 as [|P l|b P l Hh IH]; intros j acc e a ok H Hok; cbn [cp_loop] in H.
  - injection H as _ <- _. now rewrite app_nil_r.
  - injection H as _ _ <-. discriminate.
  - destruct (cp_loop dpart (S j) l (acc ++ [b])) as [[e' a'] ok'] eqn:E. injection H as _ <- <-.
    rewrite (IH _ _ _ _ _ E Hok), <- app_assoc. reflexivity.
Qed.

Lemma cp_loop_all dpart (P : list Blk) : forall j acc, exists e, cp_loop dpart j (map Some P) acc = (e, acc ++ P, true).
Proof.
  induction P as [|b P IH]; intros j acc; cbn [map cp_loop].
  - eexists. now rewrite app_nil_r.
  - destruct (IH (S j) (acc ++ [b])) as [e He]. rewrite He. eexists. rewrite <- app_assoc. reflexivity.
Qed.

(* the final path is absent or holds exactly P *)
Definition good (p : str) (P : list Blk) (d : dir) : Prop :=
  lookup d p = None \/ lookup d p = Some (Whole P).

(* effects = safe ++ [rename tmp final], safe never touches final and leaves tmp = Whole P *)
Lemma prefix_good p t P (d : dir) safe : lookup d p = None \/ lookup d p = Some (Whole P) ->
  Forall (untouched p) safe -> lookup (applys19 d safe) t = Some (Whole P) ->
  forall k, good p P (applys19 d (firstn k (safe ++ [DRn t p]))).
Proof.
  intros Hd Hs Ht k. rewrite firstn_app. destruct (le_lt_dec k (length safe)) as [L|L].
  - replace (k - length safe)%nat with 0%nat by lia. cbn [firstn]. rewrite app_nil_r.
    unfold good. rewrite untouched_all by (now apply Forall_firstn). exact Hd.
  - rewrite firstn_all2 by lia. destruct (k - length safe)%nat as [|m] eqn:E; [lia|].
    cbn [firstn]. rewrite firstn_nil, applys19_app. right.
    change (applys19 (applys19 d safe) [DRn t p]) with (AtomFS.apply streqb (applys19 d safe) (Rename t p)).
    rewrite (lookup_rename streqb streqb_spec t p p _ _ Ht), (eqb_refl streqb streqb_spec). reflexivity.
Qed.

Lemma safe_good p P (d : dir) es : good p P d -> Forall (untouched p) es ->
  forall k, good p P (applys19 d (firstn k es)).
Proof. intros Hd Hs k. unfold good. rewrite untouched_all by (now apply Forall_firstn). exact Hd. Qed.

Definition honest_source (P : list Blk) (src : source Blk) : Prop :=
  (forall len, s_length src = Some len -> Z.to_nat (download_num_blocks len download_block_size) = length P) /\
  honest_reads P (s_reads src).

Lemma close_lookup (d : dir) xs t b : lookup (applys19 d (xs ++ [DCl t b])) t = Some (Whole b).
Proof.
  rewrite applys19_app. cbn [applys19 fold_left apply19 fs_step19 AtomFS.apply].
  now rewrite (lookup_set streqb streqb_spec), (eqb_refl streqb streqb_spec).
Qed.

Lemma download_prefix_good path P (d : dir) src : good path P d -> honest_source P src ->
  forall k, good path P (applys19 d (firstn k (fst (download d path src)))).
Proof.
  intros Hd [Hlen Hrd]. unfold download. set (part := path ++ download_partial_suffix).
  assert (Hp : part <> path) by apply dl_part_neq.
  destruct (lookup d path) as [c|] eqn:El; [cbn [fst]; apply safe_good; [exact Hd|repeat constructor]|].
  destruct (s_get src); cbn [negb]; [|cbn [fst]; apply safe_good; [exact Hd|unt Hp I]].
  destruct (s_status src); cbn [negb]; [|cbn [fst]; apply safe_good; [exact Hd|unt Hp I]].
  destruct (s_length src) as [len|] eqn:Elen; [|cbn [fst]; apply safe_good; [exact Hd|unt Hp I]].
  destruct (dl_loop part _ 0 (s_reads src) []) as [[e acc] ok] eqn:E.
  assert (He : Forall (untouched path) e) by (eapply dl_loop_untouched; eassumption).
  destruct ok; [destruct (s_close src)|]; cbn [andb fst close_ev].
  - assert (acc = P) as -> by (apply (dl_loop_honest part P _ Hrd _ _ _ _ _ _ (Hlen len eq_refl) E eq_refl)).
    intros k. rewrite !app_assoc. apply (prefix_good path part P d); [left; exact El| |].
    + rewrite <- !app_assoc. unt Hp He.
    + apply close_lookup.
  - apply safe_good; [exact Hd|]. unt Hp He.
  - apply safe_good; [exact Hd|]. unt Hp He.
Qed.

Lemma download_success path P (d : dir) src len : lookup d path = None ->
  s_get src = true -> s_status src = true -> s_length src = Some len ->
  Z.to_nat (download_num_blocks len download_block_size) = length P -> s_reads src = map Some P ->
  s_close src = true ->
  exists evs, download d path src = (evs, true) /\ lookup (applys19 d evs) path = Some (Whole P) /\
    lookup (applys19 d evs) (path ++ download_partial_suffix) = None.
Proof.
  intros El Hg Hs Hl Hn Hr Hc. unfold download. rewrite El, Hg, Hs, Hl, Hn, Hr, Hc. cbn [negb].
  set (part := path ++ download_partial_suffix).
  destruct (dl_loop_all part P 0 []) as [e He]. rewrite He. cbn [app andb]. eexists. split; [reflexivity|].
  assert (Hp : part <> path) by apply dl_part_neq.
  change (DMk :: DEx path :: DCr part :: DGet :: DStatus :: e ++ [DCl part P; DRn part path])
    with ((DMk :: DEx path :: DCr part :: DGet :: DStatus :: e) ++ [DCl part P] ++ [DRn part path]).
  rewrite app_assoc, applys19_app.
  set (d1 := applys19 d ((DMk :: DEx path :: DCr part :: DGet :: DStatus :: e) ++ [DCl part P])).
  change (applys19 d1 [DRn part path]) with (AtomFS.apply streqb d1 (Rename part path)).
  assert (Ht : lookup d1 part = Some (Whole P)) by apply close_lookup.
  split.
  - rewrite (lookup_rename streqb streqb_spec part path path _ _ Ht), (eqb_refl streqb streqb_spec). reflexivity.
  - rewrite (lookup_rename streqb streqb_spec part path part _ _ Ht).
    rewrite neq_eqb by (intros H; apply Hp; now symmetry). now rewrite (eqb_refl streqb streqb_spec).
Qed.

Lemma download_reuse path (d : dir) c src : lookup d path = Some c -> download d path src = ([DMk; DEx path], true).
Proof. intros H. unfold download. now rewrite H. Qed.

Definition honest_z (P : list Blk) (z : zsource Blk) : Prop := honest_reads P (z_chunks z).

Lemma decompress_prefix_good dpath P (d : dir) z : good dpath P d -> honest_z P z ->
  forall k, good dpath P (applys19 d (firstn k (fst (decompress d dpath z)))).
Proof.
  intros Hd Hz. unfold decompress. set (dpart := dpath ++ decompress_partial_suffix).
  assert (Hp : dpart <> dpath) by apply dc_part_neq.
  destruct (lookup d dpath) as [c|] eqn:El; [cbn [fst]; apply safe_good; [exact Hd|repeat constructor]|].
  destruct (z_open z); cbn [negb]; [|cbn [fst]; apply safe_good; [exact Hd|repeat constructor]].
  destruct (cp_loop dpart 0 (z_chunks z) []) as [[e acc] ok] eqn:E.
  assert (He : Forall (untouched dpath) e) by (eapply cp_loop_untouched; eassumption).
  destruct ok; [destruct (z_close z)|]; cbn [andb fst close_ev].
  - assert (acc = P) as -> by (apply (cp_loop_honest dpart P _ Hz _ _ _ _ _ E eq_refl)).
    intros k. rewrite !app_assoc. apply (prefix_good dpath dpart P d); [left; exact El| |].
    + rewrite <- !app_assoc. unt Hp He.
    + apply close_lookup.
  - apply safe_good; [exact Hd|]. unt Hp He.
  - apply safe_good; [exact Hd|]. unt Hp He.
Qed.

Lemma decompress_success dpath P (d : dir) z : lookup d dpath = None -> z_open z = true -> z_chunks z = map Some P ->
  z_close z = true ->
  exists evs, decompress d dpath z = (evs, true) /\ lookup (applys19 d evs) dpath = Some (Whole P) /\
    lookup (applys19 d evs) (dpath ++ decompress_partial_suffix) = None.
Proof.
  intros El Ho Hc Hcl. unfold decompress. rewrite El, Ho, Hc, Hcl. cbn [negb].
  set (dpart := dpath ++ decompress_partial_suffix).
  destruct (cp_loop_all dpart P 0 []) as [e He]. rewrite He. cbn [app andb]. eexists. split; [reflexivity|].
  assert (Hp : dpart <> dpath) by apply dc_part_neq.
  change (DEx dpath :: DZOpen (dpath ++ decompress_ext) :: DCr dpart :: e ++ [DCl dpart P; DRn dpart dpath])
    with ((DEx dpath :: DZOpen (dpath ++ decompress_ext) :: DCr dpart :: e) ++ [DCl dpart P] ++ [DRn dpart dpath]).
  rewrite app_assoc, applys19_app.
  set (d1 := applys19 d ((DEx dpath :: DZOpen (dpath ++ decompress_ext) :: DCr dpart :: e) ++ [DCl dpart P])).
  change (applys19 d1 [DRn dpart dpath]) with (AtomFS.apply streqb d1 (Rename dpart dpath)).
  assert (Ht : lookup d1 dpart = Some (Whole P)) by apply close_lookup.
  split.
  - rewrite (lookup_rename streqb streqb_spec dpart dpath dpath _ _ Ht), (eqb_refl streqb streqb_spec). reflexivity.
  - rewrite (lookup_rename streqb streqb_spec dpart dpath dpart _ _ Ht).
    rewrite neq_eqb by (intros H; apply Hp; now symmetry). now rewrite (eqb_refl streqb streqb_spec).
Qed.

Lemma decompress_reuse dpath (d : dir) c z : lookup d dpath = Some c -> decompress d dpath z = ([DEx dpath], true).
Proof. intros H. unfold decompress. now rewrite H. Qed.

(* ---- both functions follow the rename discipline of Common/AtomFS.v ---------------- *)

Definition is_final (p : str) (n : str) : bool := streqb n p.

Lemma applys19_run (es : list ev) : forall d : dir, applys19 d es = AtomFS.run streqb d (map (@fs_step19 Blk) es).
Proof. induction es as [|e es IH]; intros d; [reflexivity|]. cbn [applys19 fold_left map AtomFS.run]. apply IH. Qed.

Lemma untouched_disciplined p es : forall d : dir, Forall (untouched p) es ->
  disciplined_run streqb (is_final p) d (map (@fs_step19 Blk) es).
Proof.
  induction es as [|e es IH]; intros d H; [exact I|]. inversion H as [|? ? He Hes]; subst.
  split; [|apply (IH _ Hes)]. unfold is_final.
  destruct e; cbn [fs_step19 disciplined untouched] in *; try exact I.
  - now apply neq_eqb.
  - destruct He as [_ Hb]. intros E. apply streqb_spec in E. contradiction.
Qed.

Lemma safe_then_rename_disciplined p t P (d : dir) safe : Forall (untouched p) safe ->
  lookup (applys19 d safe) t = Some (Whole P) ->
  disciplined_run streqb (is_final p) d (map (@fs_step19 Blk) (safe ++ [DRn t p])).
Proof.
  intros Hs Ht. rewrite map_app. apply disciplined_run_app. split; [now apply untouched_disciplined|].
  rewrite <- applys19_run. cbn [map fs_step19 disciplined_run disciplined]. split; [|exact I].
  intros _. rewrite Ht. discriminate.
Qed.

Lemma download_disciplined path (d : dir) src :
  disciplined_run streqb (is_final path) d (map (@fs_step19 Blk) (fst (download d path src))).
Proof.
  unfold download. set (part := path ++ download_partial_suffix).
  assert (Hp : part <> path) by apply dl_part_neq.
  destruct (lookup d path) as [c|] eqn:El; [cbn [fst]; apply untouched_disciplined; repeat constructor|].
  destruct (s_get src); cbn [negb]; [|cbn [fst]; apply untouched_disciplined; unt Hp I].
  destruct (s_status src); cbn [negb]; [|cbn [fst]; apply untouched_disciplined; unt Hp I].
  destruct (s_length src) as [len|]; [|cbn [fst]; apply untouched_disciplined; unt Hp I].
  destruct (dl_loop part _ 0 (s_reads src) []) as [[e acc] ok] eqn:E.
  assert (He : Forall (untouched path) e) by (eapply dl_loop_untouched; eassumption).
  destruct ok; [destruct (s_close src)|]; cbn [andb fst close_ev].
  - rewrite !app_assoc. apply (safe_then_rename_disciplined path part acc d).
    + rewrite <- !app_assoc. unt Hp He.
    + apply close_lookup.
  - apply untouched_disciplined. unt Hp He.
  - apply untouched_disciplined. unt Hp He.
Qed.

Lemma decompress_disciplined dpath (d : dir) z :
  disciplined_run streqb (is_final dpath) d (map (@fs_step19 Blk) (fst (decompress d dpath z))).
Proof.
  unfold decompress. set (dpart := dpath ++ decompress_partial_suffix).
  assert (Hp : dpart <> dpath) by apply dc_part_neq.
  destruct (lookup d dpath) as [c|] eqn:El; [cbn [fst]; apply untouched_disciplined; repeat constructor|].
  destruct (z_open z); cbn [negb]; [|cbn [fst]; apply untouched_disciplined; repeat constructor].
  destruct (cp_loop dpart 0 (z_chunks z) []) as [[e acc] ok] eqn:E.
  assert (He : Forall (untouched dpath) e) by (eapply cp_loop_untouched; eassumption).
  destruct ok; [destruct (z_close z)|]; cbn [andb fst close_ev].
  - rewrite !app_assoc. apply (safe_then_rename_disciplined dpath dpart acc d).
    + rewrite <- !app_assoc. unt Hp He.
    + apply close_lookup.
  - apply untouched_disciplined. unt Hp He.
  - apply untouched_disciplined. unt Hp He.
Qed.

(* hence, whatever the source does (honest or not), the final path is never torn *)
Lemma download_never_tears path (d : dir) src m : no_torn_final streqb (is_final path) d ->
  no_torn_final streqb (is_final path) (applys19 d (firstn m (fst (download d path src)))).
Proof.
  intros Hd. rewrite applys19_run, <- firstn_map.
  apply (tmp_then_rename_atomic streqb streqb_spec (is_final path)); [exact Hd|apply download_disciplined].
Qed.

Lemma decompress_never_tears dpath (d : dir) z m : no_torn_final streqb (is_final dpath) d ->
  no_torn_final streqb (is_final dpath) (applys19 d (firstn m (fst (decompress d dpath z)))).
Proof.
  intros Hd. rewrite applys19_run, <- firstn_map.
  apply (tmp_then_rename_atomic streqb streqb_spec (is_final dpath)); [exact Hd|apply decompress_disciplined].
Qed.

(* ---- the conversion of cifar100.load_split ------------------------------------------ *)

Lemma cv_loop_untouched p : forall l j acc e a ok,
  cv_loop j l acc = (e, a, ok) -> Forall (untouched p) e.
Proof.
  induction l as [|[b|] l IH]; intros j acc e a ok H; cbn [cv_loop] in H.
  - injection H as <- _ _. repeat constructor.
  - destruct (cv_loop (S j) l (acc ++ [b])) as [[e' a'] ok'] eqn:E. injection H as <- _ _.
    constructor; [exact I|]. eapply IH; eassumption.
  - injection H as <- _ _. repeat constructor.
Qed.

Lemma cv_loop_all (P : list Blk) : forall j acc, exists e, cv_loop j (map Some P) acc = (e, acc ++ P, true).
Proof.
  induction P as [|b P IH]; intros j acc; cbn [map cv_loop].
  - eexists. now rewrite app_nil_r.
  - destruct (IH (S j) (acc ++ [b])) as [e He]. rewrite He. eexists. rewrite <- app_assoc. reflexivity.
Qed.

Lemma validated_lookup (d : dir) xs t b : lookup (applys19 d (xs ++ [DCl t b; DValidate t])) t = Some (Whole b).
Proof.
  change [DCl t b; DValidate t] with ([DCl t b] ++ [@DValidate Blk t]). rewrite app_assoc, applys19_app.
  change (applys19 ?x [DValidate t]) with x. apply close_lookup.
Qed.

(* validation is honest: only the complete content P passes *)
Definition honest_valid (P : list Blk) (x : csource Blk) : Prop := forall c, x_valid x c = true -> c = P.

Lemma stale_untouched (d : dir) part p : part <> p ->
  Forall (untouched p) (match lookup d part with Some _ => [DEx part; DRm part] | None => [@DEx Blk part] end).
Proof. intros Hp. destruct (lookup d part); repeat constructor; exact Hp. Qed.

Lemma convert_prefix_good spath P (d : dir) x : good spath P d -> honest_valid P x ->
  forall k, good spath P (applys19 d (firstn k (fst (convert d spath x)))).
Proof.
  intros Hd Hv. unfold convert. set (part := spath ++ split_partial_suffix).
  assert (Hp : part <> spath) by apply cv_part_neq.
  destruct (lookup d spath) as [c|] eqn:El; [cbn [fst]; apply safe_good; [exact Hd|repeat constructor]|].
  assert (Hst := stale_untouched d part spath Hp). set (stale := match lookup d part with Some _ => _ | None => _ end) in *.
  destruct (cv_loop 0 (x_clients x) []) as [[e acc] ok] eqn:E.
  assert (He : Forall (untouched spath) e) by (eapply cv_loop_untouched; eassumption).
  destruct ok; [destruct (x_valid x acc) eqn:Ev|]; cbn [fst].
  - apply Hv in Ev. subst acc. intros k. rewrite !app_assoc. apply (prefix_good spath part P d); [left; exact El| |].
    + rewrite <- !app_assoc. repeat (apply Forall_app; split); try exact Hst; try exact He; repeat constructor; exact Hp.
    + rewrite <- !app_assoc. rewrite (app_assoc [DEx spath]), (app_assoc _ [DCr part]), (app_assoc _ e). apply validated_lookup.
  - apply safe_good; [exact Hd|]. repeat (apply Forall_app; split); try exact Hst; try exact He; repeat constructor; exact Hp.
  - apply safe_good; [exact Hd|]. repeat (apply Forall_app; split); try exact Hst; try exact He; repeat constructor; exact Hp.
Qed.

Lemma convert_success spath P (d : dir) x : lookup d spath = None ->
  x_clients x = map Some P -> x_valid x P = true ->
  exists evs, convert d spath x = (evs, true) /\ lookup (applys19 d evs) spath = Some (Whole P) /\
    lookup (applys19 d evs) (spath ++ split_partial_suffix) = None.
Proof.
  intros El Hc Hv. unfold convert. rewrite El, Hc. set (part := spath ++ split_partial_suffix).
  set (stale := match lookup d part with Some _ => _ | None => _ end).
  destruct (cv_loop_all P 0 []) as [e He]. rewrite He. change ([] ++ P) with P. rewrite Hv. eexists. split; [reflexivity|].
  assert (Hp : part <> spath) by apply cv_part_neq.
  rewrite !app_assoc, applys19_app.
  set (d1 := applys19 d _).
  change (applys19 d1 [DRn part spath]) with (AtomFS.apply streqb d1 (Rename part spath)).
  assert (Ht : lookup d1 part = Some (Whole P)) by apply validated_lookup.
  split.
  - rewrite (lookup_rename streqb streqb_spec part spath spath _ _ Ht), (eqb_refl streqb streqb_spec). reflexivity.
  - rewrite (lookup_rename streqb streqb_spec part spath part _ _ Ht).
    rewrite neq_eqb by (intros H; apply Hp; now symmetry). now rewrite (eqb_refl streqb streqb_spec).
Qed.

Lemma convert_reuse spath (d : dir) c x : lookup d spath = Some c -> convert d spath x = ([DEx spath], true).
Proof. intros H. unfold convert. now rewrite H. Qed.

Lemma convert_disciplined spath (d : dir) x :
  disciplined_run streqb (is_final spath) d (map (@fs_step19 Blk) (fst (convert d spath x))).
Proof.
  unfold convert. set (part := spath ++ split_partial_suffix).
  assert (Hp : part <> spath) by apply cv_part_neq.
  destruct (lookup d spath) as [c|] eqn:El; [cbn [fst]; apply untouched_disciplined; repeat constructor|].
  assert (Hst := stale_untouched d part spath Hp). set (stale := match lookup d part with Some _ => _ | None => _ end) in *.
  destruct (cv_loop 0 (x_clients x) []) as [[e acc] ok] eqn:E.
  assert (He : Forall (untouched spath) e) by (eapply cv_loop_untouched; eassumption).
  destruct ok; [destruct (x_valid x acc)|]; cbn [fst].
  - rewrite !app_assoc. apply (safe_then_rename_disciplined spath part acc d).
    + rewrite <- !app_assoc. repeat (apply Forall_app; split); try exact Hst; try exact He; repeat constructor; exact Hp.
    + rewrite <- !app_assoc. rewrite (app_assoc [DEx spath]), (app_assoc _ [DCr part]), (app_assoc _ e). apply validated_lookup.
  - apply untouched_disciplined. repeat (apply Forall_app; split); try exact Hst; try exact He; repeat constructor; exact Hp.
  - apply untouched_disciplined. repeat (apply Forall_app; split); try exact Hst; try exact He; repeat constructor; exact Hp.
Qed.

Lemma convert_never_tears spath (d : dir) x m : no_torn_final streqb (is_final spath) d ->
  no_torn_final streqb (is_final spath) (applys19 d (firstn m (fst (convert d spath x)))).
Proof.
  intros Hd. rewrite applys19_run, <- firstn_map.
  apply (tmp_then_rename_atomic streqb streqb_spec (is_final spath)); [exact Hd|apply convert_disciplined].
Qed.

(* sequences of interrupted calls *)
Fixpoint after (d : dir) (l : list (call Blk * option nat)) : dir :=
  match l with
  | [] => d
  | (c, k) :: l' => after (snd (fst (one_call d c k))) l'
  end.

Lemma one_call_dir (d : dir) c k : exists k', snd (fst (one_call d c k)) = applys19 d (firstn k' (fst (call_events d c))).
Proof.
  unfold one_call. destruct (call_events d c) as [evs ok]. cbn [fst]. destruct k as [k|].
  - destruct (k <? length evs)%nat; [exists k; reflexivity|exists (length evs); now rewrite firstn_all].
  - exists (length evs). now rewrite firstn_all.
Qed.

Lemma after_good_download path P : forall l (d : dir), good path P d ->
  Forall (fun ck => exists src, fst ck = CDownload path src /\ honest_source P src) l -> good path P (after d l).
Proof.
  induction l as [|[c k] l IH]; intros d Hd Hl; [exact Hd|]. inversion Hl as [|? ? (src & Hc & Hs) Hl']; subst.
  cbn [fst] in Hc. subst c. cbn [after]. apply IH; [|exact Hl'].
  destruct (one_call_dir d (CDownload path src) k) as [k' ->]. cbn [call_events]. now apply download_prefix_good.
Qed.

Lemma after_good_decompress dpath P : forall l (d : dir), good dpath P d ->
  Forall (fun ck => exists z, fst ck = CDecompress dpath z /\ honest_z P z) l -> good dpath P (after d l).
Proof.
  induction l as [|[c k] l IH]; intros d Hd Hl; [exact Hd|]. inversion Hl as [|? ? (z & Hc & Hs) Hl']; subst.
  cbn [fst] in Hc. subst c. cbn [after]. apply IH; [|exact Hl'].
  destruct (one_call_dir d (CDecompress dpath z) k) as [k' ->]. cbn [call_events]. now apply decompress_prefix_good.
Qed.

Lemma retry_download path P l (d : dir) src len : good path P d ->
  Forall (fun ck => exists s, fst ck = CDownload path s /\ honest_source P s) l ->
  s_get src = true -> s_status src = true -> s_length src = Some len ->
  Z.to_nat (download_num_blocks len download_block_size) = length P -> s_reads src = map Some P ->
  s_close src = true ->
  exists evs d', one_call (after d l) (CDownload path src) None = (evs, d', Returned) /\
    lookup d' path = Some (Whole P).
Proof.
  intros Hd Hl Hg Hs Hlen Hn Hr Hc. assert (H := after_good_download path P l d Hd Hl).
  unfold one_call. cbn [call_events]. destruct H as [H|H].
  - destruct (download_success path P (after d l) src len H Hg Hs Hlen Hn Hr Hc) as (evs & -> & Hp & _).
    exists evs, (applys19 (after d l) evs). split; [reflexivity|exact Hp].
  - rewrite (download_reuse path _ _ src H). eexists. eexists. split; [reflexivity|].
    cbn [applys19 fold_left apply19 fs_step19 AtomFS.apply]. exact H.
Qed.

Lemma retry_decompress dpath P l (d : dir) z : good dpath P d ->
  Forall (fun ck => exists s, fst ck = CDecompress dpath s /\ honest_z P s) l ->
  z_open z = true -> z_chunks z = map Some P -> z_close z = true ->
  exists evs d', one_call (after d l) (CDecompress dpath z) None = (evs, d', Returned) /\
    lookup d' dpath = Some (Whole P).
Proof.
  intros Hd Hl Ho Hc Hcl. assert (H := after_good_decompress dpath P l d Hd Hl).
  unfold one_call. cbn [call_events]. destruct H as [H|H].
  - destruct (decompress_success dpath P (after d l) z H Ho Hc Hcl) as (evs & -> & Hp & _).
    exists evs, (applys19 (after d l) evs). split; [reflexivity|exact Hp].
  - rewrite (decompress_reuse dpath _ _ z H). eexists. eexists. split; [reflexivity|].
    cbn [applys19 fold_left apply19 fs_step19 AtomFS.apply]. exact H.
Qed.

Lemma after_good_convert spath P : forall l (d : dir), good spath P d ->
  Forall (fun ck => exists x, fst ck = CConvert spath x /\ honest_valid P x) l -> good spath P (after d l).
Proof.
  induction l as [|[c k] l IH]; intros d Hd Hl; [exact Hd|]. inversion Hl as [|? ? (x & Hc & Hs) Hl']; subst.
  cbn [fst] in Hc. subst c. cbn [after]. apply IH; [|exact Hl'].
  destruct (one_call_dir d (CConvert spath x) k) as [k' ->]. cbn [call_events]. now apply convert_prefix_good.
Qed.

Lemma retry_convert spath P l (d : dir) x : good spath P d ->
  Forall (fun ck => exists s, fst ck = CConvert spath s /\ honest_valid P s) l ->
  x_clients x = map Some P -> x_valid x P = true ->
  exists evs d', one_call (after d l) (CConvert spath x) None = (evs, d', Returned) /\
    lookup d' spath = Some (Whole P).
Proof.
  intros Hd Hl Hc Hv. assert (H := after_good_convert spath P l d Hd Hl).
  unfold one_call. cbn [call_events]. destruct H as [H|H].
  - destruct (convert_success spath P (after d l) x H Hc Hv) as (evs & -> & Hp & _).
    exists evs, (applys19 (after d l) evs). split; [reflexivity|exact Hp].
  - rewrite (convert_reuse spath _ _ x H). eexists. eexists. split; [reflexivity|].
    cbn [applys19 fold_left apply19 fs_step19 AtomFS.apply]. exact H.
Qed.

(* `after` is the directory component of the model function the correspondence evaluates *)
Lemma last_default_irrelevant {A} (l : list A) x d d' : last (x :: l) d = last (x :: l) d'.
Proof. revert x. induction l as [|y l IH]; intros x; [reflexivity|]. change (last (y :: l) d = last (y :: l) d'). apply IH. Qed.

Lemma calls_after : forall l (d : dir), after d l = last (map (fun r => snd (fst r)) (calls d l)) d.
Proof.
  induction l as [|[c k] l IH]; intros d; [reflexivity|]. cbn [after calls map].
  rewrite IH. set (d1 := snd (fst (one_call d c k))).
  destruct (map (fun r : list ev * dir * outcome => snd (fst r)) (calls d1 l)) as [|y ys]; [reflexivity|].
  change (last (y :: ys) d1 = last (y :: ys) d). apply last_default_irrelevant.
Qed.

End P.

(* the hypotheses are satisfiable: the harness's sources *)
Lemma hypotheses_examples :
  honest_source [262144; 262144; 1] (mkSource true true (Some 524289) [Some 262144; None] true) /\
  honest_source [262144; 262144; 1] (mkSource true true (Some 524289) [Some 262144; Some 262144; Some 1] false) /\
  honest_z [65536; 5] (mkZ true [Some 65536; Some 5] true) /\
  (forall cs, honest_valid [1; 1; 1] (mkCS cs (fun c => list_beq Z.eqb c [1; 1; 1]))).
Proof.
  split; [|split; [|split]].
  - split; [intros len H; injection H as <-; reflexivity|repeat constructor].
  - split; [intros len H; injection H as <-; reflexivity|repeat constructor].
  - repeat constructor.
  - intros cs c H. cbn [x_valid] in H. apply (list_beq_eq Z.eqb) in H; [exact H|intros; apply Z.eqb_eq].
Qed.

Lemma process_independent : downloads_code_is_process_independent = true.
Proof. reflexivity. Qed.
